#!/bin/sh
# builds the libTooling fact extractor (offline, ~20 s)
set -e
HERE=$(cd "$(dirname "$0")" && pwd)
mkdir -p "$HERE/build/facts"
SRC="$HERE/tools/nanofacts/nanofacts.cc"
OUT="$HERE/build/nanofacts"
if [ ! -x "$OUT" ] || [ "$SRC" -nt "$OUT" ]; then
  clang++ $(llvm-config-14 --cxxflags) -std=c++17 -fno-rtti -O1 -w "$SRC" -o "$OUT.tmp.$$" \
     /usr/lib/llvm-14/lib/libclang-cpp.so.14 /usr/lib/llvm-14/lib/libLLVM-14.so
  mv "$OUT.tmp.$$" "$OUT"
fi
echo "nanofacts ready"
