#!/bin/sh
exit 0
