"""Seeded mutants (rule must fire) and benign edits (every rule must stay silent). One exact textual edit each,
applied to a scratch copy only."""
MUTANTS = [
    # ---- C07
    dict(property="C07", name="lemarechal-wolfe-bypassed", rule="R-C07-1", file="src/lsearchk/lemarechal.cpp",
         old="if (state.has_wolfe(state0, descent, c2))", new="if (state.has_wolfe(state0, descent, c2) || i > 20)"),
    dict(property="C07", name="zoom-swolfe-before-armijo", rule="R-C07-1", file="src/lsearchk/fletcher.cpp",
         old="""        else if (!state.has_armijo(state0, descent, step_size, c1) || state.fx() >= lo.f)
        {
            hi = {state, descent, step_size};
        }
        else if (state.has_strong_wolfe(state0, descent, c2))
        {
            return {true, step_size};
        }""",
         new="""        else if (state.has_strong_wolfe(state0, descent, c2))
        {
            return {true, step_size};
        }
        else if (!state.has_armijo(state0, descent, step_size, c1) || state.fx() >= lo.f)
        {
            hi = {state, descent, step_size};
        }"""),
    dict(property="C07", name="backtrack-returns-valid", rule="R-C07-1", file="src/lsearchk/backtrack.cpp",
         old="""        if (!update(state, state0, descent, step_size, logger))
        {
            return {false, step_size};
        }
    }

    return {false, step_size};""",
         new="""        if (!update(state, state0, descent, step_size, logger))
        {
            return {false, step_size};
        }
    }

    return {state.valid(), step_size};"""),
    dict(property="C07", name="backtrack-armijo-with-c2", rule="R-C07-1", file="src/lsearchk/backtrack.cpp",
         old="state.has_armijo(state0, descent, step_size, c1)", new="state.has_armijo(state0, descent, step_size, c2)"),
    dict(property="C07", name="fletcher-step-changed-after-test", rule="R-C07-1", file="src/lsearchk/fletcher.cpp",
         old="""        else if (state.has_strong_wolfe(state0, descent, c2))
        {
            return {true, step_size};
        }
        else if (!state.has_descent(descent))""",
         new="""        else if (state.has_strong_wolfe(state0, descent, c2))
        {
            step_size = std::max(step_size, stpmin());
            return {true, step_size};
        }
        else if (!state.has_descent(descent))"""),
    dict(property="C07", name="get-update-before-descent-test", rule="R-C07-2", file="src/lsearchk.cpp",
         old="""    // check descent direction
    if (!state.has_descent(descent))""",
         new="""    state.update(state.x());
    if (!state.has_descent(descent))"""),
    dict(property="C07", name="morethuente-return-other-step", rule="R-C07-3", file="src/lsearchk/morethuente.cpp",
         old="""        if (f <= ftest && std::fabs(g) <= gtol * (-ginit))
        {
            return {true, stp};""",
         new="""        if (f <= ftest && std::fabs(g) <= gtol * (-ginit))
        {
            return {true, stx};"""),
    dict(property="C07", name="cgdescent-step-without-update", rule="R-C07-3", file="src/lsearchk/cgdescent.cpp",
         old="            last_a = {interval.c, interval.descent, interval.step_size};",
         new="            last_a = {interval.c, interval.descent, interval.step_size}; interval.step_size *= 0.5;"),
    dict(property="C07", name="wolfe-predicate-flipped", rule="R-C07-4", file="src/solver/state.cpp",
         old="return dg(descent) >= c2 * origin.dg(descent);", new="return dg(descent) <= c2 * origin.dg(descent);"),
    dict(property="C07", name="armijo-predicate-without-c1", rule="R-C07-4", file="src/solver/state.cpp",
         old="return m_fx <= origin.fx() + step_size * c1 * origin.dg(descent);", new="return m_fx <= origin.fx() + step_size * origin.dg(descent);"),
]

BENIGN = [
    dict(property="C07", name="lemarechal-swap-operands", file="src/lsearchk/lemarechal.cpp",
         old="if (R.t < epsilon0<scalar_t>())", new="if (epsilon0<scalar_t>() > R.t)"),
    dict(property="C07", name="backtrack-rename-and-temp", file="src/lsearchk/backtrack.cpp",
         old="""        if (state.has_armijo(state0, descent, step_size, c1))
        {
            return {true, step_size};
        }""",
         new="""        const auto accepted = state.has_armijo(state0, descent, step_size, c1);
        logger.info("accepted=", accepted);
        if (state.has_armijo(state0, descent, step_size, c1))
        {
            return {true, step_size};
        }"""),
    dict(property="C07", name="armijo-predicate-reordered", file="src/solver/state.cpp",
         old="return m_fx <= origin.fx() + step_size * c1 * origin.dg(descent);", new="return origin.fx() + c1 * origin.dg(descent) * step_size >= m_fx;"),
]
