"""Seeded mutants (rule must fire) and benign edits (every rule must stay silent). One exact textual edit each,
applied to a scratch copy only."""
MUTANTS = [
    # ---- C07
    dict(property="C07", name="lemarechal-wolfe-bypassed", rule="R-C07-1", file="src/lsearchk/lemarechal.cpp",
         old="if (state.has_wolfe(state0, descent, c2))", new="if (state.has_wolfe(state0, descent, c2) || i > 20)"),
    dict(property="C07", name="zoom-swolfe-before-armijo", rule="R-C07-1", file="src/lsearchk/fletcher.cpp",
         old="""        else if (!state.has_armijo(state0, descent, step_size, c1) || state.fx() >= lo.f)
        {
            hi = {state, descent, step_size};
        }
        else if (state.has_strong_wolfe(state0, descent, c2))
        {
            return {true, step_size};
        }""",
         new="""        else if (state.has_strong_wolfe(state0, descent, c2))
        {
            return {true, step_size};
        }
        else if (!state.has_armijo(state0, descent, step_size, c1) || state.fx() >= lo.f)
        {
            hi = {state, descent, step_size};
        }"""),
    dict(property="C07", name="backtrack-returns-valid", rule="R-C07-1", file="src/lsearchk/backtrack.cpp",
         old="""        if (!update(state, state0, descent, step_size, logger))
        {
            return {false, step_size};
        }
    }

    return {false, step_size};""",
         new="""        if (!update(state, state0, descent, step_size, logger))
        {
            return {false, step_size};
        }
    }

    return {state.valid(), step_size};"""),
    dict(property="C07", name="backtrack-armijo-with-c2", rule="R-C07-1", file="src/lsearchk/backtrack.cpp",
         old="state.has_armijo(state0, descent, step_size, c1)", new="state.has_armijo(state0, descent, step_size, c2)"),
    dict(property="C07", name="fletcher-step-changed-after-test", rule="R-C07-1", file="src/lsearchk/fletcher.cpp",
         old="""        else if (state.has_strong_wolfe(state0, descent, c2))
        {
            return {true, step_size};
        }
        else if (!state.has_descent(descent))""",
         new="""        else if (state.has_strong_wolfe(state0, descent, c2))
        {
            step_size = std::max(step_size, stpmin());
            return {true, step_size};
        }
        else if (!state.has_descent(descent))"""),
    dict(property="C07", name="get-update-before-descent-test", rule="R-C07-2", file="src/lsearchk.cpp",
         old="""    // check descent direction
    if (!state.has_descent(descent))""",
         new="""    state.update(state.x());
    if (!state.has_descent(descent))"""),
    dict(property="C07", name="get-refuses-only-positive-dg", rule="R-C07-2", file="src/lsearchk.cpp",
         old="    if (!state.has_descent(descent))", new="    if (const auto dg0 = state.dg(descent); dg0 > 0.0)"),
    dict(property="C07", name="has-descent-non-strict", rule="R-C07-2", file="include/nano/solver/state.h", tu="src/lsearchk.cpp",
         old="bool has_descent(const vector_t& descent) const { return dg(descent) < 0.0; }", new="bool has_descent(const vector_t& descent) const { return dg(descent) <= 0.0; }"),
    dict(property="C07", name="morethuente-return-other-step", rule="R-C07-3", file="src/lsearchk/morethuente.cpp",
         old="""        if (f <= ftest && std::fabs(g) <= gtol * (-ginit))
        {
            return {true, stp};""",
         new="""        if (f <= ftest && std::fabs(g) <= gtol * (-ginit))
        {
            return {true, stx};"""),
    dict(property="C07", name="cgdescent-step-without-update", rule="R-C07-3", file="src/lsearchk/cgdescent.cpp",
         old="            last_a = {interval.c, interval.descent, interval.step_size};",
         new="            last_a = {interval.c, interval.descent, interval.step_size}; interval.step_size *= 0.5;"),
    dict(property="C07", name="wolfe-predicate-flipped", rule="R-C07-4", file="src/solver/state.cpp",
         old="return dg(descent) >= c2 * origin.dg(descent);", new="return dg(descent) <= c2 * origin.dg(descent);"),
    dict(property="C07", name="armijo-predicate-without-c1", rule="R-C07-4", file="src/solver/state.cpp",
         old="return m_fx <= origin.fx() + step_size * c1 * origin.dg(descent);", new="return m_fx <= origin.fx() + step_size * origin.dg(descent);"),
    # ---- C17
    dict(property="C07", name="get-initial-step-nan-not-replaced", rule="R-C07-7", file="src/lsearchk.cpp",
         old='    step_size = std::isfinite(step_size) ? std::clamp(step_size, stpmin(), 1.0) : scalar_t(1);', new="    step_size = std::clamp(step_size, stpmin(), 1.0);"),
    dict(property="C07", name="get-initial-step-lower-bound-zero", rule="R-C07-7", file="src/lsearchk.cpp",
         old='    step_size = std::isfinite(step_size) ? std::clamp(step_size, stpmin(), 1.0) : scalar_t(1);', new="    step_size = std::isfinite(step_size) ? std::clamp(step_size, 0.0, 1.0) : scalar_t(1);"),
    dict(property="C13", name="trial-value-weighted-by-fold-size", rule="R-C13-7", file="src/machine/result.cpp",
         old='    auto sum_mean = 0.0;\n    for (tensor_size_t fold = 0, folds = this->folds(); fold < folds; ++fold)\n    {\n        const auto stats = this->stats(trial, fold, split, value);\n        sum_mean += stats.m_mean;\n    }\n\n    return sum_mean / static_cast<scalar_t>(folds());', new='    auto sum_mean  = 0.0;\n    auto sum_count = 0.0;\n    for (tensor_size_t fold = 0, folds = this->folds(); fold < folds; ++fold)\n    {\n        const auto stats = this->stats(trial, fold, split, value);\n        sum_mean += stats.m_mean * stats.m_count;\n        sum_count += stats.m_count;\n    }\n\n    return sum_mean / sum_count;'),
    dict(property="C13", name="trial-value-skips-first-fold", rule="R-C13-7", file="src/machine/result.cpp",
         old='    auto sum_mean = 0.0;\n    for (tensor_size_t fold = 0, folds = this->folds(); fold < folds; ++fold)\n    {\n        const auto stats = this->stats(trial, fold, split, value);\n        sum_mean += stats.m_mean;\n    }\n\n    return sum_mean / static_cast<scalar_t>(folds());', new='    auto sum_mean = 0.0;\n    for (tensor_size_t fold = 1, folds = this->folds(); fold < folds; ++fold)\n    {\n        const auto stats = this->stats(trial, fold, split, value);\n        sum_mean += stats.m_mean;\n    }\n\n    return sum_mean / static_cast<scalar_t>(folds());'),
    dict(property="C14", name="flatten-mask-stale-flag", rule="R-C14-4", file="src/dataset/stats.cpp",
         old='    for (tensor_size_t column = 0; column < enable_scaling.size(); ++column)\n    {\n        const auto ifeature    = dataset.column2feature(column);\n        const auto feature     = dataset.feature(ifeature);\n        const auto isclass     = feature.is_sclass() || feature.is_mclass();\n        enable_scaling(column) = isclass ? 0x00 : 0x01;\n    }', new='    auto scalable       = false;\n    for (tensor_size_t column = 0, ifeature = -1; column < enable_scaling.size(); ++column)\n    {\n        if (const auto jfeature = dataset.column2feature(column); jfeature != ifeature)\n        {\n            ifeature = jfeature;\n            if (const auto feature = dataset.feature(ifeature); !feature.is_sclass() && !feature.is_mclass())\n            {\n                scalable = true;\n            }\n        }\n        enable_scaling(column) = scalable ? 0x01 : 0x00;\n    }'),
    dict(property="C16", name="reshape-zero-keeps-source-dimension", rule="R-C16-1", file="include/nano/tensor/tensor.h", tu="src/core/sampling.cpp",
         old='        auto dimensions = ::nano::make_dims(sizes...);\n        for (auto& dim : dimensions)\n        {\n            assert(dim == -1 || dim >= 0);', new='        auto dimensions = ::nano::make_dims(sizes...);\n        for (size_t idim = 0U; idim < std::min(dimensions.size(), trank); ++idim)\n        {\n            if (dimensions[idim] == 0)\n            {\n                dimensions[idim] = dims()[idim];\n            }\n        }\n        for (auto& dim : dimensions)\n        {\n            assert(dim == -1 || dim >= 0);'),
    dict(property="C08", name="shuffled-full-list-shortcut", rule="R-C08-10", file="src/generator.cpp",
         old='    auto shuffled = indices_t{samples.size()};\n    for (tensor_size_t i = 0; i < samples.size(); ++i)\n    {\n        assert(samples(i) >= 0 && samples(i) < shuffled_all_samples.size());\n        shuffled(i) = shuffled_all_samples(samples(i));\n    }\n\n    return shuffled;', new='    if (samples.size() == shuffled_all_samples.size())\n    {\n        return indices_t{shuffled_all_samples};\n    }\n\n    auto shuffled = indices_t{samples.size()};\n    for (tensor_size_t i = 0; i < samples.size(); ++i)\n    {\n        assert(samples(i) >= 0 && samples(i) < shuffled_all_samples.size());\n        shuffled(i) = shuffled_all_samples(samples(i));\n    }\n\n    return shuffled;'),
    dict(property="C18", name="select-loop-one-chunk-per-worker-rounded", rule="R-C18-8", file="src/dataset/iterator.cpp",
         old='    return std::max(tensor_size_t{1}, idiv(features.size(), concurrency));\n}\n', new='    return std::max(tensor_size_t{1}, idiv(features.size(), concurrency));\n}\n\nauto features_of_thread(const indices_cmap_t& features, const size_t concurrency, const tensor_size_t chunk)\n{\n    const auto chunksize = features_per_thread(features, concurrency);\n    const auto begin     = std::min(chunk * chunksize, features.size());\n    const auto end       = std::min(begin + chunksize, features.size());\n    return make_range(begin, end);\n}\n', more=[('    map(features.size(), features_per_thread(features, concurrency()),\n        [&](const tensor_size_t begin, const tensor_size_t end, const size_t tnum)\n        {\n            assert(tnum < m_buffers.size());\n            for (tensor_size_t index = begin; index < end; ++index)\n            {\n                const auto ifeature = features(index);\n                callback(ifeature, tnum, dataset().select(samples, ifeature, m_buffers[tnum].m_sclass));', '    map(static_cast<tensor_size_t>(concurrency()),\n        [&](const tensor_size_t chunk, const size_t tnum)\n        {\n            assert(tnum < m_buffers.size());\n            const auto range = features_of_thread(features, concurrency(), chunk);\n            for (tensor_size_t index = range.begin(); index < range.end(); ++index)\n            {\n                const auto ifeature = features(index);\n                callback(ifeature, tnum, dataset().select(samples, ifeature, m_buffers[tnum].m_sclass));')]),
    dict(property="C18", name="select-loop-skips-last-of-chunk", rule="R-C18-8", file="src/dataset/iterator.cpp",
         old='    map(features.size(), features_per_thread(features, concurrency()),\n        [&](const tensor_size_t begin, const tensor_size_t end, const size_t tnum)\n        {\n            assert(tnum < m_buffers.size());\n            for (tensor_size_t index = begin; index < end; ++index)\n            {\n                const auto ifeature = features(index);\n                callback(ifeature, tnum, dataset().select(samples, ifeature, m_buffers[tnum].m_sclass));', new='    map(features.size(), features_per_thread(features, concurrency()),\n        [&](const tensor_size_t begin, const tensor_size_t end, const size_t tnum)\n        {\n            assert(tnum < m_buffers.size());\n            for (tensor_size_t index = begin; index + 1 < end; ++index)\n            {\n                const auto ifeature = features(index);\n                callback(ifeature, tnum, dataset().select(samples, ifeature, m_buffers[tnum].m_sclass));'),
    dict(property="C15", name="factory-reader-skips-lookup-on-failed-id", rule="R-C15-8", file="include/nano/core/stream.h", tu="src/gboost/model.cpp",
         old='    std::string type_id;\n    if (!::nano::read(stream, type_id))\n    {\n        stream.setstate(std::ios_base::failbit);\n    }\n\n    object = tobject::all().get(type_id);\n    if (!object)\n    {\n        stream.setstate(std::ios_base::failbit);\n        return stream;\n    }\n', new='    std::string type_id;\n    if (::nano::read(stream, type_id))\n    {\n        object = tobject::all().get(type_id);\n        if (!object)\n        {\n            stream.setstate(std::ios_base::failbit);\n            return stream;\n        }\n    }\n'),
    dict(property="C17", name="dtor-drains-queue-worker-notify-one", rule="R-C17-3", file="src/core/parallel.cpp",
         old='            task = std::move(m_queue.m_tasks.front());\n            m_queue.m_tasks.pop_front();\n', new='            task = std::move(m_queue.m_tasks.front());\n            m_queue.m_tasks.pop_front();\n\n            if (m_queue.m_tasks.empty())\n            {\n                m_queue.m_condition.notify_one();\n            }\n', more=[('        const std::scoped_lock lock(m_queue.m_mutex);\n        m_queue.m_stop = true;', '        std::unique_lock lock(m_queue.m_mutex);\n        m_queue.m_condition.wait(lock, [&] { return m_queue.m_tasks.empty(); });\n        m_queue.m_stop = true;')]),
    dict(property="C17", name="dtor-drains-queue-nobody-notifies", rule="R-C17-3", file="src/core/parallel.cpp",
         old='        const std::scoped_lock lock(m_queue.m_mutex);\n        m_queue.m_stop = true;', new='        std::unique_lock lock(m_queue.m_mutex);\n        m_queue.m_condition.wait(lock, [&] { return m_queue.m_tasks.empty(); });\n        m_queue.m_stop = true;', also=[("include/nano/core/parallel.h", "        m_condition.notify_one();", "        m_condition.notify_all();")]),
    dict(property="C20", name="percentile-select-once-reads-neighbour", rule="R-C20-3", file="include/nano/core/stats.h", tu="src/wlearner/util.cpp",
         old='    if (lpos == rpos)\n    {\n        return from_position(lpos);\n    }\n    else\n    {\n        const auto lvalue = from_position(lpos);\n        const auto rvalue = from_position(rpos);\n        return (lvalue + rvalue) / 2;\n    }', new='    const auto left   = from_position(lpos);\n    const auto lvalue = static_cast<double>(*left);\n    if (lpos == rpos)\n    {\n        return lvalue;\n    }\n    else\n    {\n        const auto rvalue = static_cast<double>(*std::next(left));\n        return (lvalue + rvalue) / 2;\n    }', more=[('        std::nth_element(begin, middle, end);\n        return static_cast<double>(*middle);', '        std::nth_element(begin, middle, end);\n        return middle;'), ('        std::advance(middle, pos);\n        return static_cast<double>(*middle);', '        std::advance(middle, pos);\n        return middle;')]),
    dict(property="C04", name="reduce-keeps-kernel-dimension-rows", rule="R-C04-11", file="src/program/util.cpp",
         old='    A = U.transpose().block(0, 0, dd.rank(), U.rows()) * L.transpose() * P;', new="    A = U.transpose().block(0, 0, dd.dimensionOfKernel(), U.rows()) * L.transpose() * P;"),
    dict(property="C04", name="reduce-keeps-rank-minus-one-rows", rule="R-C04-11", file="src/program/util.cpp",
         old='    A = U.transpose().block(0, 0, dd.rank(), U.rows()) * L.transpose() * P;', new="    A = U.transpose().block(0, 0, dd.rank() - 1, U.rows()) * L.transpose() * P;"),
    dict(property="C11", name="right-hinge-overwrites-outputs", rule="R-C11-9", file="src/wlearner/hinge.cpp",
         old='                        if (value >= m_threshold)\n                        {\n                            outputs.vector(i) += w * value + b;', new='                        if (value >= m_threshold)\n                        {\n                            outputs.vector(i) = w * value + b;'),
    dict(property="C17", name="stop-set-outside-lock", rule="R-C17-1", file="src/core/parallel.cpp",
         old="""    {
        const std::scoped_lock lock(m_queue.m_mutex);
        m_queue.m_stop = true;
    }""", new="""    m_queue.m_stop = true;"""),
    dict(property="C17", name="map-drops-notify", rule="R-C17-2", file="include/nano/core/parallel.h", tu="src/core/parallel.cpp",
         old="""                    section.emplace_back(m_queue.enqueue_no_lock([op, index](const size_t tnum) { op(index, tnum); }));
                }
            }
            m_queue.m_condition.notify_all();
""", new="""                    section.emplace_back(m_queue.enqueue_no_lock([op, index](const size_t tnum) { op(index, tnum); }));
                }
            }
"""),
    dict(property="C17", name="task-run-under-lock", rule="R-C17-4", file="src/core/parallel.cpp",
         old="""            task = std::move(m_queue.m_tasks.front());
            m_queue.m_tasks.pop_front();
        }

        // execute the task
        task(m_tnum);""", new="""            task = std::move(m_queue.m_tasks.front());
            m_queue.m_tasks.pop_front();
            task(m_tnum);
        }"""),
    dict(property="C17", name="map-drops-block", rule="R-C17-5", file="include/nano/core/parallel.h", tu="src/core/parallel.cpp",
         old="""            m_queue.m_condition.notify_all();

            section.block(raise);
        }
    }

private:""", new="""            m_queue.m_condition.notify_all();
            if (raise)
            {
                section.block(raise);
            }
        }
    }

private:"""),
    dict(property="C17", name="chunk-end-not-clamped", rule="R-C17-6", file="include/nano/core/parallel.h", tu="src/core/parallel.cpp",
         old="const auto end = std::min(begin + chunksize, elements);", new="const auto end = begin + chunksize;"),
    dict(property="C17", name="task-captures-by-ref", rule="R-C17-6", file="include/nano/core/parallel.h", tu="src/core/parallel.cpp",
         old="m_queue.enqueue_no_lock([op, index](const size_t tnum) { op(index, tnum); })", new="m_queue.enqueue_no_lock([&op, &index](const size_t tnum) { op(index, tnum); })"),
    dict(property="C17", name="map-grouped-tasks-round-down", rule="R-C17-6", file="include/nano/core/parallel.h", tu="src/core/parallel.cpp",
         old='            section_t section;\n            section.reserve(static_cast<size_t>((elements + chunksize - 1) / chunksize));\n            {\n                const std::scoped_lock lock(m_queue.m_mutex);\n                for (tsize begin = 0; begin < elements; begin += chunksize)\n                {\n                    const auto end = std::min(begin + chunksize, elements);\n                    section.emplace_back(\n                        m_queue.enqueue_no_lock([op, begin, end](const size_t tnum) { op(begin, end, tnum); }));\n                }\n            }',
         new='            const auto chunks    = (elements + chunksize - 1) / chunksize;\n            const auto groupsize = std::max(tsize(1), chunks / static_cast<tsize>(4U * size()));\n            const auto tasksize  = groupsize * chunksize;\n            const auto tasks     = chunks / groupsize;\n\n            section_t section;\n            section.reserve(static_cast<size_t>(tasks));\n            {\n                const std::scoped_lock lock(m_queue.m_mutex);\n                for (tsize task = 0; task < tasks; ++task)\n                {\n                    const auto tbegin = task * tasksize;\n                    const auto tend   = std::min(tbegin + tasksize, elements);\n                    section.emplace_back(m_queue.enqueue_no_lock(\n                        [op, tbegin, tend, chunksize](const size_t tnum)\n                        {\n                            for (auto begin = tbegin; begin < tend; begin += chunksize)\n                            {\n                                op(begin, std::min(begin + chunksize, tend), tnum);\n                            }\n                        }));\n                }\n            }'),
    dict(property="C09", name="map-grouped-tasks-round-down", rule="R-C09-10", file="include/nano/core/parallel.h", tu="src/core/parallel.cpp",
         old='            section_t section;\n            section.reserve(static_cast<size_t>((elements + chunksize - 1) / chunksize));\n            {\n                const std::scoped_lock lock(m_queue.m_mutex);\n                for (tsize begin = 0; begin < elements; begin += chunksize)\n                {\n                    const auto end = std::min(begin + chunksize, elements);\n                    section.emplace_back(\n                        m_queue.enqueue_no_lock([op, begin, end](const size_t tnum) { op(begin, end, tnum); }));\n                }\n            }',
         new='            const auto chunks    = (elements + chunksize - 1) / chunksize;\n            const auto groupsize = std::max(tsize(1), chunks / static_cast<tsize>(4U * size()));\n            const auto tasksize  = groupsize * chunksize;\n            const auto tasks     = chunks / groupsize;\n\n            section_t section;\n            section.reserve(static_cast<size_t>(tasks));\n            {\n                const std::scoped_lock lock(m_queue.m_mutex);\n                for (tsize task = 0; task < tasks; ++task)\n                {\n                    const auto tbegin = task * tasksize;\n                    const auto tend   = std::min(tbegin + tasksize, elements);\n                    section.emplace_back(m_queue.enqueue_no_lock(\n                        [op, tbegin, tend, chunksize](const size_t tnum)\n                        {\n                            for (auto begin = tbegin; begin < tend; begin += chunksize)\n                            {\n                                op(begin, std::min(begin + chunksize, tend), tnum);\n                            }\n                        }));\n                }\n            }'),
    dict(property="C17", name="wait-without-predicate", rule="R-C17-3", file="src/core/parallel.cpp",
         old="m_queue.m_condition.wait(lock, [&] { return m_queue.m_stop || !m_queue.m_tasks.empty(); });",
         new="if (!m_queue.m_stop && m_queue.m_tasks.empty()) { m_queue.m_condition.wait(lock); }"),
    dict(property="C17", name="predicate-ignores-stop", rule="R-C17-3", file="src/core/parallel.cpp",
         old="[&] { return m_queue.m_stop || !m_queue.m_tasks.empty(); }", new="[&] { return !m_queue.m_tasks.empty(); }"),
    dict(property="C17", name="section-dtor-does-not-wait", rule="R-C17-5", file="src/core/parallel.cpp",
         old="""section_t::~section_t()
{
    block(false);
}""", new="""section_t::~section_t()
{
}"""),
    dict(property="C17", name="enqueue-push-outside-lock", rule="R-C17-1", file="include/nano/core/parallel.h", tu="src/core/parallel.cpp",
         old="""        {
            const std::scoped_lock lock(m_mutex);
            m_tasks.emplace_back(std::move(task));
        }
        m_condition.notify_one();""", new="""        m_tasks.emplace_back(std::move(task));
        {
            const std::scoped_lock lock(m_mutex);
        }
        m_condition.notify_one();"""),
    dict(property="C17", name="worker-ids-from-one", rule="R-C17-7", file="src/core/parallel.cpp",
         old="m_workers.emplace_back(m_queue, tnum);", new="m_workers.emplace_back(m_queue, tnum + 1);"),
    dict(property="C17", name="dtor-joins-skip-first", rule="R-C17-8", file="src/core/parallel.cpp",
         old="""    for (auto& thread : m_threads)
    {
        thread.join();
    }""", new="""    for (size_t i = 1; i < m_threads.size(); ++i)
    {
        m_threads[i].join();
    }
    m_threads[0].detach();"""),
    dict(property="C17", name="block-waits-only-when-raising", rule="R-C17-5", file="src/core/parallel.cpp",
         old="raise ? future.get() : future.wait();", new="if (raise) { future.get(); }"),    # ---- C19
    dict(property="C19", name="range-assign-before-check", rule="R-C19-1", file="src/parameter.cpp",
         old="""    const auto value = static_cast<tscalar>(value_);

    critical(!::nano::isfinite(value) ||""", new="""    const auto value = static_cast<tscalar>(value_);
    param.m_value = value;

    critical(!::nano::isfinite(value) ||"""),
    dict(property="C19", name="pair-drop-isfinite", rule="R-C19-1", file="src/parameter.cpp",
         old="critical(!::nano::isfinite(value1) || !::nano::isfinite(value2) || !::check(param.m_mincomp, param.m_min, value1) ||",
         new="critical(!::nano::isfinite(value1) || !::check(param.m_mincomp, param.m_min, value1) ||"),
    dict(property="C19", name="pair-order-uses-mincomp", rule="R-C19-1", file="src/parameter.cpp",
         old="!::check(param.m_valcomp, value1, value2)", new="!::check(param.m_mincomp, value1, value2)"),
    dict(property="C19", name="pair-values-swapped-on-store", rule="R-C19-1", file="src/parameter.cpp",
         old="""    param.m_value1 = value1;
    param.m_value2 = value2;""", new="""    param.m_value1 = value2;
    param.m_value2 = value1;"""),
    dict(property="C19", name="check-LE-as-strict", rule="R-C19-1", file="src/parameter.cpp",
         old="return std::holds_alternative<LE_t>(lelt) ? (value1 <= value2) : (value1 < value2);",
         new="return std::holds_alternative<LT_t>(lelt) ? (value1 <= value2) : (value1 < value2);"),
    dict(property="C19", name="enum-check-after-store", rule="R-C19-1", file="src/parameter.cpp",
         old="""    critical(std::find(param.m_domain.begin(), param.m_domain.end(), value) == param.m_domain.end(), "parameter (",
             name, "): out of domain enumeration value, !('", value, "' in [", scat(param.m_domain), "])");

    param.m_value = std::move(value);""",
         new="""    param.m_value = std::move(value);
    critical(std::find(param.m_domain.begin(), param.m_domain.end(), param.m_value) == param.m_domain.end(), "parameter (",
             name, "): out of domain enumeration value, !('", param.m_value, "' in [", scat(param.m_domain), "])");
"""),
    dict(property="C19", name="clone-slices-to-fresh-object", rule="R-C19-4", file="src/solver/cgd.cpp",
         old="""rsolver_t solver_cgd_dy_t::clone() const
{
    return std::make_unique<solver_cgd_dy_t>(*this);""", new="""rsolver_t solver_cgd_dy_t::clone() const
{
    return std::make_unique<solver_cgd_dy_t>();"""),
    dict(property="C19", name="solver-copy-drops-type", rule="R-C19-4", file="src/solver.cpp",
         old="""    , m_lsearchk(other.lsearchk().clone())
    , m_type(other.type())
{""", new="""    , m_lsearchk(other.lsearchk().clone())
{"""),
    dict(property="C19", name="solver-copy-reuses-default-lsearch", rule="R-C19-4", file="src/solver.cpp",
         old="    , m_lsearch0(other.lsearch0().clone())\n    , m_lsearchk(other.lsearchk().clone())\n    , m_type(other.type())",
         new="    , m_lsearch0(lsearch0_t::all().get(\"quadratic\"))\n    , m_lsearchk(other.lsearchk().clone())\n    , m_type(other.type())"),
    dict(property="C19", name="default-outside-domain", rule="R-C19-3", file="src/lsearchk.cpp",
         old='make_integer("lsearchk::max_iterations", 1, LE, 128, LE, 10000)', new='make_integer("lsearchk::max_iterations", 1, LE, 128, LE, 100)'),
    dict(property="C19", name="override-outside-domain", rule="R-C19-3", file="src/solver/gd.cpp",
         old='parameter("solver::tolerance") = std::make_tuple(1e-1, 9e-1);', new='parameter("solver::tolerance") = std::make_tuple(9e-1, 1e-1);'),
    dict(property="C19", name="register-allows-duplicates", rule="R-C19-5", file="src/configurable.cpp",
         old="""    critical(parameter_if(parameter.name()), "configurable: cannot register duplicated parameter (", parameter.name(),
             ")!");

    m_parameters.emplace_back(std::move(parameter));""", new="""    m_parameters.emplace_back(std::move(parameter));"""),
    dict(property="C19", name="lookup-not-mandatory", rule="R-C19-5", file="src/configurable.cpp",
         old="""parameter_t& configurable_t::parameter(const std::string_view name)
{
    return *find_param(m_parameters, name, true);""", new="""parameter_t& configurable_t::parameter(const std::string_view name)
{
    return *find_param(m_parameters, name, false);"""),
    dict(property="C19", name="value-write-outside-update", rule="R-C19-2", file="src/parameter.cpp",
         old="""parameter_t& parameter_t::seti(int64_t value)
{
    ::update(m_name, m_storage, value);""", new="""parameter_t& parameter_t::seti(int64_t value)
{
    if (auto* p = std::get_if<irange_t>(&m_storage)) { p->m_value = std::clamp(value, p->m_min, p->m_max); return *this; }
    ::update(m_name, m_storage, value);"""),
    dict(property="C19", name="typed-read-accepts-frange-as-pair", rule="R-C19-6", file="include/nano/parameter.h", tu="src/parameter.cpp",
         old="""                                     [this](const auto&)
                                     {
                                         logical_error();
                                         return std::tuple<tscalar, tscalar>{};
                                     }},""", new="""                                     [](const auto&)
                                     {
                                         return std::tuple<tscalar, tscalar>{};
                                     }},"""),    # ---- C15
    dict(property="C15", name="hinge-write-swapped-fields", rule="R-C15-1", file="src/wlearner/hinge.cpp",
         old="critical(!::nano::write(stream, m_threshold) || !::nano::write(stream, static_cast<uint32_t>(m_hinge)),",
         new="critical(!::nano::write(stream, static_cast<uint32_t>(m_hinge)) || !::nano::write(stream, m_threshold),"),
    dict(property="C15", name="single-feature-wire-type", rule="R-C15-1", file="src/wlearner/single.cpp",
         old="critical(!::nano::write(stream, static_cast<int64_t>(m_feature)) || !::nano::write(stream, m_tables),",
         new="critical(!::nano::write(stream, static_cast<int32_t>(m_feature)) || !::nano::write(stream, m_tables),"),
    dict(property="C15", name="tensor-header-failure-falls-through", rule="R-C15-4", file="include/nano/tensor/stream.h", tu="src/linear.cpp",
         old="""        static_cast<size_t>(iscalar) != sizeof(tscalar))
    {
        stream.setstate(std::ios_base::failbit);
        return stream;
    }""", new="""        static_cast<size_t>(iscalar) != sizeof(tscalar))
    {
        stream.setstate(std::ios_base::failbit);
    }"""),
    dict(property="C15", name="tensor-hash-not-compared", rule="R-C15-4", file="include/nano/tensor/stream.h", tu="src/linear.cpp",
         old="""    if (!::nano::read(stream, tensor.data(), tensor.size()) || // content
        ihash != detail::hash(tensor.data(), tensor.size()))""", new="""    if (!::nano::read(stream, tensor.data(), tensor.size())) // content"""),
    dict(property="C15", name="tensor-rank-not-compared", rule="R-C15-4", file="include/nano/tensor/stream.h", tu="src/linear.cpp",
         old="iversion != detail::hash_version() || static_cast<size_t>(irank) != trank ||", new="iversion != detail::hash_version() ||"),
    dict(property="C15", name="dtree-reader-drops-check", rule="R-C15-3", file="src/wlearner/dtree.cpp",
         old="""    if (!::nano::read_cast<int32_t>(stream, node.m_feature) || !::nano::read(stream, node.m_threshold) ||
        !::nano::read_cast<uint32_t>(stream, node.m_next) || !::nano::read_cast<int32_t>(stream, node.m_table))
    {
        stream.setstate(std::ios_base::failbit); // LCOV_EXCL_LINE
    }""", new="""    ::nano::read_cast<int32_t>(stream, node.m_feature);
    ::nano::read(stream, node.m_threshold);
    ::nano::read_cast<uint32_t>(stream, node.m_next);
    ::nano::read_cast<int32_t>(stream, node.m_table);"""),
    dict(property="C15", name="stump-threshold-not-written", rule="R-C15-1", file="src/wlearner/stump.cpp",
         old="""    critical(!::nano::write(stream, m_threshold), "stump weak learner: failed to write to stream!");
""", new=""),
    dict(property="C15", name="gboost-prototypes-not-serialised", rule="R-C15-2", file="src/gboost/model.cpp",
         old="""    critical(!::nano::read(stream, m_bias) || !::nano::read(stream, m_wlearners) || !::nano::read(stream, m_prototypes),
             "gboost: failed to read from stream!");""", new="""    critical(!::nano::read(stream, m_bias) || !::nano::read(stream, m_wlearners), "gboost: failed to read from stream!");"""),
    dict(property="C15", name="parameter-range-min-max-swapped-on-read", rule="R-C15-1", file="src/parameter.cpp",
         old="return parameter_t::range_t<tscalar>{value, min, max, make_comp(minLE), make_comp(maxLE)};",
         new="return parameter_t::range_t<tscalar>{value, max, min, make_comp(minLE), make_comp(maxLE)};"),
    dict(property="C15", name="parameter-tags-crossed", rule="R-C15-1", file="src/parameter.cpp",
         old="""                          [&](const iprange_t& param) { ::write(m_name, stream, 3, param); },
                          [&](const fprange_t& param) { ::write(m_name, stream, 4, param); },""",
         new="""                          [&](const iprange_t& param) { ::write(m_name, stream, 4, param); },
                          [&](const fprange_t& param) { ::write(m_name, stream, 3, param); },"""),
    dict(property="C15", name="version-check-after-parameters", rule="R-C15-5", file="src/configurable.cpp",
         old="""    critical(m_major_version > nano::major_version ||
                 (m_major_version == nano::major_version && m_minor_version > nano::minor_version) ||
                 (m_major_version == nano::major_version && m_minor_version == nano::minor_version &&
                  m_patch_version > nano::patch_version),
             "configurable: version mismatch!");

    critical(!::nano::read(stream, m_parameters), "configurable: failed to read from stream!");""",
         new="""    critical(!::nano::read(stream, m_parameters), "configurable: failed to read from stream!");

    critical(m_major_version > nano::major_version ||
                 (m_major_version == nano::major_version && m_minor_version > nano::minor_version) ||
                 (m_major_version == nano::major_version && m_minor_version == nano::minor_version &&
                  m_patch_version > nano::patch_version),
             "configurable: version mismatch!");"""),
    dict(property="C15", name="vector-resize-before-size-check", rule="R-C15-3", file="include/nano/core/stream.h", tu="src/linear.cpp",
         old="""    uint64_t size = 0;
    if (!read(stream, size))
    {
        return stream;
    }

    values.resize(size);""", new="""    uint64_t size = 0;
    read(stream, size);
    values.resize(size);"""),    # ---- C08
    dict(property="C08", name="sample-guard-off-by-one-restored", rule="R-C08-1", file="src/dataset.cpp",
         old="samples.max() >= m_datasource.samples()", new="samples.max() > m_datasource.samples()"),
    dict(property="C08", name="feature-guard-off-by-one", rule="R-C08-1", file="src/dataset.cpp",
         old="critical(feature < 0 || feature >= features(),", new="critical(feature < 0 || feature > features(),"),
    dict(property="C08", name="flatten-without-check", rule="R-C08-2", file="src/dataset.cpp",
         old="""tensor2d_map_t dataset_t::flatten(indices_cmap_t samples, tensor2d_t& buffer) const
{
    check(samples);
""", new="""tensor2d_map_t dataset_t::flatten(indices_cmap_t samples, tensor2d_t& buffer) const
{
"""),
    dict(property="C08", name="pairwise-scalar-marker-zero", rule="R-C08-3", file="include/nano/generator/pairwise.h", tu="src/generator/pairwise_product.cpp",
         old="""                storage(index) = this->NaN;""", new="""                storage(index) = 0.0;"""),
    dict(property="C08", name="dropped-sclass-marker-zero", rule="R-C08-3", file="src/generator.cpp",
         old="""void generator_t::select(indices_cmap_t samples, const tensor_size_t ifeature, sclass_map_t storage) const
{
    if (should_drop(ifeature))
    {
        storage.full(-1);""", new="""void generator_t::select(indices_cmap_t samples, const tensor_size_t ifeature, sclass_map_t storage) const
{
    if (should_drop(ifeature))
    {
        storage.full(0);"""),
    dict(property="C08", name="targets-missing-marked-minus-one", rule="R-C08-3", file="src/dataset.cpp",
         old="""                            storage.array(index) = hits.array().template cast<scalar_t>() * 2.0 - 1.0;
                        }
                        else
                        {
                            storage.array(index).setConstant(std::numeric_limits<scalar_t>::quiet_NaN());""",
         new="""                            storage.array(index) = hits.array().template cast<scalar_t>() * 2.0 - 1.0;
                        }
                        else
                        {
                            storage.array(index).setConstant(-1.0);"""),
    dict(property="C08", name="const-visit-int16-from-i32-pool", rule="R-C08-5", file="include/nano/datasource.h", tu="src/datasource.cpp",
         old="""        case feature_type::int16: return op(feature, m_storage_i16.slice(range).reshape(samples, d0, d1, d2), mask);
        case feature_type::int32: return op(feature, m_storage_i32.slice(range).reshape(samples, d0, d1, d2), mask);
        case feature_type::int64: return op(feature, m_storage_i64.slice(range).reshape(samples, d0, d1, d2), mask);
        case feature_type::uint8: return op(feature, m_storage_u08.slice(range).reshape(samples, d0, d1, d2), mask);
        case feature_type::uint16: return op(feature, m_storage_u16.slice(range).reshape(samples, d0, d1, d2), mask);
        case feature_type::uint32: return op(feature, m_storage_u32.slice(range).reshape(samples, d0, d1, d2), mask);
        case feature_type::uint64: return op(feature, m_storage_u64.slice(range).reshape(samples, d0, d1, d2), mask);
        default: critical0("in-memory dataset: unhandled feature type (", static_cast<int>(feature.type()), ")!");
        }
        return op(feature, m_storage_u08.slice(range).reshape(-1), mask);
    }

    indices_t filter""",
         new="""        case feature_type::int16: return op(feature, m_storage_i16.slice(range).reshape(samples, d0, d1, d2), mask);
        case feature_type::int32: return op(feature, m_storage_i32.slice(range).reshape(samples, d0, d1, d2), mask);
        case feature_type::int64: return op(feature, m_storage_i64.slice(range).reshape(samples, d0, d1, d2), mask);
        case feature_type::uint8: return op(feature, m_storage_u08.slice(range).reshape(samples, d0, d1, d2), mask);
        case feature_type::uint16: return op(feature, m_storage_u16.slice(range).reshape(samples, d0, d1, d2), mask);
        case feature_type::uint32: return op(feature, m_storage_u64.slice(range).reshape(samples, d0, d1, d2), mask);
        case feature_type::uint64: return op(feature, m_storage_u64.slice(range).reshape(samples, d0, d1, d2), mask);
        default: critical0("in-memory dataset: unhandled feature type (", static_cast<int>(feature.type()), ")!");
        }
        return op(feature, m_storage_u08.slice(range).reshape(-1), mask);
    }

    indices_t filter"""),
    dict(property="C08", name="resize-sclass-threshold-differs", rule="R-C08-5", file="src/datasource.cpp",
         old=": (feature.classes() <= (tensor_size_t(1) << 16)) ? feature_type::uint16", new=": (feature.classes() < (tensor_size_t(1) << 16)) ? feature_type::uint16"),
    dict(property="C08", name="pairwise-rows-swapped-restored", rule="R-C08-9", file="src/generator/pairwise_base.cpp",
         old="const auto value = std::make_pair(i1, i2); // NB: row of the first mapping, row of the second mapping!",
         new="const auto value = (feature1 <= feature2) ? std::make_pair(i1, i2) : std::make_pair(i2, i1);"),
    dict(property="C08", name="product-after-multiplication-cast", rule="R-C08-8", file="include/nano/generator/pairwise_product.h", tu="src/generator/pairwise_product.cpp",
         old="{ return static_cast<scalar_t>(values1(0)) * static_cast<scalar_t>(values2(0)); };", new="{ return static_cast<scalar_t>(values1(0) * values2(0)); };"),
    dict(property="C08", name="getbit-other-bit-order", rule="R-C08-6", file="include/nano/datasource/mask.h", tu="src/datasource.cpp",
         old="return (mask(sample / 8) & (0x01 << (7 - (sample % 8)))) != 0x00;", new="return (mask(sample / 8) & (0x01 << (sample % 8))) != 0x00;"),
    dict(property="C08", name="mask-size-truncated", rule="R-C08-6", file="src/datasource.cpp",
         old="m_storage_mask.resize(static_cast<tensor_size_t>(features.size()), (samples + 7) / 8);", new="m_storage_mask.resize(static_cast<tensor_size_t>(features.size()), samples / 8 + 1);"),    # ---- C20
    dict(property="C20", name="bin-truncation-restored", rule="R-C20-1", file="include/nano/core/histogram.h", tu="src/core/histogram.cpp",
         old="const auto svalue = static_cast<scalar_t>(value); // NOLINT(cert-str34-c)", new="const auto svalue = static_cast<tensor_size_t>(value); // NOLINT(cert-str34-c)"),
    dict(property="C20", name="bin-lower-bound", rule="R-C20-2", file="include/nano/core/histogram.h", tu="src/core/histogram.cpp",
         old="const auto* const it = std::upper_bound(begin, end, svalue);", new="const auto* const it = std::lower_bound(begin, end, svalue);"),
    dict(property="C20", name="update-strict-comparator", rule="R-C20-2", file="include/nano/core/histogram.h", tu="src/core/histogram.cpp",
         old="const auto op = [](scalar_t threshold, scalar_t value) { return value >= threshold; };", new="const auto op = [](scalar_t threshold, scalar_t value) { return value > threshold; };"),
    dict(property="C20", name="percentile-position-n", rule="R-C20-3", file="include/nano/core/stats.h", tu="src/core/histogram.cpp",
         old="const double position = percentage * static_cast<double>(size - 1) / 100.0;", new="const double position = percentage * static_cast<double>(size) / 100.0;"),
    dict(property="C20", name="percentile-rpos-floor", rule="R-C20-3", file="include/nano/core/stats.h", tu="src/core/histogram.cpp",
         old="const auto rpos = static_cast<decltype(size)>(std::ceil(position));", new="const auto rpos = static_cast<decltype(size)>(std::floor(position)) + (position > 0.5 ? 1 : 0);"),
    dict(property="C20", name="percentile-nth-at-begin", rule="R-C20-3", file="include/nano/core/stats.h", tu="src/core/histogram.cpp",
         old="        std::nth_element(begin, middle, end);\n        return static_cast<double>(*middle);", new="        std::nth_element(begin, middle, end);\n        return static_cast<double>(*begin);"),
    dict(property="C20", name="stats-load-swaps-slots", rule="R-C20-4", file="src/machine/stats.cpp",
         old="stats(6), stats(7), stats(8), stats(9), stats(10), stats(11),", new="stats(6), stats(7), stats(8), stats(10), stats(9), stats(11),"),
    dict(property="C20", name="stats-store-wrong-percentile", rule="R-C20-4", file="src/machine/stats.cpp",
         old="stats(4)  = ::percentile(values, 5.0);", new="stats(4)  = ::percentile(values, 50.0);"),
    dict(property="C20", name="median-sorted-uses-unsorted-40", rule="R-C20-3", file="include/nano/core/stats.h", tu="src/core/histogram.cpp",
         old="    return percentile_sorted(begin, end, 50);", new="    return percentile_sorted(begin, end, 40);"),    # ---- C14
    dict(property="C14", name="upscale-minmax-uses-stdev", rule="R-C14-1", file="src/dataset/stats.cpp",
         old="            array      = m_min.array() + array * m_mul_range.array();", new="            array      = m_min.array() + array * m_mul_stdev.array();"),
    dict(property="C14", name="upscale-mean-uses-min", rule="R-C14-1", file="src/dataset/stats.cpp",
         old="""    case scaling_type::mean:
        for (tensor_size_t sample = 0, samples = values.size<0>(); sample < samples; ++sample)
        {
            auto array = values.array(sample);
            array      = m_mean.array() + array * m_mul_range.array();""", new="""    case scaling_type::mean:
        for (tensor_size_t sample = 0, samples = values.size<0>(); sample < samples; ++sample)
        {
            auto array = values.array(sample);
            array      = m_min.array() + array * m_mul_range.array();"""),
    dict(property="C14", name="make-scaling-standard-bias-sign", rule="R-C14-1", file="src/dataset/stats.cpp",
         old="            b.array() = -stats.m_mean.array() * stats.m_div_stdev.array();", new="            b.array() = stats.m_mean.array() * stats.m_div_stdev.array();"),
    dict(property="C14", name="div-range-without-mul-range", rule="R-C14-2", file="src/dataset/stats.cpp",
         old="            stats.m_mul_range(i) = std::max(stats.m_max(i) - stats.m_min(i), epsilon);\n", new=""),
    dict(property="C14", name="mul-stdev-not-clamped", rule="R-C14-2", file="src/dataset/stats.cpp",
         old="            stats.m_mul_stdev(i) = std::max(stats.m_stdev(i), epsilon);", new="            stats.m_mul_stdev(i) = stats.m_stdev(i);"),
    dict(property="C14", name="standard-drops-nan2zero", rule="R-C14-3", file="src/dataset/stats.cpp",
         old="""            array      = (array - m_mean.array()) * m_div_stdev.array();
            nan2zero(array);""", new="""            array      = (array - m_mean.array()) * m_div_stdev.array();"""),
    dict(property="C14", name="mask-reset-forgets-mean", rule="R-C14-4", file="src/dataset/stats.cpp",
         old="""            stats.m_max(i)       = 0.0;
            stats.m_mean(i)      = 0.0;
            stats.m_stdev(i)     = 0.0;
            stats.m_div_range(i) = 1.0;
            stats.m_div_stdev(i) = 1.0;
            stats.m_mul_range(i) = 1.0;
            stats.m_mul_stdev(i) = 1.0;
        }
    }
}""", new="""            stats.m_max(i)       = 0.0;
            stats.m_stdev(i)     = 0.0;
            stats.m_div_range(i) = 1.0;
            stats.m_div_stdev(i) = 1.0;
            stats.m_mul_range(i) = 1.0;
            stats.m_mul_stdev(i) = 1.0;
        }
    }
}"""),
    dict(property="C14", name="all-missing-column-keeps-min-sentinel", rule="R-C14-7", file="src/dataset/stats.cpp",
         old="""                stats.m_min(i)  = 0.0;
                stats.m_max(i)  = 0.0;
                stats.m_mean(i) = 0.0;""", new="""                stats.m_max(i)  = 0.0;
                stats.m_max(i)  = 0.0;
                stats.m_mean(i) = 0.0;"""),
    dict(property="C02", name="gsample-step-back-by-half", rule="R-C02-7", file="src/solver/gsample/lsearch.h",
         old="                    t *= m_gamma;\n                    state.update", new="                    t *= 0.5;\n                    state.update"),
    dict(property="C02", name="gsample-adopts-failed-doubling-step", rule="R-C02-7", file="src/solver/gsample/lsearch.h",
         old="                    t *= m_gamma;\n                    state.update", new="                    state.update"),
    dict(property="C02", name="gsample-bisection-adopts-on-failure", rule="R-C02-7", file="src/solver/gsample/lsearch.h",
         old="if (t *= m_gamma, fx = function.vgrad(x = state.x() - t * d); fx < state.fx() - t * df)",
         new="if (t *= m_gamma, fx = function.vgrad(x = state.x() - t * d); fx >= state.fx() - t * df)"),
    dict(property="C02", name="gsample-bisection-adopts-other-direction", rule="R-C02-7", file="src/solver/gsample/lsearch.h",
         old="""                if (t *= m_gamma, fx = function.vgrad(x = state.x() - t * d); fx < state.fx() - t * df)
                {
                    state.update(x = state.x() - t * d);""",
         new="""                if (t *= m_gamma, fx = function.vgrad(x = state.x() - t * d); fx < state.fx() - t * df)
                {
                    state.update(x = state.x() - t * g);"""),
    dict(property="C08", name="drop-ors-the-flag-into-the-state-byte", rule="R-C08-10", file="src/generator.cpp",
         old="    m_feature_infos(feature) = 0x01;", new="    m_feature_infos(feature) |= 0x01;"),
    dict(property="C08", name="shuffle-adds-to-the-state-byte", rule="R-C08-10", file="src/generator.cpp",
         old="    m_feature_infos(feature) = 0x02;", new="    m_feature_infos(feature) += 0x02;"),
    dict(property="C08", name="should-drop-tests-bit-of-exclusive-states", rule="R-C08-10", file="src/generator.cpp",
         old="    return m_feature_infos(feature) == 0x01;", new="    return (m_feature_infos(feature) & 0x03) != 0;"),
    dict(property="C09", name="scale-strong-output-by-local-position", rule="R-C09-7", file="src/gboost/function.cpp",
         old="outputs.vector(i - begin) = m_soutputs.vector(samples(i)) + scale * m_woutputs.vector(samples(i));",
         new="outputs.vector(i - begin) = m_soutputs.vector(i - begin) + scale * m_woutputs.vector(samples(i));"),
    dict(property="C09", name="scale-weak-output-by-position", rule="R-C09-7", file="src/gboost/function.cpp",
         old="outputs.vector(i - begin) = m_soutputs.vector(samples(i)) + scale * m_woutputs.vector(samples(i));",
         new="outputs.vector(i - begin) = m_soutputs.vector(samples(i)) + scale * m_woutputs.vector(i);"),
    dict(property="C09", name="scale-group-of-position", rule="R-C09-7", file="src/gboost/function.cpp",
         old="                const auto group          = m_cluster.group(samples(i));", new="                const auto group          = m_cluster.group(i);"),
    dict(property="C09", name="scale-unassigned-samples-scaled-by-one", rule="R-C09-7", file="src/gboost/function.cpp",
         old="const auto scale          = (group < 0) ? 0.0 : x(group);", new="const auto scale          = (group < 0) ? 1.0 : x(group);"),
    dict(property="C09", name="scale-output-written-at-global-position", rule="R-C09-7", file="src/gboost/function.cpp",
         old="outputs.vector(i - begin) = m_soutputs.vector(samples(i)) + scale * m_woutputs.vector(samples(i));",
         new="outputs.vector(i) = m_soutputs.vector(samples(i)) + scale * m_woutputs.vector(samples(i));"),
    dict(property="C12", name="kfold-training-set-sized-by-chunk", rule="R-C12-1", file="src/splitter/kfold.cpp",
         old="        indices_t train(samples.size() - valid.size());", new="        indices_t train(samples.size() - chunk);"),
    dict(property="C05", name="state-inequality-weighted-by-equality-multiplier", rule="R-C05-7", file="src/solver/state.cpp",
         old="            m_lgx += m_mineq(ineq) * cgrad;", new="            m_lgx += m_meq(ineq) * cgrad;"),
    dict(property="C05", name="state-equality-counter-bumped-in-both-branches", rule="R-C05-7", file="src/solver/state.cpp",
         old="            m_lgx += m_mineq(ineq) * cgrad;\n            ++ineq;", new="            m_lgx += m_mineq(ineq) * cgrad;\n            ++ineq;\n            ++eq;"),
    dict(property="C03", name="rqb-smeared-gradient-read-after-moveto", rule="R-C03-10", file="src/solver/rqb.cpp",
         old="""            Gn = bundle.smeared_s();

            bundle.moveto(y, gy, fy);""", new="""            bundle.moveto(y, gy, fy);
            Gn = bundle.smeared_s();
"""),
    dict(property="C03", name="fpba-null-step-appends-twice", rule="R-C03-10", file="src/solver/fpba.cpp",
         old="            bundle.append(y, gy, fy);", new="            bundle.append(y, gy, fy);\n            bundle.append(bundle.x(), bundle.gx(), bundle.fx());"),
    dict(property="C03", name="fpba-restart-moves-bundle-back", rule="R-C03-10", file="src/solver/fpba.cpp",
         old="            sequence.reset();", new="            sequence.reset();\n            bundle.moveto(z, gz, fz);"),
    dict(property="C20", name="histogram-update-key-narrowed-to-element-type", rule="R-C20-1", file="include/nano/core/histogram.h", tu="src/machine/result.cpp",
         old="""                const auto op = [](scalar_t threshold, scalar_t value) { return value >= threshold; };
                const auto it = std::upper_bound(begin, end, m_thresholds(bin), op);""",
         new="""                using tvalue = typename std::iterator_traits<titerator>::value_type;
                const auto it = std::lower_bound(begin, end, static_cast<tvalue>(m_thresholds(bin)));"""),
    dict(property="C09", name="linear-weight-gradient-without-inputs", rule="R-C09-8", file="src/linear/function.cpp",
         old="accumulator.m_gW1.matrix() += gmatrix.transpose() * inputs;", new="accumulator.m_gW1.matrix() += gmatrix.transpose() * inputs.matrix().cwiseAbs();"),
    dict(property="C06", name="linear-bias-gradient-doubled", rule="R-C06-8", file="src/linear/function.cpp",
         old="accumulator.m_gb1.vector() += gmatrix.matrix().colwise().sum();", new="accumulator.m_gb1.vector() += 2.0 * gmatrix.matrix().colwise().sum();"),
    dict(property="C06", name="linear-l2-gradient-per-input", rule="R-C06-8", file="src/linear/function.cpp",
         old="gW.array() += m_l2reg * W.array() / W.size();", new="gW.array() += m_l2reg * W.array() / W.cols();"),
    dict(property="C09", name="linear-predict-without-bias", rule="R-C09-8", file="src/linear/util.cpp",
         old="    outputs.reshape(samples, tsize).matrix().rowwise() += bias.vector().transpose();", new="    static_cast<void>(bias);"),
    dict(property="C08", name="sample-guard-unsigned-maximum-only", rule="R-C08-1", file="src/dataset.cpp",
         old="    critical(samples.min() < 0 || samples.max() >= m_datasource.samples(),",
         new="    critical(static_cast<size_t>(samples.max()) >= static_cast<size_t>(m_datasource.samples()),"),
    dict(property="C08", name="feature-guard-upper-end-only", rule="R-C08-1", file="src/dataset.cpp",
         old="    critical(feature < 0 || feature >= features(),", new="    critical(feature >= features(),"),
    dict(property="C10", name="hinge-sweep-misses-the-last-pair", rule="R-C10-11", file="src/wlearner/hinge.cpp",
         old="""                      for (size_t iv = 0, sv = cache.m_ivalues.size(); iv + 1 < sv; ++iv)
                      {
                          const auto& ivalue1 = cache.m_ivalues[iv + 0];
                          const auto& ivalue2 = cache.m_ivalues[iv + 1];""",
         new="""                      for (size_t iv = 1, sv = cache.m_ivalues.size(); iv + 1 < sv; ++iv)
                      {
                          const auto& ivalue1 = cache.m_ivalues[iv - 1];
                          const auto& ivalue2 = cache.m_ivalues[iv + 0];"""),
    dict(property="C10", name="stump-sweep-skips-the-first-pair", rule="R-C10-11", file="src/wlearner/stump.cpp",
         old="for (size_t iv = 0, sv = cache.m_ivalues.size(); iv + 1 < sv; ++iv)", new="for (size_t iv = 1, sv = cache.m_ivalues.size(); iv + 1 < sv; ++iv)"),
    dict(property="C14", name="make-scaling-skipped-for-small-range", rule="R-C14-8", file="src/dataset/stats.cpp",
         old="    if (stats.m_min.size() > 0)\n    {\n        switch (scaling)", new="    if (stats.m_min.size() > 0 && stats.m_div_range.max() < 1e+6)\n    {\n        switch (scaling)"),
    dict(property="C14", name="make-scaling-early-return-without-samples", rule="R-C14-8", file="src/dataset/stats.cpp",
         old="    // NB: check that scalar statistics are initialized!\n    if (stats.m_min.size() > 0)",
         new="    if (stats.m_samples.sum() == 0)\n    {\n        return std::make_pair(w, b);\n    }\n    if (stats.m_min.size() > 0)"),
    dict(property="C14", name="flatten-mask-only-sclass", rule="R-C14-4", file="src/dataset/stats.cpp",
         old="const auto isclass     = feature.is_sclass() || feature.is_mclass();", new="const auto isclass     = feature.is_sclass();"),
    dict(property="C14", name="upscale-bias-after-weights", rule="R-C14-5", file="src/dataset/stats.cpp",
         old="""    // cppcheck-suppress unreadVariable
    bias.array() = (weights.matrix() * flatten_b.vector()).array() + bias.array() - targets_b.array();
    // cppcheck-suppress unreadVariable
    bias.array() /= targets_w.array();

    // cppcheck-suppress unreadVariable
    weights.matrix().array().colwise() /= targets_w.array();
    // cppcheck-suppress unreadVariable
    weights.matrix().array().rowwise() *= flatten_w.array().transpose();""",
         new="""    weights.matrix().array().colwise() /= targets_w.array();
    weights.matrix().array().rowwise() *= flatten_w.array().transpose();

    bias.array() = (weights.matrix() * flatten_b.vector()).array() + bias.array() - targets_b.array();
    bias.array() /= targets_w.array();"""),
    dict(property="C14", name="upscale-bias-sign", rule="R-C14-5", file="src/dataset/stats.cpp",
         old="bias.array() = (weights.matrix() * flatten_b.vector()).array() + bias.array() - targets_b.array();",
         new="bias.array() = (weights.matrix() * flatten_b.vector()).array() + bias.array() + targets_b.array();"),
    dict(property="C14", name="variance-clamp-removed", rule="R-C14-6", file="src/dataset/stats.cpp",
         old="std::sqrt(std::max(0.0, (stats.m_stdev(i) - stats.m_mean(i) * stats.m_mean(i) / dN) / (dN - 1.0)));",
         new="std::sqrt((stats.m_stdev(i) - stats.m_mean(i) * stats.m_mean(i) / dN) / (dN - 1.0));"),
    dict(property="C14", name="single-sample-enters-variance", rule="R-C14-6", file="src/dataset/stats.cpp",
         old="if (const auto N = stats.m_samples(i); N > 1)", new="if (const auto N = stats.m_samples(i); N > 0)"),    # ---- C11
    dict(property="C11", name="patience-off-by-one", rule="R-C11-1", file="src/gboost/early_stopping.cpp",
         old="else if (wlearners.size() < m_round + patience)", new="else if (wlearners.size() <= m_round + patience)"),
    dict(property="C11", name="improvement-without-epsilon", rule="R-C11-1", file="src/gboost/early_stopping.cpp",
         old="else if (valid_value < m_value - epsilon || valid_samples.size() == 0)", new="else if (valid_value < m_value || valid_samples.size() == 0)"),
    dict(property="C11", name="improvement-forgets-values", rule="R-C11-1", file="src/gboost/early_stopping.cpp",
         old="""    else if (valid_value < m_value - epsilon || valid_samples.size() == 0)
    {
        m_value  = valid_value;
        m_round  = wlearners.size();
        m_values = errors_losses;""", new="""    else if (valid_value < m_value - epsilon || valid_samples.size() == 0)
    {
        m_value  = valid_value;
        m_round  = wlearners.size();"""),
    dict(property="C11", name="records-train-value", rule="R-C11-2", file="src/gboost/early_stopping.cpp",
         old="""    else if (valid_value < m_value - epsilon || valid_samples.size() == 0)
    {
        m_value  = valid_value;""", new="""    else if (valid_value < m_value - epsilon || valid_samples.size() == 0)
    {
        m_value  = train_value;"""),
    dict(property="C11", name="trim-keeps-one-more", rule="R-C11-3", file="src/gboost/model.cpp",
         old="result.done(static_cast<tensor_size_t>(optimum.round()));", new="result.done(static_cast<tensor_size_t>(optimum.round()) + 1);"),
    dict(property="C11", name="result-done-erase-off-by-one", rule="R-C11-3", file="src/gboost/result.cpp",
         old="m_wlearners.erase(m_wlearners.begin() + optimum_round, m_wlearners.end());", new="m_wlearners.erase(m_wlearners.begin() + optimum_round + 1, m_wlearners.end());"),
    dict(property="C11", name="monitor-before-evaluate", rule="R-C11-3", file="src/gboost/model.cpp",
         old="""        outputs.vector() += woutputs.vector();
        ::nano::gboost::evaluate(targets_iterator, loss, outputs, values);
        result.update(round + 1, shrinkage_ratio, gstate, std::move(best_wlearner));""",
         new="""        outputs.vector() += woutputs.vector();
        result.update(round + 1, shrinkage_ratio, gstate, std::move(best_wlearner));
        ::nano::gboost::evaluate(targets_iterator, loss, outputs, values);"""),
    dict(property="C11", name="returned-values-swapped", rule="R-C11-3", file="src/gboost/model.cpp",
         old="""    return std::make_tuple(std::move(result), selected(optimum.values(), train_samples),
                           selected(optimum.values(), valid_samples));""",
         new="""    return std::make_tuple(std::move(result), selected(optimum.values(), valid_samples),
                           selected(optimum.values(), train_samples));"""),
    dict(property="C11", name="learners-not-averaged", rule="R-C11-4", file="src/gboost/model.cpp",
         old="        const auto vdenom = make_vector<scalar_t>(denom);", new="        const auto vdenom = make_vector<scalar_t>(1.0);"),
    dict(property="C11", name="fold-loop-skips-first", rule="R-C11-4", file="src/gboost/model.cpp",
         old="        for (tensor_size_t fold = 0; fold < folds; ++fold)\n        {\n            const auto* const pgboost", new="        for (tensor_size_t fold = 1; fold < folds; ++fold)\n        {\n            const auto* const pgboost"),
    dict(property="C11", name="extra-slot-transposed", rule="R-C11-5", file="src/machine/result.cpp",
         old="""    return m_extras[static_cast<size_t>(trial * folds() + fold)];""", new="""    return m_extras[static_cast<size_t>(fold * trials() + trial)];"""),
    dict(property="C11", name="stats-split-index-flipped", rule="R-C11-5", file="src/machine/result.cpp",
         old="const auto isplit = split == split_type::train ? 0 : 1;", new="const auto isplit = split == split_type::train ? 1 : 0;"),
    dict(property="C11", name="store-valid-losses-in-errors-slot", rule="R-C11-5", file="src/machine/result.cpp",
         old="store_stats(valid_errors_losses.tensor(1), m_values.tensor(trial, fold, 1, 1));", new="store_stats(valid_errors_losses.tensor(1), m_values.tensor(trial, fold, 1, 0));"),
    dict(property="C11", name="load-stats-mean-stdev-swapped", rule="R-C11-6", file="src/machine/stats.cpp",
         old="        stats(0), stats(1), stats(2), stats(3), stats(4),  stats(5),", new="        stats(1), stats(0), stats(2), stats(3), stats(4),  stats(5),"),    # ---- C13
    dict(property="C13", name="evaluate-skips-filter", rule="R-C13-2", file="src/tuner/util.cpp",
         old="""    const auto it = std::remove_if(igrids.begin(), igrids.end(), op);
    igrids.erase(it, igrids.end());
""", new="""    (void)op;
"""),
    dict(property="C13", name="push-before-finite-check", rule="R-C13-2", file="src/tuner/util.cpp",
         old="""        critical(!std::isfinite(values(itrial)), "tuner: invalid value (", values(itrial),
                 ") detected for parameters (", params.vector(itrial).transpose(), ")!");

        steps.emplace_back(tuner_step_t{igrid, params.tensor(itrial), values(itrial)});""",
         new="""        steps.emplace_back(tuner_step_t{igrid, params.tensor(itrial), values(itrial)});

        critical(!std::isfinite(values(itrial)), "tuner: invalid value (", values(itrial),
                 ") detected for parameters (", params.vector(itrial).transpose(), ")!");"""),
    dict(property="C13", name="sort-removed", rule="R-C13-2", file="src/tuner/util.cpp",
         old="    std::sort(steps.begin(), steps.end());\n", new=""),
    dict(property="C13", name="sort-only-when-many", rule="R-C13-2", file="src/tuner/util.cpp",
         old="    std::sort(steps.begin(), steps.end());", new="    if (steps.size() > 2) { std::sort(steps.begin(), steps.end()); }"),
    dict(property="C13", name="push-value-of-first-trial", rule="R-C13-2", file="src/tuner/util.cpp",
         old="steps.emplace_back(tuner_step_t{igrid, params.tensor(itrial), values(itrial)});", new="steps.emplace_back(tuner_step_t{igrid, params.tensor(itrial), values(0)});"),
    dict(property="C13", name="clip-only-lower-bound", rule="R-C13-3", file="src/tuner/util.cpp",
         old="if ((igrid.array() - min_igrid.array()).minCoeff() < 0 || (max_igrid.array() - igrid.array()).minCoeff() < 0)",
         new="if ((igrid.array() - min_igrid.array()).minCoeff() < 0)"),
    dict(property="C13", name="local-loop-without-budget", rule="R-C13-4", file="src/tuner/local.cpp",
         old="for (; !steps.empty() && steps.size() < max_evals;)", new="for (; !steps.empty();)"),
    dict(property="C13", name="surrogate-loop-budget-doubled", rule="R-C13-4", file="src/tuner/surrogate.cpp",
         old="for (; !steps.empty() && steps.size() < max_evals;)", new="for (; !steps.empty() && steps.size() < 2 * max_evals;)"),
    dict(property="C13", name="decode-swapped", rule="R-C13-5", file="src/machine/tune.cpp",
         old="""            const auto fold  = index % folds;
            const auto trial = index / folds;""", new="""            const auto fold  = index / new_trials;
            const auto trial = index % folds;"""),
    dict(property="C13", name="store-under-relative-trial", rule="R-C13-5", file="src/machine/tune.cpp",
         old="result.store(old_trials + trial, fold, std::move(tr_values), std::move(vd_values), std::move(extra));",
         new="result.store(trial, fold, std::move(tr_values), std::move(vd_values), std::move(extra));"),
    dict(property="C13", name="add-inside-task", rule="R-C13-6", file="src/machine/tune.cpp",
         old="""        result.add(new_params);

        const auto thread_callback = [&](const tensor_size_t index, size_t)
        {""", new="""        const auto thread_callback = [&](const tensor_size_t index, size_t)
        {
            if (index == 0) { result.add(new_params); }"""),
    dict(property="C13", name="optimum-on-training-error", rule="R-C13-7", file="src/machine/result.cpp",
         old="const auto value = this->value(trial);", new="const auto value = this->value(trial, split_type::train);"),
    dict(property="C13", name="callback-called-in-tuner", rule="R-C13-1", file="src/tuner/local.cpp",
         old="    // local search around current optimum iteratively...", new="    if (steps.empty()) { (void)callback(map_to_grid(spaces, igrids_t{min_igrid})); }"),    # ---- C02
    dict(property="C02", name="pgm-update-with-old-point", rule="R-C02-1", file="src/solver/universal.cpp",
         old="""            xk  = xk1;
            gxk = gxk1;
            fxk = fxk1;
            state.update_if_better(xk1, gxk1, fxk1);""", new="""            state.update_if_better(xk, gxk1, fxk1);
            xk  = xk1;
            gxk = gxk1;
            fxk = fxk1;"""),
    dict(property="C02", name="sgm-step-after-evaluation", rule="R-C02-1", file="src/solver/sgm.cpp",
         old="""        const auto f = function.vgrad(x, g);
        state.update_if_better(x, g, f);""", new="""        const auto f = function.vgrad(x, g);
        x -= 1e-3 * lambda * g;
        state.update_if_better(x, g, f);"""),
    dict(property="C02", name="osga-pairs-crossed", rule="R-C02-1", file="src/solver/osga.cpp",
         old="const auto& fb_hat = (f_prime < fb_prime) ? f_prime : fb_prime;", new="const auto& fb_hat = (f_prime < fb_prime) ? fb_prime : f_prime;"),
    dict(property="C02", name="fpba-lambda-called-with-bundle-value", rule="R-C02-1", file="src/solver/fpba.cpp",
         old="            apply_nesterov_sequence(y, gy, fy);\n        }\n        else if (status == csearch_status::null_step)", new="            apply_nesterov_sequence(y, gy, bundle.fx());\n        }\n        else if (status == csearch_status::null_step)"),
    dict(property="C02", name="update-if-better-drops-fx", rule="R-C02-2", file="src/solver/state.cpp",
         old="""            m_x  = x;
            m_fx = fx;
            m_gx = gx;
            update_constraints();""", new="""            m_x  = x;
            m_gx = gx;
            update_constraints();"""),
    dict(property="C02", name="update-if-better-accepts-equal", rule="R-C02-2", file="src/solver/state.cpp",
         old="const auto better = df > 0.0;", new="const auto better = df > -1e-12;"),
    dict(property="C02", name="update-skips-constraints", rule="R-C02-2", file="src/solver/state.cpp",
         old="""    update_calls();
    update_constraints();
    return valid();""", new="""    update_calls();
    return valid();"""),
    dict(property="C02", name="vgrad-resets-counter", rule="R-C02-3", file="src/function.cpp",
         old="    m_fcalls += 1;", new="    m_fcalls = 1;"),
    dict(property="C02", name="solver-clears-statistics-midway", rule="R-C02-3", file="src/solver/gd.cpp",
         old="    auto lsearch = make_lsearch();\n    auto descent = vector_t{function.size()};", new="    auto lsearch = make_lsearch();\n    function.clear_statistics();\n    auto descent = vector_t{function.size()};"),
    dict(property="C02", name="dgm-inner-loop-unbounded", rule="R-C02-4", file="src/solver/universal.cpp",
         old="for (int64_t k = 0; k < lsearch_max_iterations && !iter_ok && std::isfinite(fxk1); ++k)\n        {\n            xk1     = gphi - gxk / M;",
         new="for (int64_t k = 0; !iter_ok && std::isfinite(fxk1); ++k)\n        {\n            xk1     = gphi - gxk / M;"),
    dict(property="C02", name="sgm-loop-without-budget", rule="R-C02-4", file="src/solver/sgm.cpp",
         old="    while (function.fcalls() + function.gcalls() < max_evals)\n    {\n        if (g.lpNorm", new="    while (iteration < max_evals * 100)\n    {\n        if (g.lpNorm"),
    dict(property="C02", name="done-fails-only-on-invalid", rule="R-C01-3", file="src/solver.cpp",
         old="if (const auto step_ok = iter_ok && state.valid(); converged || !step_ok)", new="if (const auto step_ok = iter_ok || state.valid(); converged || !step_ok)"),
    dict(property="C02", name="solver-sets-status-itself", rule="R-C01-3", file="src/solver/gd.cpp",
         old="    return state;\n} // LCOV_EXCL_LINE", new="    state.status(solver_status::converged);\n    return state;\n} // LCOV_EXCL_LINE"),
    dict(property="C02", name="cgd-returns-fresh-copy", rule="R-C02-5", file="src/solver/cgd.cpp",
         old="    return cstate.valid() ? cstate : pstate;", new="    return cstate.valid() ? solver_state_t{function, cstate.x()} : pstate;"),
    dict(property="C02", name="csearch-status-reset-removed", rule="R-C02-6", file="src/solver/csearch.cpp",
         old="    m_point.m_status = csearch_status::max_iters;\n", new=""),
    dict(property="C02", name="csearch-skips-evaluation-on-extrapolation", rule="R-C02-6", file="src/solver/csearch.cpp",
         old="""        y  = bundle.proximal(miu / t);
        fy = m_function.vgrad(y, gy);""", new="""        y  = bundle.proximal(miu / t);
        if (!std::isfinite(tR) && t > 8.0)
        {
            break;
        }
        fy = m_function.vgrad(y, gy);"""),    # ---- C01
    dict(property="C01", name="lbfgs-flag-on-previous-state", rule="R-C01-1", file="src/solver/lbfgs.cpp",
         old="        const auto converged = cstate.gradient_test() < epsilon;", new="        const auto converged = pstate.gradient_test() < epsilon;"),
    dict(property="C01", name="cgd-flag-before-linesearch", rule="R-C01-1", file="src/solver/cgd.cpp",
         old="""        const auto iter_ok   = lsearch.get(cstate, cdescent, logger);
        const auto converged = cstate.gradient_test() < epsilon;""", new="""        const auto converged = cstate.gradient_test() < epsilon;
        const auto iter_ok   = lsearch.get(cstate, cdescent, logger);"""),
    dict(property="C01", name="quasi-flag-scaled-threshold", rule="R-C01-1", file="src/solver/quasi.cpp",
         old="        const auto converged = cstate.gradient_test() < epsilon;", new="        const auto converged = cstate.gradient_test() < 10 * epsilon;"),
    dict(property="C01", name="gd-flag-hard-wired-on-failure", rule="R-C01-1", file="src/solver/gd.cpp",
         old="        const auto converged = state.gradient_test() < epsilon;", new="        const auto converged = !iter_ok || state.gradient_test() < epsilon;"),
    dict(property="C01", name="criterion-squared-value", rule="R-C01-2", file="src/solver/state.cpp",
         old="return gx.lpNorm<Eigen::Infinity>() / std::max(scalar_t(1), std::fabs(m_fx));", new="return gx.lpNorm<Eigen::Infinity>() / std::max(scalar_t(1), m_fx * m_fx);"),
    dict(property="C01", name="criterion-l2-norm", rule="R-C01-2", file="src/solver/state.cpp",
         old="return gx.lpNorm<Eigen::Infinity>() / std::max(scalar_t(1), std::fabs(m_fx));", new="return gx.lpNorm<2>() / (1 + gx.size()) / std::max(scalar_t(1), std::fabs(m_fx));"),
    dict(property="C01", name="lbfgs-drops-forced-descent", rule="R-C01-5", file="src/solver/lbfgs.cpp",
         old="""        if (!has_descent)
        {
            descent = -cstate.gx();
        }
""", new=""),
    dict(property="C01", name="quasi-restart-keeps-direction", rule="R-C01-5", file="src/solver/quasi.cpp",
         old="""            descent = -cstate.gx();
            H       = matrix_t::identity(H.rows(), H.cols());""", new="""            H       = matrix_t::identity(H.rows(), H.cols());"""),
    dict(property="C01", name="lbfgs-second-loop-wrong-slot", rule="R-C01-6", file="src/solver/lbfgs.cpp",
         old="const scalar_t alpha = alphas[hsize - 1 - j];", new="const scalar_t alpha = alphas[j];"),
    dict(property="C01", name="lbfgs-history-pop-only-s", rule="R-C01-6", file="src/solver/lbfgs.cpp",
         old="""                ss.pop_front();
                ys.pop_front();""", new="""                ss.pop_front();"""),
    dict(property="C01", name="bfgs-sign-flipped", rule="R-C01-7", file="src/solver/quasi.cpp",
         old="           dx * dx.transpose() / dx.dot(dg);\n}", new="           -dx * dx.transpose() / dx.dot(dg);\n}"),
    dict(property="C01", name="dfp-wrong-denominator", rule="R-C01-7", file="src/solver/quasi.cpp",
         old="return H + (dx * dx.transpose()) / dx.dot(dg) - (H * dg * dg.transpose() * H) / (dg.transpose() * H * dg);",
         new="return H + (dx * dx.transpose()) / dx.dot(dx) - (H * dg * dg.transpose() * H) / (dg.transpose() * H * dg);"),
    dict(property="C01", name="status-enum-reordered", rule="R-C01-3", file="include/nano/solver/status.h", tu="src/solver.cpp",
         old="""    max_iters,  ///< maximum number of iterations reached without convergence (default)
    converged,  ///< convergence criterion reached""", new="""    converged,  ///< convergence criterion reached
    max_iters,  ///< maximum number of iterations reached without convergence (default)"""),    # ---- C03
    dict(property="C03", name="csearch-converged-on-either-test", rule="R-C03-1", file="src/solver/csearch.cpp",
         old="else if (const auto converged = econv && sconv; converged)", new="else if (const auto converged = econv || sconv; converged)"),
    dict(property="C03", name="csearch-tests-before-solve", rule="R-C03-1", file="src/solver/csearch.cpp",
         old="""        // estimate proximal point
        bundle.solve(miu / t, logger);

        y  = bundle.proximal(miu / t);""", new="""        // estimate proximal point
        y  = bundle.proximal(miu / t);"""),
    dict(property="C03", name="sconverged-tolerance-without-sqrt", rule="R-C03-2", file="src/solver/bundle.cpp",
         old="""    const auto tol = epsilon * std::sqrt(static_cast<scalar_t>(m_x.size()));

    return smeared_s().template lpNorm<2>() <= tol;""", new="""    const auto tol = epsilon * static_cast<scalar_t>(m_x.size());

    return smeared_s().template lpNorm<2>() <= tol;"""),
    dict(property="C03", name="rqb-converged-on-null-step", rule="R-C03-3", file="src/solver/rqb.cpp",
         old="const auto converged = status == csearch_status::converged;", new="const auto converged = status == csearch_status::converged || status == csearch_status::null_step;"),
    dict(property="C03", name="serious-step-shift-sign", rule="R-C03-4", file="src/solver/bundle.cpp",
         old="m_bundleE(i) += fy - m_fx - m_bundleS.vector(i).dot(y - m_x);", new="m_bundleE(i) += fy - m_fx + m_bundleS.vector(i).dot(y - m_x);"),
    dict(property="C03", name="null-step-error-swapped-points", rule="R-C03-4", file="src/solver/bundle.cpp",
         old="m_bundleE(m_size)        = m_fx - (fy + gy.dot(m_x - y));", new="m_bundleE(m_size)        = m_fx - (fy + gy.dot(y - m_x));"),
    dict(property="C03", name="moveto-moves-centre-first", rule="R-C03-4", file="src/solver/bundle.cpp",
         old="""    append(y, gy, fy, serious_step);
    m_x  = y;
    m_gx = gy;
    m_fx = fy;""", new="""    m_x  = y;
    m_gx = gy;
    m_fx = fy;
    append(y, gy, fy, serious_step);"""),
    dict(property="C03", name="ellipsoid-flag-on-squared-quantity", rule="R-C03-5", file="src/solver/ellipsoid.cpp",
         old="const auto converged = std::sqrt(gHg) < epsilon;", new="const auto converged = gHg < epsilon;"),
    dict(property="C03", name="two-cut-p-missing-half", rule="R-C03-6", file="src/solver/bundle.cpp",
         old="const auto p = 0.5 * (Q(0, 1) + Q(1, 0)) - Q(1, 1) + c(0) - c(1);", new="const auto p = (Q(0, 1) + Q(1, 0)) - Q(1, 1) + c(0) - c(1);"),
    dict(property="C03", name="two-cut-endpoint-choice-flipped", rule="R-C03-6", file="src/solver/bundle.cpp",
         old="((0.5 * q + p) > 0.0 ? 0.0 : 1.0)", new="((0.5 * q + p) > 0.0 ? 1.0 : 0.0)"),
    dict(property="C03", name="threshold-index-unclamped", rule="R-C03-7", file="src/solver/bundle.cpp",
         old="thres = m_alphas(std::min(count, size() - count))", new="thres = m_alphas(count)"),
    dict(property="C03", name="removal-predicate-strict", rule="R-C03-8", file="src/solver/bundle.cpp",
         old="{ return m_bundleE(i) >= thres; });", new="{ return m_bundleE(i) > thres; });"),
    dict(property="C03", name="delete-only-one-cut", rule="R-C03-8", file="src/solver/bundle.cpp",
         old="    delete_largest(2);", new="    delete_largest(1);"),    # ---- C04
    dict(property="C04", name="converged-without-feasible", rule="R-C04-1", file="src/program/solver.cpp",
         old="if (feasible && std::max({state.m_eta, state.m_rdual.lpNorm<2>(), state.m_rprim.lpNorm<2>()}) < epsilon)",
         new="if (std::max({state.m_eta, state.m_rdual.lpNorm<2>(), state.m_rprim.lpNorm<2>()}) < epsilon)"),
    dict(property="C04", name="converged-ignores-primal-residual", rule="R-C04-1", file="src/program/solver.cpp",
         old="if (feasible && std::max({state.m_eta, state.m_rdual.lpNorm<2>(), state.m_rprim.lpNorm<2>()}) < epsilon)",
         new="if (feasible && std::max({state.m_eta, state.m_rdual.lpNorm<2>()}) < epsilon)"),
    dict(property="C04", name="done-called-with-loose-epsilon", rule="R-C04-1", file="src/program/solver.cpp",
         old="""            // very precise convergence detected, check global convergence criterion!
            done(program, state, epsilon, logger);""", new="""            // very precise convergence detected, check global convergence criterion!
            done(program, state, std::sqrt(epsilon), logger);"""),
    dict(property="C04", name="stall-marks-converged-directly", rule="R-C04-1", file="src/program/solver.cpp",
         old="""            // very precise convergence detected, check global convergence criterion!
            done(program, state, epsilon, logger);""", new="""            // very precise convergence detected
            state.m_status = solver_status::converged;"""),
    dict(property="C04", name="objective-not-rescaled", rule="R-C04-2", file="src/program/solver.cpp",
         old="        state.m_fx *= m_mufx; // NB: rescale the objective!\n", new=""),
    dict(property="C04", name="objective-rescaled-only-for-qp", rule="R-C04-2", file="src/program/solver.cpp",
         old="""            state.m_rdual = Q() * x + m_c;
        }
        state.m_fx *= m_mufx; // NB: rescale the objective!""", new="""            state.m_rdual = Q() * x + m_c;
            state.m_fx *= m_mufx; // NB: rescale the objective!
        }"""),
    dict(property="C04", name="normalize-b-separately", rule="R-C04-3", file="src/program/solver.cpp",
         old="""    A.array() /= denom;
    b.array() /= denom;""", new="""    A.array() /= denom;
    b.array() /= std::max(min_norm, b.lpNorm<2>());"""),
    dict(property="C04", name="inequalities-not-normalised-together", rule="R-C04-3", file="src/program/solver.cpp",
         old="        ::normalize(m_G, m_h);", new="        ::normalize(m_G, m_b);"),
    dict(property="C04", name="reduce-splits-wrong-column", rule="R-C04-4", file="src/program/util.cpp",
         old="    b = Ab.matrix().col(Ab.cols() - 1);", new="    b = Ab.matrix().col(Ab.cols() - 2);"),
    dict(property="C04", name="feasibility-guard-non-strict", rule="R-C04-5", file="src/program/solver.cpp",
         old="if (const auto mGxh = (G * x0 - h).maxCoeff(); mGxh >= 0.0)", new="if (const auto mGxh = (G * x0 - h).maxCoeff(); mGxh > 0.0)"),
    dict(property="C04", name="du-recovery-sign", rule="R-C04-6", file="src/program/solver.cpp",
         old="du = (state.m_rcent.array() - state.m_u.array() * (G * dx).array()) / Gxh.array();", new="du = (state.m_rcent.array() + state.m_u.array() * (G * dx).array()) / Gxh.array();"),
    dict(property="C04", name="rcent-missing-complementarity", rule="R-C04-6", file="src/program/solver.cpp",
         old="state.m_rcent = -state.m_eta / (miu * sm) - u.array() * (m_G * x - m_h).array();", new="state.m_rcent = -state.m_eta / (miu * sm) - u.array();"),
    dict(property="C04", name="reduced-rhs-missing-rcent", rule="R-C04-6", file="src/program/solver.cpp",
         old="state.m_rdual + G.transpose() * (state.m_rcent.array() / Gxh.array()).matrix(), state.m_rprim);", new="state.m_rdual, state.m_rprim);"),
    dict(property="C04", name="initial-multipliers-negative", rule="R-C04-7", file="src/program/solver.cpp",
         old="    state.m_u = -1.0 / (G * x0 - h).array();", new="    state.m_u = 1.0 / (G * x0 - h).array();"),    # ---- C05
    dict(property="C05", name="quadratic-penalty-gradient-missing-2", rule="R-C05-2", file="src/function/penalty.cpp",
         old="            gx += penalty() * 2.0 * fc * gc;", new="            gx += penalty() * fc * gc;"),
    dict(property="C05", name="linear-penalty-value-squared", rule="R-C05-1", file="src/function/penalty.cpp",
         old="        return penalty() * std::fabs(fc);", new="        return penalty() * fc * fc;"),
    dict(property="C05", name="al-guard-ignores-multiplier", rule="R-C05-1", file="src/function/penalty.cpp",
         old="        if (eq || (fc + mu / ro > 0.0))", new="        if (eq || (fc > 0.0))"),
    dict(property="C05", name="al-value-missing-half", rule="R-C05-1", file="src/function/penalty.cpp",
         old="            fx += 0.5 * ro * (fc + mu / ro) * (fc + mu / ro);", new="            fx += ro * (fc + mu / ro) * (fc + mu / ro);"),
    dict(property="C05", name="al-multipliers-share-counter", rule="R-C05-7", file="src/function/penalty.cpp",
         old="const auto mu = eq ? m_lambda(ilambda++) : m_miu(imiu++);", new="const auto mu = eq ? m_lambda(ilambda++) : m_miu(ilambda++);"),
    dict(property="C05", name="is-equality-drops-quadratic", rule="R-C05-3", file="src/function/constraint.cpp",
         old="           std::get_if<constraint::quadratic_equality_t>(&constraint) != nullptr ||\n", new=""),
    dict(property="C05", name="vgrad-visitor-loses-minimum", rule="R-C05-4", file="src/function/constraint.cpp",
         old="                   [&](const minimum_t& ct) { return ::vgrad(ct, x, gx); },\n", new=""),
    dict(property="C05", name="valid-equality-one-sided", rule="R-C05-5", file="src/function/constraint.cpp",
         old="""auto valid(const linear_equality_t& constraint, vector_cmap_t x)
{
    return std::fabs(::vgrad(constraint, x));""", new="""auto valid(const linear_equality_t& constraint, vector_cmap_t x)
{
    return std::max(::vgrad(constraint, x), 0.0);"""),
    dict(property="C05", name="ball-gradient-missing-2", rule="R-C05-6", file="src/function/constraint.cpp",
         old="        gx = 2.0 * (x - constraint.m_origin);", new="        gx = (x - constraint.m_origin);"),
    dict(property="C05", name="minimum-gradient-sign", rule="R-C05-6", file="src/function/constraint.cpp",
         old="""        gx.full(0.0)(constraint.m_dimension) = -1.0;
    }
    return constraint.m_value - x(constraint.m_dimension);""", new="""        gx.full(0.0)(constraint.m_dimension) = +1.0;
    }
    return constraint.m_value - x(constraint.m_dimension);"""),
    dict(property="C05", name="state-inequalities-stored-in-eq-slot", rule="R-C05-7", file="src/solver/state.cpp",
         old="            m_cineq(ineq) = ::vgrad(constraint, m_x, cgrad);", new="            m_cineq(eq) = ::vgrad(constraint, m_x, cgrad);"),
    dict(property="C05", name="al-converged-without-criterion", rule="R-C05-8", file="src/solver/augmented.cpp",
         old="const auto converged = iter_ok && criterion <= epsilon && ::nano::converged(bstate, cstate, epsilon);", new="const auto converged = iter_ok && ::nano::converged(bstate, cstate, epsilon);"),
    dict(property="C05", name="al-criterion-ignores-inequalities", rule="R-C05-8", file="src/solver/augmented.cpp",
         old="    return std::max(hinf, Vinf);", new="    return hinf + 0.0 * Vinf;"),
    dict(property="C05", name="al-update-after-done", rule="R-C05-8", file="src/solver/augmented.cpp",
         old="""        if (iter_ok && criterion < old_criterion)
        {
            bstate.update(cstate.x(), lambda, miu);
            solver->more_precise(epsilonK);
        }
        if (done(bstate, iter_ok, converged, logger))
        {
            break;
        }
""", new="""        if (done(bstate, iter_ok, converged, logger))
        {
            break;
        }
        if (criterion < old_criterion)
        {
            bstate.update(cstate.x(), lambda, miu);
            solver->more_precise(epsilonK);
        }
"""),    # ---- C06
    dict(property="C06", name="squared-hinge-gradient-missing-2", rule="R-C06-2", file="include/nano/loss/flatten.h", tu="src/loss.cpp",
         old="vgrad = -target * ((1 - target * output).max(0)) * 2.0;", new="vgrad = -target * ((1 - target * output).max(0));"),
    dict(property="C06", name="logistic-second-branch-sign", rule="R-C06-2", file="include/nano/loss/flatten.h", tu="src/loss.cpp",
         old="const auto g = (x < 1.0) ? (std::exp(x) / (1.0 + std::exp(x))) : (1.0 / (1.0 + std::exp(-x)));", new="const auto g = (x < 1.0) ? (std::exp(x) / (1.0 + std::exp(x))) : (1.0 / (1.0 + std::exp(x)));"),
    dict(property="C06", name="classnll-value-last-positive-only", rule="R-C06-2", file="include/nano/loss/flatten.h", tu="src/loss.cpp",
         old="                posum += output(i);", new="                posum = output(i);"),
    dict(property="C06", name="pinball-gradient-alpha-sign", rule="R-C06-2", file="src/loss/pinball.cpp",
         old="vgrads.array(i) = -alpha + 0.5 * (1.0 - (itarget - ioutput).sign());", new="vgrads.array(i) = alpha + 0.5 * (1.0 - (itarget - ioutput).sign());"),
    dict(property="C06", name="savage-declared-convex", rule="R-C06-3", file="include/nano/loss/flatten.h", tu="src/loss.cpp",
         old="""struct savage_t : public terror
{
    static constexpr auto convex   = false;""", new="""struct savage_t : public terror
{
    static constexpr auto convex   = true;"""),
    dict(property="C06", name="flatten-value-reads-previous-sample", rule="R-C06-4", file="include/nano/loss/flatten.h", tu="src/loss.cpp",
         old="            values(i) = tloss::value(targets.array(i), outputs.array(i));", new="            values(i) = tloss::value(targets.array(i), outputs.array(i > 0 ? i - 1 : i));"),
    dict(property="C06", name="sphere-value-inside-gradient-branch", rule="R-C06-1", file="src/function/benchmark/sphere.cpp",
         old="""    if (gx.size() == x.size())
    {
        gx = 2 * x;
    }

    return x.dot(x);""", new="""    auto fx = x.dot(x);
    if (gx.size() == x.size())
    {
        gx = 2 * x;
        fx += 1e-12;
    }

    return fx;"""),
    dict(property="C06", name="chained-cb3I-gradient-index-slip", rule="R-C06-2", file="src/function/benchmark/chained_cb3I.cpp",
         old="                gx(i + 1) += 2.0 * x(i + 1);", new="                gx(i + 1) += 2.0 * x(i);"),
    dict(property="C06", name="rosenbrock-gradient-coefficient", rule="R-C06-2", file="src/function/benchmark/rosenbrock.cpp",
         old="            gx(i + 1) += ct * 2 * (x(i + 1) - x(i) * x(i));", new="            gx(i + 1) += ct * (x(i + 1) - x(i) * x(i));"),
    dict(property="C06", name="ball-constraint-gradient", rule="R-C05-6", file="src/function/constraint.cpp",
         old="        gx = 2.0 * (x - constraint.m_origin);", new="        gx = 2.0 * (x + constraint.m_origin);"),
    dict(property="C06", name="new-strong-convexity-claim-on-trid", rule="R-C06-6", file="src/function/benchmark/trid.cpp",
         old="""    : function_t("trid", dims)
{
    convex(convexity::yes);""", new="""    : function_t("trid", dims)
{
    strong_convexity(1.0);
    convex(convexity::yes);"""),
    dict(property="C20", name="histogram-ctor-does-not-sort-thresholds", rule="R-C20-5", file="include/nano/core/histogram.h", tu="src/core/histogram.cpp",
         old="        std::sort(std::begin(m_thresholds), std::end(m_thresholds));\n\n        update(begin, end);", new="        update(begin, end);"),
    dict(property="C08", name="onehot-fills-zero", rule="R-C08-4", file="include/nano/generator/elemwise.h", tu="src/generator/elemwise_identity.cpp",
         old="                        segment.setConstant(-1.0);", new="                        segment.setConstant(0.0);"),
    dict(property="C08", name="onehot-guard-inclusive", rule="R-C08-4", file="include/nano/generator/elemwise.h", tu="src/generator/elemwise_identity.cpp",
         old="                        if (class_index < segment.size())", new="                        if (class_index <= segment.size())"),
    dict(property="C08", name="targets-mclass-not-centred", rule="R-C08-4", file="src/dataset.cpp",
         old="storage.array(index) = hits.array().template cast<scalar_t>() * 2.0 - 1.0;", new="storage.array(index) = hits.array().template cast<scalar_t>() * 2.0;"),
    dict(property="C08", name="update-second-pass-sclass-columns", rule="R-C08-7", file="src/dataset.cpp",
         old="            case feature_type::sclass: columns = feature.classes() - 1; break;", new="            case feature_type::sclass: columns = feature.classes(); break;"),
    dict(property="C08", name="sclass-identity-colsize", rule="R-C08-7", file="include/nano/generator/elemwise_identity.h", tu="src/generator/elemwise_identity.cpp",
         old="        const auto colsize = mapped_classes(ifeature) - 1;", new="        const auto colsize = mapped_classes(ifeature);"),
    dict(property="C03", name="ellipsoid-inflation-denominator", rule="R-C03-9", file="src/solver/ellipsoid.cpp",
         old="            Hm.noalias() = (n * n) / (n * n - 1) * (1 - alpha * alpha) *", new="            Hm.noalias() = (n * n) / (n * n + 1) * (1 - alpha * alpha) *"),
    dict(property="C03", name="ellipsoid-centre-step-ignores-dimension", rule="R-C03-9", file="src/solver/ellipsoid.cpp",
         old="            xv.noalias() = xv - (1 + n * alpha) / (n + 1) * (Hm * gv) / std::sqrt(gHg);", new="            xv.noalias() = xv - (1 + alpha) / (n + 1) * (Hm * gv) / std::sqrt(gHg);"),
    dict(property="C03", name="ellipsoid-integer-inflation-factor", rule="R-C03-9", file="src/solver/ellipsoid.cpp",
         old="            Hm.noalias() = (n * n) / (n * n - 1) * (1 - alpha * alpha) *",
         new="            Hm.noalias() = static_cast<scalar_t>(function.size() * function.size() / (function.size() * function.size() - 1)) * (1 - alpha * alpha) *"),
    dict(property="C01", name="lbfgs-keeps-half-the-history", rule="R-C01-6", file="src/solver/lbfgs.cpp",
         old="            if (ss.size() > history)", new="            if (2U * ss.size() > history)"),
    dict(property="C01", name="lbfgs-trims-only-s", rule="R-C01-6", file="src/solver/lbfgs.cpp",
         old="                ss.pop_front();\n                ys.pop_front();", new="                ss.pop_front();"),
    dict(property="C06", name="sclass-error-compares-argmax-of-target", rule="R-C06-7", file="include/nano/loss/error.h", tu="src/loss.cpp",
         old="            return static_cast<scalar_t>(is_pos_target(target(idx)) ? 0 : 1);",
         new="            tensor_size_t ilabel = -1;\n            target.array().maxCoeff(&ilabel);\n            return static_cast<scalar_t>(ilabel == idx ? 0 : 1);"),
    dict(property="C06", name="mclass-error-counts-agreements", rule="R-C06-7", file="include/nano/loss/error.h", tu="src/loss.cpp",
         old="        return static_cast<scalar_t>((edges < epsilon).count());\n    }\n};\n\n///\n/// \\brief error measure for single-class", new="        return static_cast<scalar_t>((edges > epsilon).count());\n    }\n};\n\n///\n/// \\brief error measure for single-class"),
    dict(property="C06", name="sclass-error-uses-min-output", rule="R-C06-7", file="include/nano/loss/error.h", tu="src/loss.cpp",
         old="            output.array().maxCoeff(&idx);", new="            output.array().minCoeff(&idx);"),
    dict(property="C11", name="gboost-final-stats-over-all-samples", rule="R-C11-7", file="src/gboost/model.cpp",
         old="        fit_result.store(::selected(values, samples));", new="        fit_result.store(std::move(values));"),
    dict(property="C11", name="gboost-fold-stats-swapped", rule="R-C11-7", file="src/gboost/model.cpp",
         old="""    return std::make_tuple(std::move(result), selected(optimum.values(), train_samples),
                           selected(optimum.values(), valid_samples));""",
         new="""    return std::make_tuple(std::move(result), selected(optimum.values(), valid_samples),
                           selected(optimum.values(), train_samples));"""),
    dict(property="C11", name="linear-validation-stats-on-training-samples", rule="R-C11-7", file="src/linear.cpp",
         old="auto vd_values = ::nano::linear::evaluate(dataset, valid_samples, loss, result.m_weights, result.m_bias, batch);",
         new="auto vd_values = ::nano::linear::evaluate(dataset, train_samples, loss, result.m_weights, result.m_bias, batch);"),
    dict(property="C11", name="selected-gathers-errors-twice", rule="R-C11-7", file="src/gboost/model.cpp",
         old="    values.tensor(1).indexed(samples, selected.tensor(1));", new="    values.tensor(0).indexed(samples, selected.tensor(1));"),
    dict(property="C13", name="store-validation-errors-from-loss-row", rule="R-C13-8", file="src/machine/result.cpp",
         old="    store_stats(valid_errors_losses.tensor(0), m_values.tensor(trial, fold, 1, 0));", new="    store_stats(valid_errors_losses.tensor(1), m_values.tensor(trial, fold, 1, 0));"),
    dict(property="C08", name="drop-writes-shuffle-flag", rule="R-C08-10", file="src/generator.cpp",
         old="    m_feature_infos(feature) = 0x01;", new="    m_feature_infos(feature) = 0x02;"),
    dict(property="C08", name="shuffle-permutation-stored-under-first-feature", rule="R-C08-10", file="src/generator.cpp",
         old="    m_feature_shuffles[feature] = shuffled;", new="    m_feature_shuffles[0] = shuffled;"),
    dict(property="C08", name="shuffled-samples-by-position", rule="R-C08-10", file="src/generator.cpp",
         old="        shuffled(i) = shuffled_all_samples(samples(i));", new="        shuffled(i) = shuffled_all_samples(i);"),
    dict(property="C08", name="unshuffle-keeps-flags", rule="R-C08-10", file="src/generator.cpp",
         old="    m_feature_infos.array() = 0x00;\n    m_feature_shuffles.clear();", new="    m_feature_shuffles.clear();"),
    dict(property="C08", name="iterator-ignores-permutation", rule="R-C08-10", file="include/nano/datasource/iterator.h", tu="src/generator.cpp",
         old="            return m_shuffled_all_samples(m_samples(m_index));", new="            return m_samples(m_index);"),
    dict(property="C06", name="surrogate-gradient-walks-lower-triangle", rule="R-C06-2", file="src/tuner/surrogate.cpp",
         old="""            for (tensor_size_t j = i; j < size; ++j)
            {
                gx(i) += m_model(k) * x(j);
                gx(j) += m_model(k++) * x(i);""",
         new="""            for (tensor_size_t j = 0; j <= i; ++j, ++k)
            {
                gx(i) += m_model(k) * x(j);
                gx(j) += m_model(k) * x(i);"""),
    dict(property="C15", name="string-reader-keeps-stale-content", rule="R-C15-7", file="include/nano/core/stream.h", tu="src/feature.cpp",
         old="""    string.resize(size);
    for (char& c : string)
    {
        read(stream, c);
    }
    return stream;""",
         new="""    if (size > 0U)
    {
        string.resize(size);
        for (char& c : string)
        {
            read(stream, c);
        }
    }
    return stream;"""),
    dict(property="C11", name="table-merge-compares-mapping-size-only", rule="R-C11-8", file="src/wlearner/table.cpp",
         old="        if (hashes() == pother->hashes() && hash2tables() == pother->hash2tables())", new="        if (hashes() == pother->hashes() && hash2tables().size() == pother->hash2tables().size())"),
    # ---- C10
    dict(property="C10", name="accumulator-r1-sign", rule="R-C10-1", file="include/nano/wlearner/accumulator.h", tu="src/wlearner/accumulator.cpp",
         old="        r1(bin) -= vgrad;", new="        r1(bin) += vgrad;"),
    dict(property="C10", name="stump-score-missing-factor-2", rule="R-C10-1", file="src/wlearner/stump.cpp",
         old="    return (r2 + outputs.square() * r0 - 2 * outputs * r1).sum();", new="    return (r2 + outputs.square() * r0 - outputs * r1).sum();"),
    dict(property="C10", name="stump-output-pos-uses-total-count", rule="R-C10-1", file="src/wlearner/stump.cpp",
         old="    auto output_pos() const { return r1_pos() / x0_pos(); }", new="    auto output_pos() const { return r1_pos() / m_acc_sum.x0(); }"),
    dict(property="C10", name="hinge-beta-denominator-sign", rule="R-C10-1", file="src/wlearner/hinge.cpp",
         old="    return (rx - r1 * threshold) / (x2 + x0 * threshold * threshold - 2 * x1 * threshold);", new="    return (rx - r1 * threshold) / (x2 + x0 * threshold * threshold + 2 * x1 * threshold);"),
    dict(property="C10", name="affine-bias-numerator", rule="R-C10-1", file="src/wlearner/affine.cpp",
         old="        return (r1(bin_affine) * x2(bin_affine) - rx(bin_affine) * x1(bin_affine)) /", new="        return (r1(bin_affine) * x2(bin_affine) - rx(bin_affine) * x0(bin_affine)) /"),
    dict(property="C10", name="table-coefficient-unnormalised", rule="R-C10-1", file="src/wlearner/table.cpp",
         old="                m_hash2tables(bin)  = bin;\n                m_tables.array(bin) = r1(bin) / x0(bin);", new="                m_hash2tables(bin)  = bin;\n                m_tables.array(bin) = r1(bin) / std::max(1.0, x0(bin) - 1.0);"),
    dict(property="C10", name="stump-threshold-not-updated", rule="R-C10-2", file="src/wlearner/stump.cpp",
         old="                                  cache.m_threshold       = 0.5 * (ivalue1.first + ivalue2.first);\n", new=""),
    dict(property="C10", name="hinge-right-keeps-left-type", rule="R-C10-2", file="src/wlearner/hinge.cpp",
         old="                                  cache.m_hinge           = hinge_type::right;\n", new=""),
    dict(property="C10", name="stump-commit-forgets-threshold", rule="R-C10-2", file="src/wlearner/stump.cpp",
         old="        set(best.m_feature, best.m_tables);\n        m_threshold = best.m_threshold;", new="        set(best.m_feature, best.m_tables);"),
    dict(property="C10", name="stump-predict-le-threshold", rule="R-C10-3", file="src/wlearner/stump.cpp",
         old="{ outputs.vector(i) += value < m_threshold ? lo : hi; });", new="{ outputs.vector(i) += value <= m_threshold ? lo : hi; });"),
    dict(property="C10", name="hinge-split-right-strict", rule="R-C10-3", file="src/wlearner/hinge.cpp",
         old="                        (m_hinge == hinge_type::right && value >= m_threshold))", new="                        (m_hinge == hinge_type::right && value > m_threshold))"),
    dict(property="C10", name="hinge-intercept-sign", rule="R-C10-3", file="src/wlearner/hinge.cpp",
         old="""                                  cache.m_tables.array(0) = cache.beta_pos(threshold);
                                  cache.m_tables.array(1) = -threshold * cache.m_tables.array(0);""",
         new="""                                  cache.m_tables.array(0) = cache.beta_pos(threshold);
                                  cache.m_tables.array(1) = threshold * cache.m_tables.array(0);"""),
    dict(property="C10", name="affine-predict-overwrites", rule="R-C10-4", file="src/wlearner/affine.cpp",
         old="{ outputs.vector(i) += w * value + b; });", new="{ outputs.vector(i) = w * value + b; });"),
    dict(property="C10", name="loop-sclass-accepts-missing", rule="R-C10-5", file="include/nano/wlearner/util.h", tu="src/wlearner/table.cpp",
         old="                          if (const auto value = fvalues(i); value >= 0)", new="                          if (const auto value = fvalues(i); value >= -1)"),
    dict(property="C10", name="scale-skips-first-table", rule="R-C10-6", file="src/wlearner/util.cpp",
         old="    for (tensor_size_t i = 0; i < tables.size<0>(); ++i)\n    {\n        tables.array(i) *=", new="    for (tensor_size_t i = 1; i < tables.size<0>(); ++i)\n    {\n        tables.array(i) *="),
    dict(property="C10", name="kbest-hashes-in-score-order", rule="R-C10-7", file="src/wlearner/table.cpp",
         old="                std::sort(std::begin(kbins), std::end(kbins));\n", new=""),
    dict(property="C10", name="table-merge-ignores-hash2tables", rule="R-C10-8", file="src/wlearner/table.cpp",
         old="        if (hashes() == pother->hashes() && hash2tables() == pother->hash2tables())", new="        if (hashes() == pother->hashes())"),
    dict(property="C10", name="merge-ignores-feature", rule="R-C10-8", file="src/wlearner/single.cpp",
         old="    if (m_feature == feature && m_tables.dims() == tables.dims())", new="    if (m_tables.dims() == tables.dims())"),
    # ---- C18
    dict(property="C18", name="tune-warm-start-from-running-batch", rule="R-C18-4", file="src/machine/tune.cpp",
         old="const auto closest_trial = result.closest_trial(params, old_trials);", new="const auto closest_trial = result.closest_trial(params, old_trials + trial);"),
    dict(property="C18", name="tune-slots-allocated-after-tasks", rule="R-C18-4", file="src/machine/tune.cpp",
         old="""        result.add(new_params);

        const auto thread_callback""", new="""        const auto thread_callback"""),
    dict(property="C18", name="solver-mutable-call-counter", rule="R-C18-1", file="include/nano/solver.h", tu="src/solver.cpp",
         old="    solver_type m_type{solver_type::line_search}; ///<", new="    solver_type m_type{solver_type::line_search}; ///<\n    mutable tensor_size_t m_minimize_calls{0};"),
    dict(property="C18", name="loss-mutable-scratch-buffer", rule="R-C18-1", file="include/nano/loss.h", tu="src/loss.cpp",
         old="    bool m_smooth{false}; ///< whether the loss function is smooth (otherwise subgradients should be used)",
         new="    bool m_smooth{false}; ///< whether the loss function is smooth (otherwise subgradients should be used)\n    mutable tensor4d_t m_scratch;"),
    dict(property="C18", name="solver-configures-shared-prototype", rule="R-C18-1", file="src/solver.cpp",
         old="""    lsearch0->parameter("lsearch0::epsilon")   = parameter("solver::epsilon").value<scalar_t>();""",
         new="""    m_lsearch0->parameter("lsearch0::epsilon") = parameter("solver::epsilon").value<scalar_t>();"""),
    dict(property="C18", name="solver-hands-out-prototype", rule="R-C18-5", file="src/solver.cpp",
         old="""    auto lsearchk = m_lsearchk->clone();""", new="""    auto lsearchk = m_lsearchk->clone();
    m_lsearchk->parameter("lsearchk::tolerance") = parameter("solver::tolerance").value_pair<scalar_t>();"""),
    dict(property="C18", name="solver-static-call-counter", rule="R-C18-2", file="src/solver.cpp",
         old="    function.clear_statistics();\n\n    return do_minimize(function, x0, logger);",
         new="    function.clear_statistics();\n    static tensor_size_t calls = 0;\n    ++calls;\n\n    return do_minimize(function, x0, logger);"),
    dict(property="C18", name="gd-static-line-search", rule="R-C18-2", file="src/solver/gd.cpp",
         old="    auto lsearch = make_lsearch();", new="    static auto lsearch = make_lsearch();"),
    dict(property="C18", name="gboost-evaluate-writes-whole-values", rule="R-C18-3", file="src/gboost/util.cpp",
         old="            loss.value(targets, outputs.slice(range), values.tensor(1).slice(range));", new="            loss.value(targets, outputs.slice(range), values.tensor(1).slice(0, range.size()));"),
    dict(property="C18", name="linear-function-shared-accumulator", rule="R-C18-3", file="src/linear/function.cpp",
         old="auto& accumulator = m_accumulators[tnum];", new="auto& accumulator = m_accumulators[0];"),
    dict(property="C18", name="select-iterator-shared-buffer", rule="R-C18-3", file="src/dataset/iterator.cpp",
         old="                callback(ifeature, tnum, dataset().select(samples, ifeature, m_buffers[tnum].m_scalar));", new="                callback(ifeature, tnum, dataset().select(samples, ifeature, m_buffers[0].m_scalar));"),
    dict(property="C18", name="solver-const-cast-this", rule="R-C18-1", file="src/solver.cpp",
         old="    function.clear_statistics();\n\n    return do_minimize(function, x0, logger);",
         new="    function.clear_statistics();\n    const_cast<solver_t*>(this)->m_type = m_type;\n\n    return do_minimize(function, x0, logger);"),
    dict(property="C18", name="factory-populated-outside-call-once", rule="R-C18-2", file="src/loss.cpp",
         old="    static std::once_flag flag;\n    std::call_once(flag, op);", new="    op();"),
    dict(property="C18", name="gboost-folds-share-one-targets-iterator", rule="R-C18-6", file="src/gboost/model.cpp",
         old="""    // tune hyper-parameters (if any)
    const auto callback = [&](const indices_t& train_samples, const indices_t& valid_samples,
                              const tensor1d_cmap_t params, const std::any&, const logger_t& logger)
    {
""",
         new="""    auto shared_iterator = targets_iterator_t{dataset, samples};
    // tune hyper-parameters (if any)
    const auto callback = [&](const indices_t& train_samples, const indices_t& valid_samples,
                              const tensor1d_cmap_t params, const std::any&, const logger_t& logger)
    {
        shared_iterator.loop([&](tensor_range_t, size_t, tensor4d_cmap_t) {});
"""),
    # ---- C12
    dict(property="C12", name="kfold-last-fold-drops-remainder", rule="R-C12-1", file="src/splitter/kfold.cpp",
         old="const auto valid_end   = (fold + 1 < folds) ? (valid_begin + chunk) : samples.size();", new="const auto valid_end   = valid_begin + chunk;"),
    dict(property="C12", name="kfold-chunk-rounded-up", rule="R-C12-1", file="src/splitter/kfold.cpp",
         old="const auto chunk       = samples.size() / folds;", new="const auto chunk       = (samples.size() + folds - 1) / folds;"),
    dict(property="C12", name="kfold-train-tail-overlaps-validation", rule="R-C12-1", file="src/splitter/kfold.cpp",
         old="            world.segment(valid_end, world.size() - valid_end);", new="            world.segment(valid_begin, world.size() - valid_end);"),
    dict(property="C12", name="kfold-validation-not-sorted", rule="R-C12-3", file="src/splitter/kfold.cpp",
         old="        std::sort(std::begin(valid), std::end(valid));\n", new=""),
    dict(property="C12", name="kfold-unseeded-rng", rule="R-C12-4", file="src/splitter/kfold.cpp",
         old="std::shuffle(std::begin(samples), std::end(samples), make_rng(seed));", new="std::shuffle(std::begin(samples), std::end(samples), make_rng());"),
    dict(property="C12", name="random-validation-overlaps-training", rule="R-C12-2", file="src/splitter/random.cpp",
         old="valid.vector() = samples.vector().segment(train_size, valid_size);", new="valid.vector() = samples.vector().segment(0, valid_size);"),
    dict(property="C12", name="random-train-size-truncated", rule="R-C12-2", file="src/splitter/random.cpp",
         old="const auto train_size = idiv(train_perc * samples.size(), 100);", new="const auto train_size = train_perc * samples.size() / 100;"),
    dict(property="C12", name="random-seed-from-folds", rule="R-C12-4", file="src/splitter/random.cpp",
         old="    auto rng = make_rng(seed);", new="    auto rng = make_rng(static_cast<uint64_t>(folds));"),
    dict(property="C12", name="idiv-truncates", rule="R-C12-2", file="include/nano/core/numeric.h", tu="src/splitter/random.cpp",
         old="    return (nominator + static_cast<tnominator>(denominator) / 2) / static_cast<tnominator>(denominator);", new="    return nominator / static_cast<tnominator>(denominator);"),
    dict(property="C12", name="with-replacement-position-range-too-wide", rule="R-C12-5", file="src/core/sampling.cpp",
         old="auto udist = make_udist<tensor_size_t>(0, samples.size() - 1);", new="auto udist = make_udist<tensor_size_t>(0, samples.size());"),
    dict(property="C12", name="with-replacement-not-sorted", rule="R-C12-3", file="src/core/sampling.cpp",
         old="""    std::generate(std::begin(selection), std::end(selection), [&]() { return samples(udist(rng)); });
    std::sort(std::begin(selection), std::end(selection));""", new="""    std::generate(std::begin(selection), std::end(selection), [&]() { return samples(udist(rng)); });"""),
    dict(property="C12", name="weighted-sampling-returns-position", rule="R-C12-5", file="src/core/sampling.cpp",
         old="[&]() { return samples(wdist(rng)); }", new="[&]() { return wdist(rng); }"),
    dict(property="C12", name="without-replacement-shuffles-input-view", rule="R-C12-5", file="src/core/sampling.cpp",
         old="""    auto samples = indices_t{samples_};
    std::shuffle(std::begin(samples), std::end(samples), rng);

    auto selection = samples.slice(0, count);""",
         new="""    auto samples = indices_t{samples_};
    auto selection = samples.slice(0, count);
    std::sort(std::begin(selection), std::end(selection));
    std::shuffle(std::begin(samples), std::end(samples), rng);
"""),
    dict(property="C12", name="gboost-sampler-grad-weight-by-position", rule="R-C12-6", file="src/gboost/sampler.cpp",
         old="m_weights(i) = gradients.vector(m_samples(i)).lpNorm<2>();", new="m_weights(i) = gradients.vector(i).lpNorm<2>();"),
    dict(property="C12", name="ball-normalised-by-max-norm", rule="R-C12-7", file="src/core/sampling.cpp",
         old="x.array()    = x0.array() + radius * z * x.array() / x.lpNorm<2>();", new="x.array()    = x0.array() + radius * z * x.array() / x.lpNorm<Eigen::Infinity>();"),
    dict(property="C12", name="ball-scale-above-one", rule="R-C12-7", file="src/core/sampling.cpp",
         old="const auto z = std::pow(scale_dist(rng), 1.0 / static_cast<scalar_t>(n));", new="const auto z = 1.0 + std::pow(scale_dist(rng), 1.0 / static_cast<scalar_t>(n));"),
    dict(property="C09", name="cached-flatten-returns-first-rows", rule="R-C09-6", file="src/dataset/iterator.cpp",
         old="        return m_flatten.slice(range);", new="        return m_flatten.slice(make_range(0, range.size()));"),
    dict(property="C09", name="targets-cache-filled-unscaled", rule="R-C09-6", file="src/dataset/iterator.cpp",
         old="                    m_targets.slice(range) = targets(dataset().targets(samples, m_targets_buffers[tnum]));", new="                    m_targets.slice(range) = dataset().targets(samples, m_targets_buffers[tnum]);"),
    dict(property="C09", name="flatten-cache-guard-by-columns", rule="R-C09-6", file="src/dataset/iterator.cpp",
         old="    if (m_flatten.size<0>() == samples.size())", new="    if (m_flatten.size<1>() == dataset.columns())"),
    # ---- C16
    dict(property="C16", name="index0-stride-off-by-one-dimension", rule="R-C16-1", file="include/nano/tensor/dims.h", tu="src/core/sampling.cpp",
         old="    return index * product<idim + 1>(dims) + get_index0<idim + 1>(dims, indices...);", new="    return index * product<idim>(dims) + get_index0<idim + 1>(dims, indices...);"),
    dict(property="C16", name="vector-view-extent-is-whole-tensor", rule="R-C16-1", file="include/nano/tensor/tensor.h", tu="src/core/sampling.cpp",
         old="return map_vector(ptr + offset0(indices...), ::nano::size(::nano::dims0(dims(), indices...)));", new="return map_vector(ptr + offset0(indices...), size());"),
    dict(property="C16", name="slice-extent-includes-end", rule="R-C16-1", file="include/nano/tensor/tensor.h", tu="src/core/sampling.cpp",
         old="        dimensions[0]   = end - begin;", new="        dimensions[0]   = end - begin + 1;"),
    dict(property="C16", name="reshape-inferred-dimension-sign", rule="R-C16-1", file="include/nano/tensor/tensor.h", tu="src/core/sampling.cpp",
         old="                dim = -size() / ::nano::size(dimensions);", new="                dim = size() / ::nano::size(dimensions);"),
    dict(property="C16", name="matrix-view-rows-cols-swapped", rule="R-C16-1", file="include/nano/tensor/tensor.h", tu="src/core/sampling.cpp",
         old="return map_matrix(ptr + offset0(indices...), rows(), cols());", new="return map_matrix(ptr + offset0(indices...), cols(), rows());"),
    dict(property="C16", name="dims0-drops-wrong-end", rule="R-C16-1", file="include/nano/tensor/dims.h", tu="src/core/sampling.cpp",
         old="        std::get<idim + trankx - trank>(dimsx) = std::get<idim>(dims);", new="        std::get<idim + trankx - trank>(dimsx) = std::get<idim + trankx - trank>(dims);"),
    dict(property="C16", name="owning-assignment-keeps-old-dims", rule="R-C16-3", file="include/nano/tensor/storage.h", tu="src/core/sampling.cpp",
         old="""    tensor_vector_storage_t& operator=(const tensor_marray_storage_t<tscalar, trank>& other)
    {
        eigen_vector_t<tscalar> data = map_vector(other.data(), other.size());
        tbase::_resize(other.dims());""",
         new="""    tensor_vector_storage_t& operator=(const tensor_marray_storage_t<tscalar, trank>& other)
    {
        eigen_vector_t<tscalar> data = map_vector(other.data(), other.size());
        if (size() != other.size())
            tbase::_resize(other.dims());"""),
    dict(property="C16", name="const-map-ctor-default-dims", rule="R-C16-3", file="include/nano/tensor/storage.h", tu="src/core/sampling.cpp",
         old="""    explicit tensor_carray_storage_t(const tensor_marray_storage_t<tscalar, trank>& other)
        : tbase(other.dims())
        , m_data(other.data())""",
         new="""    explicit tensor_carray_storage_t(const tensor_marray_storage_t<tscalar, trank>& other)
        : m_data(other.data())"""),
    dict(property="C16", name="mutable-map-becomes-resizable", rule="R-C16-2", file="include/nano/tensor/storage.h", tu="src/core/sampling.cpp",
         old="""    void resize(const tdims&) = delete;

    auto data() const { return m_data; }

private:
    template <class tstorage>
    void copy(const tstorage& other)""",
         new="""    void resize(const tdims& dims) { tbase::_resize(dims); }

    auto data() const { return m_data; }

private:
    template <class tstorage>
    void copy(const tstorage& other)"""),
    dict(property="C16", name="integral-base-reads-previous-input", rule="R-C16-4", file="include/nano/tensor/integral.h", tu="src/core/sampling.cpp",
         old="            otensor(i0) = otensor(i0 - 1) + itensor(i0);", new="            otensor(i0) = otensor(i0 - 1) + itensor(i0 - 1);"),
    dict(property="C16", name="integral-recursion-skips-second-row", rule="R-C16-4", file="include/nano/tensor/integral.h", tu="src/core/sampling.cpp",
         old="            if (i0 > 0)\n            {\n                otensor.vector(i0) += otensor.vector(i0 - 1);", new="            if (i0 > 1)\n            {\n                otensor.vector(i0) += otensor.vector(i0 - 1);"),
    dict(property="C16", name="integral-accumulates-in-input-type", rule="R-C16-4", file="include/nano/tensor/integral.h", tu="src/core/sampling.cpp",
         old="            otensor(i0) = otensor(i0 - 1) + itensor(i0);", new="            otensor(i0) = static_cast<tscalaro>(static_cast<tscalari>(static_cast<tscalari>(otensor(i0 - 1)) + itensor(i0)));"),
    dict(property="C16", name="remove-if-copies-backwards", rule="R-C16-5", file="include/nano/tensor/algorithm.h", tu="src/solver/gsample/sampler.cpp",
         old="            (detail::copy(curr, last, tensors), ...);", new="            (detail::copy(last, curr, tensors), ...);"),
    dict(property="C16", name="remove-if-skips-after-first-kept", rule="R-C16-5", file="include/nano/tensor/algorithm.h", tu="src/solver/gsample/sampler.cpp",
         old="    for (auto curr = last; curr < size; ++curr)", new="    for (auto curr = last + 2; curr < size; ++curr)"),
    dict(property="C16", name="indexed-copies-row-i", rule="R-C16-5", file="include/nano/tensor/tensor.h", tu="src/solver/gsample/sampler.cpp",
         old="                subtensor.vector(i) = vector(indices(i)).template cast<tscalar_return>();", new="                subtensor.vector(i) = vector(i).template cast<tscalar_return>();"),
    dict(property="C16", name="stack-vector-next-offset", rule="R-C16-5", file="include/nano/tensor/stack.h", tu="src/program/util.cpp",
         old="        stack(vector, row + block.size(), blocks...);", new="        stack(vector, row + 1, blocks...);"),
    dict(property="C16", name="stack-matrix-wraps-late", rule="R-C16-5", file="include/nano/tensor/stack.h", tu="src/program/util.cpp",
         old="            if (col + block_cols >= matrix.cols())", new="            if (col + block_cols > matrix.cols())"),
    dict(property="C20", name="percentile-position-divides-first", rule="R-C20-3", file="include/nano/core/stats.h", tu="src/core/histogram.cpp",
         old="    const double position = percentage * static_cast<double>(size - 1) / 100.0;", new="    const double ratio    = percentage / 100.0;\n    const double position = ratio * static_cast<double>(size - 1);"),
    # NB: this edit used to be listed as benign (it is algebraically the same); seed C20-2 showed it is not: p/100 is rounded first
    dict(property="C20", name="percentile-position-reordered", rule="R-C20-3", file="include/nano/core/stats.h", tu="src/core/histogram.cpp",
         old="const double position = percentage * static_cast<double>(size - 1) / 100.0;", new="const double position = static_cast<double>(size - 1) * (percentage / 100.0);"),
    dict(property="C19", name="enum-lookup-prefix-only", rule="R-C19-7", file="include/nano/core/strutil.h", tu="src/parameter.cpp",
         old="""        for (const auto& option : options)
        {
            if (option.second == str)
            { // cppcheck-suppress useStlAlgorithm
                return option.first;
            }
        }
""", new=""),
    dict(property="C19", name="enum-map-duplicate-name", rule="R-C19-7", file="include/nano/wlearner/criterion.h", tu="src/wlearner/stump.cpp",
         old="""        { wlearner_criterion::bic,  "bic"}""", new="""        { wlearner_criterion::bic,  "aic"}"""),
    dict(property="C15", name="hash-double-as-32-bits", rule="R-C15-6", file="include/nano/core/hash.h", tu="src/feature.cpp",
         old="                hash = hash_combine(hash, reinterpret_cast<const uint64_t&>(data[i]));", new="                hash = hash_combine(hash, reinterpret_cast<const uint32_t&>(data[i]));"),
    dict(property="C15", name="hash-skips-last-element", rule="R-C15-6", file="include/nano/core/hash.h", tu="src/feature.cpp",
         old="    for (tsize i = 0; i < size; ++i)\n    {\n        if constexpr (std::is_floating_point_v<tscalar>)", new="    for (tsize i = 0; i + 1 < size; ++i)\n    {\n        if constexpr (std::is_floating_point_v<tscalar>)"),
    # ---- C09
    dict(property="C09", name="linear-accumulator-sum-drops-gW1", rule="R-C09-2", file="src/linear/accumulator.cpp",
         old="    m_gW1 += other.m_gW1;\n", new=""),
    dict(property="C09", name="linear-accumulator-clear-forgets-vm1", rule="R-C09-2", file="src/linear/accumulator.cpp",
         old="    m_vm1 = 0.0;\n    m_gb1.zero();", new="    m_gb1.zero();"),
    dict(property="C09", name="linear-loop-uses-accumulator-zero", rule="R-C09-3", file="src/linear/function.cpp",
         old="auto& accumulator = m_accumulators[tnum];", new="auto& accumulator = m_accumulators[0];"),
    dict(property="C09", name="linear-normalises-by-batch", rule="R-C09-1", file="src/linear/function.cpp",
         old="::nano::sum_reduce(m_accumulators, m_iterator.samples().size());", new="::nano::sum_reduce(m_accumulators, m_iterator.batch());"),
    dict(property="C09", name="linear-l1-gradient-not-averaged", rule="R-C09-4", file="src/linear/function.cpp",
         old="gW.array() += m_l1reg * W.array().sign() / W.size();", new="gW.array() += m_l1reg * W.array().sign();"),
    dict(property="C09", name="linear-l2-value-without-half", rule="R-C09-4", file="src/linear/function.cpp",
         old="fx += 0.5 * (std::sqrt(m_l2reg) * W.array()).square().mean();", new="fx += (std::sqrt(m_l2reg) * W.array()).square().mean();"),
    dict(property="C09", name="gboost-scale-values-not-sliced-by-range", rule="R-C09-3", file="src/gboost/function.cpp",
         old="""            auto values = m_values.slice(range);
            m_loss.value(targets, outputs, values);
            accumulator.update(values);

            if (gx.size() == x.size())""",
         new="""            auto values = m_values.slice(make_range(0, range.size()));
            m_loss.value(targets, outputs, values);
            accumulator.update(values);

            if (gx.size() == x.size())"""),
    dict(property="C09", name="reduce-skips-last-accumulator", rule="R-C09-1", file="include/nano/core/reduce.h", tu="src/linear/function.cpp",
         old="for (size_t i = 1; i < accumulators.size(); ++i)", new="for (size_t i = 1; i + 1 < accumulators.size(); ++i)"),
    dict(property="C09", name="reduce-does-not-normalise", rule="R-C09-1", file="include/nano/core/reduce.h", tu="src/linear/function.cpp",
         old="    return (accumulator0 /= samples);", new="    return accumulator0;"),
    dict(property="C09", name="iterator-loop-shifts-range", rule="R-C09-5", file="src/dataset/iterator.cpp",
         old="""            const auto range = make_range(begin, end);

            callback(range, tnum, targets(tnum, range));""",
         new="""            const auto range = make_range(begin, std::min(end + 1, samples().size()));

            callback(range, tnum, targets(tnum, range));"""),
]

BENIGN = [
    dict(property="C07", name="get-initial-step-if-form", file="src/lsearchk.cpp",
         old='    step_size = std::isfinite(step_size) ? std::clamp(step_size, stpmin(), 1.0) : scalar_t(1);',
         new="""    if (!std::isfinite(step_size))
    {
        step_size = 1.0;
    }
    step_size = std::min(std::max(step_size, stpmin()), 1.0);"""),
    dict(property="C13", name="trial-value-backward-loop", file="src/machine/result.cpp",
         old='    auto sum_mean = 0.0;\n    for (tensor_size_t fold = 0, folds = this->folds(); fold < folds; ++fold)\n    {\n        const auto stats = this->stats(trial, fold, split, value);\n        sum_mean += stats.m_mean;\n    }\n\n    return sum_mean / static_cast<scalar_t>(folds());', new='    const auto nfolds = this->folds();\n    scalar_t   total  = 0;\n    for (tensor_size_t f = nfolds; f > 0; --f)\n    {\n        total = total + this->stats(trial, f - 1, split, value).m_mean;\n    }\n    const auto average = total / static_cast<scalar_t>(nfolds);\n    return average;'),
    dict(property="C14", name="flatten-mask-hoisted-lookup", file="src/dataset/stats.cpp",
         old='    for (tensor_size_t column = 0; column < enable_scaling.size(); ++column)\n    {\n        const auto ifeature    = dataset.column2feature(column);\n        const auto feature     = dataset.feature(ifeature);\n        const auto isclass     = feature.is_sclass() || feature.is_mclass();\n        enable_scaling(column) = isclass ? 0x00 : 0x01;\n    }', new='    auto scalable       = false;\n    for (tensor_size_t column = 0, ifeature = -1; column < enable_scaling.size(); ++column)\n    {\n        if (const auto jfeature = dataset.column2feature(column); jfeature != ifeature)\n        {\n            ifeature = jfeature;\n            const auto feature = dataset.feature(ifeature);\n            scalable           = !feature.is_sclass() && !feature.is_mclass();\n        }\n        enable_scaling(column) = scalable ? 0x01 : 0x00;\n    }'),
    dict(property="C08", name="shuffled-backward-loop", file="src/generator.cpp",
         old='    auto shuffled = indices_t{samples.size()};\n    for (tensor_size_t i = 0; i < samples.size(); ++i)\n    {\n        assert(samples(i) >= 0 && samples(i) < shuffled_all_samples.size());\n        shuffled(i) = shuffled_all_samples(samples(i));\n    }\n\n    return shuffled;', new='    const auto count  = samples.size();\n    auto       mapped = indices_t{count};\n    for (tensor_size_t k = count; k > 0; --k)\n    {\n        const auto sample = samples(k - 1);\n        mapped(k - 1)     = shuffled_all_samples(sample);\n    }\n    return mapped;'),
    dict(property="C18", name="select-loop-one-chunk-per-worker-ceil", file="src/dataset/iterator.cpp",
         old='    return std::max(tensor_size_t{1}, idiv(features.size(), concurrency));\n}\n', new='    return std::max(tensor_size_t{1}, idiv(features.size(), concurrency));\n}\n\nauto features_of_thread(const indices_cmap_t& features, const size_t concurrency, const tensor_size_t chunk)\n{\n    const auto chunksize = (features.size() + static_cast<tensor_size_t>(concurrency) - 1) / static_cast<tensor_size_t>(concurrency);\n    const auto begin     = std::min(chunk * chunksize, features.size());\n    const auto end       = std::min(begin + chunksize, features.size());\n    return make_range(begin, end);\n}\n', more=[('    map(features.size(), features_per_thread(features, concurrency()),\n        [&](const tensor_size_t begin, const tensor_size_t end, const size_t tnum)\n        {\n            assert(tnum < m_buffers.size());\n            for (tensor_size_t index = begin; index < end; ++index)\n            {\n                const auto ifeature = features(index);\n                callback(ifeature, tnum, dataset().select(samples, ifeature, m_buffers[tnum].m_sclass));', '    map(static_cast<tensor_size_t>(concurrency()),\n        [&](const tensor_size_t chunk, const size_t tnum)\n        {\n            assert(tnum < m_buffers.size());\n            const auto range = features_of_thread(features, concurrency(), chunk);\n            for (tensor_size_t index = range.begin(); index < range.end(); ++index)\n            {\n                const auto ifeature = features(index);\n                callback(ifeature, tnum, dataset().select(samples, ifeature, m_buffers[tnum].m_sclass));')]),
    dict(property="C15", name="factory-reader-early-return-nullptr-test", file="include/nano/core/stream.h", tu="src/gboost/model.cpp",
         old='    std::string type_id;\n    if (!::nano::read(stream, type_id))\n    {\n        stream.setstate(std::ios_base::failbit);\n    }\n\n    object = tobject::all().get(type_id);\n    if (!object)\n    {\n        stream.setstate(std::ios_base::failbit);\n        return stream;\n    }\n', new='    std::string type_id;\n    if (!::nano::read(stream, type_id))\n    {\n        stream.setstate(std::ios_base::failbit);\n        return stream;\n    }\n\n    object = tobject::all().get(type_id);\n    if (object == nullptr)\n    {\n        stream.setstate(std::ios_base::failbit);\n        return stream;\n    }\n'),
    dict(property="C09", name="sum-reduce-backward-loop", file="include/nano/core/reduce.h", tu="src/linear/function.cpp",
         old='    auto& accumulator0 = accumulators[0];\n    for (size_t i = 1; i < accumulators.size(); ++i)\n    {\n        accumulator0 += accumulators[i];\n    }\n    return (accumulator0 /= samples);', new='    for (size_t k = accumulators.size(); k > 1; --k)\n    {\n        accumulators[0] += accumulators[k - 1];\n    }\n    accumulators[0] /= samples;\n    return accumulators[0];'),
    dict(property="C20", name="percentile-select-once-second-selection", file="include/nano/core/stats.h", tu="src/wlearner/util.cpp",
         old='    if (lpos == rpos)\n    {\n        return from_position(lpos);\n    }\n    else\n    {\n        const auto lvalue = from_position(lpos);\n        const auto rvalue = from_position(rpos);\n        return (lvalue + rvalue) / 2;\n    }', new='    const auto left   = from_position(lpos);\n    const auto lvalue = static_cast<double>(*left);\n    if (lpos == rpos)\n    {\n        return lvalue;\n    }\n    else\n    {\n        const auto rvalue = static_cast<double>(*std::next(left));\n        return (lvalue + rvalue) / 2;\n    }', more=[('        std::nth_element(begin, middle, end);\n        return static_cast<double>(*middle);', '        std::nth_element(begin, middle, end);\n        if (std::next(middle) != end)\n        {\n            std::nth_element(std::next(middle), std::next(middle), end);\n        }\n        return middle;'), ('        std::advance(middle, pos);\n        return static_cast<double>(*middle);', '        std::advance(middle, pos);\n        return middle;')]),
    dict(property="C10", name="hinge-midpoint-other-spelling", file="src/wlearner/hinge.cpp",
         old="const auto threshold = 0.5 * (ivalue1.first + ivalue2.first);", new="const auto threshold = ivalue1.first + (ivalue2.first - ivalue1.first) / 2.0;"),
    dict(property="C10", name="stump-midpoint-other-spelling", file="src/wlearner/stump.cpp",
         old="cache.m_threshold       = 0.5 * (ivalue1.first + ivalue2.first);", new="cache.m_threshold       = (ivalue1.first + ivalue2.first) / 2.0;"),
    dict(property="C04", name="reduce-rank-named-toprows", file="src/program/util.cpp",
         old='    A = U.transpose().block(0, 0, dd.rank(), U.rows()) * L.transpose() * P;', new="    const auto rank = dd.rank();\n    const auto Ut   = U.transpose().eval();\n    A = Ut.topRows(rank) * L.transpose() * P;"),
    dict(property="C07", name="get-descent-test-inlined", file="src/lsearchk.cpp",
         old="    if (!state.has_descent(descent))", new="    if (const auto dg0 = state.dg(descent); !(dg0 < 0.0))"),
    dict(property="C07", name="lemarechal-swap-operands", file="src/lsearchk/lemarechal.cpp",
         old="if (R.t < epsilon0<scalar_t>())", new="if (epsilon0<scalar_t>() > R.t)"),
    dict(property="C07", name="backtrack-rename-and-temp", file="src/lsearchk/backtrack.cpp",
         old="""        if (state.has_armijo(state0, descent, step_size, c1))
        {
            return {true, step_size};
        }""",
         new="""        const auto accepted = state.has_armijo(state0, descent, step_size, c1);
        logger.info("accepted=", accepted);
        if (state.has_armijo(state0, descent, step_size, c1))
        {
            return {true, step_size};
        }"""),
    dict(property="C07", name="armijo-predicate-reordered", file="src/solver/state.cpp",
         old="return m_fx <= origin.fx() + step_size * c1 * origin.dg(descent);", new="return origin.fx() + c1 * origin.dg(descent) * step_size >= m_fx;"),
    dict(property="C17", name="map-grouped-tasks-round-up", file="include/nano/core/parallel.h", tu="src/core/parallel.cpp",
         old='            section_t section;\n            section.reserve(static_cast<size_t>((elements + chunksize - 1) / chunksize));\n            {\n                const std::scoped_lock lock(m_queue.m_mutex);\n                for (tsize begin = 0; begin < elements; begin += chunksize)\n                {\n                    const auto end = std::min(begin + chunksize, elements);\n                    section.emplace_back(\n                        m_queue.enqueue_no_lock([op, begin, end](const size_t tnum) { op(begin, end, tnum); }));\n                }\n            }',
         new='            const auto chunks    = (elements + chunksize - 1) / chunksize;\n            const auto groupsize = std::max(tsize(1), chunks / static_cast<tsize>(4U * size()));\n            const auto tasksize  = groupsize * chunksize;\n            const auto tasks     = (chunks + groupsize - 1) / groupsize;\n\n            section_t section;\n            section.reserve(static_cast<size_t>(tasks));\n            {\n                const std::scoped_lock lock(m_queue.m_mutex);\n                for (tsize task = 0; task < tasks; ++task)\n                {\n                    const auto tbegin = task * tasksize;\n                    const auto tend   = std::min(tbegin + tasksize, elements);\n                    section.emplace_back(m_queue.enqueue_no_lock(\n                        [op, tbegin, tend, chunksize](const size_t tnum)\n                        {\n                            for (auto begin = tbegin; begin < tend; begin += chunksize)\n                            {\n                                op(begin, std::min(begin + chunksize, tend), tnum);\n                            }\n                        }));\n                }\n            }'),
    dict(property="C09", name="map-grouped-tasks-round-up", file="include/nano/core/parallel.h", tu="src/core/parallel.cpp",
         old='            section_t section;\n            section.reserve(static_cast<size_t>((elements + chunksize - 1) / chunksize));\n            {\n                const std::scoped_lock lock(m_queue.m_mutex);\n                for (tsize begin = 0; begin < elements; begin += chunksize)\n                {\n                    const auto end = std::min(begin + chunksize, elements);\n                    section.emplace_back(\n                        m_queue.enqueue_no_lock([op, begin, end](const size_t tnum) { op(begin, end, tnum); }));\n                }\n            }',
         new='            const auto chunks    = (elements + chunksize - 1) / chunksize;\n            const auto groupsize = std::max(tsize(1), chunks / static_cast<tsize>(4U * size()));\n            const auto tasksize  = groupsize * chunksize;\n            const auto tasks     = (chunks + groupsize - 1) / groupsize;\n\n            section_t section;\n            section.reserve(static_cast<size_t>(tasks));\n            {\n                const std::scoped_lock lock(m_queue.m_mutex);\n                for (tsize task = 0; task < tasks; ++task)\n                {\n                    const auto tbegin = task * tasksize;\n                    const auto tend   = std::min(tbegin + tasksize, elements);\n                    section.emplace_back(m_queue.enqueue_no_lock(\n                        [op, tbegin, tend, chunksize](const size_t tnum)\n                        {\n                            for (auto begin = tbegin; begin < tend; begin += chunksize)\n                            {\n                                op(begin, std::min(begin + chunksize, tend), tnum);\n                            }\n                        }));\n                }\n            }'),
    dict(property="C17", name="dtor-drains-queue-notify-all-everywhere", file="src/core/parallel.cpp",
         old='            task = std::move(m_queue.m_tasks.front());\n            m_queue.m_tasks.pop_front();\n', new='            task = std::move(m_queue.m_tasks.front());\n            m_queue.m_tasks.pop_front();\n\n            if (m_queue.m_tasks.empty())\n            {\n                m_queue.m_condition.notify_all();\n            }\n', more=[('        const std::scoped_lock lock(m_queue.m_mutex);\n        m_queue.m_stop = true;', '        std::unique_lock lock(m_queue.m_mutex);\n        m_queue.m_condition.wait(lock, [&] { return m_queue.m_tasks.empty(); });\n        m_queue.m_stop = true;')], also=[("include/nano/core/parallel.h", "        m_condition.notify_one();", "        m_condition.notify_all();")]),
    dict(property="C17", name="notify-one-to-all", file="include/nano/core/parallel.h",
         old="m_condition.notify_one();", new="m_condition.notify_all();"),
    dict(property="C17", name="worker-extra-log-and-scope", file="src/core/parallel.cpp",
         old="            task = std::move(m_queue.m_tasks.front());", new="            auto& tasks = m_queue.m_tasks; (void)tasks;\n            task = std::move(m_queue.m_tasks.front());"),
    dict(property="C17", name="map-notify-under-lock", file="include/nano/core/parallel.h", tu="src/core/parallel.cpp",
         old="""                    section.emplace_back(m_queue.enqueue_no_lock([op, index](const size_t tnum) { op(index, tnum); }));
                }
            }
            m_queue.m_condition.notify_all();
""", new="""                    section.emplace_back(m_queue.enqueue_no_lock([op, index](const size_t tnum) { op(index, tnum); }));
                }
                m_queue.m_condition.notify_all();
            }
"""),
    dict(property="C19", name="range-check-reordered", file="src/parameter.cpp",
         old="""    critical(!::nano::isfinite(value) || !::check(param.m_mincomp, param.m_min, value) ||
                 !::check(param.m_maxcomp, value, param.m_max),""", new="""    critical(!::check(param.m_maxcomp, value, param.m_max) || !::nano::isfinite(value) ||
                 !::check(param.m_mincomp, param.m_min, value),"""),
    dict(property="C19", name="default-changed-inside-domain", file="src/lsearchk.cpp",
         old='make_integer("lsearchk::max_iterations", 1, LE, 128, LE, 10000)', new='make_integer("lsearchk::max_iterations", 1, LE, 256, LE, 10000)'),
    dict(property="C15", name="tensor-header-split-conditions", file="include/nano/tensor/stream.h",
         old="""        iversion != detail::hash_version() || static_cast<size_t>(irank) != trank ||
        static_cast<size_t>(iscalar) != sizeof(tscalar))
    {
        stream.setstate(std::ios_base::failbit);
        return stream;
    }""", new="""        iversion != detail::hash_version() || static_cast<size_t>(irank) != trank)
    {
        stream.setstate(std::ios_base::failbit);
        return stream;
    }
    if (static_cast<size_t>(iscalar) != sizeof(tscalar))
    {
        stream.setstate(std::ios_base::failbit);
        return stream;
    }"""),
    dict(property="C15", name="learner-read-two-criticals", file="src/learner.cpp",
         old="""    critical(!::nano::read(stream, m_inputs) || !::nano::read(stream, m_target),
             "learner: failed to read from stream!");""", new="""    critical(!::nano::read(stream, m_inputs), "learner: failed to read from stream!");
    critical(!::nano::read(stream, m_target), "learner: failed to read from stream!");"""),
    dict(property="C08", name="feature-guard-flipped-operands", file="src/dataset.cpp",
         old="critical(feature < 0 || feature >= features(),", new="critical(0 > feature || features() <= feature,"),
    dict(property="C20", name="bin-query-via-double-local", file="include/nano/core/histogram.h",
         old="const auto svalue = static_cast<scalar_t>(value); // NOLINT(cert-str34-c)", new="const double svalue = value;"),
    dict(property="C02", name="gsample-step-back-spelled-out", file="src/solver/gsample/lsearch.h",
         old="                    t *= m_gamma;\n                    state.update", new="                    t = m_gamma * t;\n                    state.update"),
    dict(property="C02", name="gsample-doubling-remembers-previous-step", file="src/solver/gsample/lsearch.h",
         old="""                if (t /= m_gamma, fx = function.vgrad(x = state.x() - t * d); fx >= state.fx() - t * df)
                {
                    t *= m_gamma;
                    state.update(x = state.x() - t * d);
                    return t;""",
         new="""                const auto tprev = t;
                if (t /= m_gamma, fx = function.vgrad(x = state.x() - t * d); !(fx < state.fx() - t * df))
                {
                    state.update(x = state.x() - tprev * d);
                    return tprev;"""),
    dict(property="C08", name="drop-shuffle-as-independent-bits", file="src/generator.cpp",
         old="    m_feature_infos(feature) = 0x01;", new="    m_feature_infos(feature) |= 0x01;",
         more=[("    m_feature_infos(feature) = 0x02;", "    m_feature_infos(feature) |= 0x02;"),
               ("    return m_feature_infos(feature) == 0x01;", "    return (m_feature_infos(feature) & 0x01) != 0;"),
               ("    if (m_feature_infos(feature) == 0x02)", "    if ((m_feature_infos(feature) & 0x02) != 0)")]),
    dict(property="C09", name="scale-output-branches-and-named-indices", file="src/gboost/function.cpp",
         old="""                const auto group          = m_cluster.group(samples(i));
                const auto scale          = (group < 0) ? 0.0 : x(group);
                outputs.vector(i - begin) = m_soutputs.vector(samples(i)) + scale * m_woutputs.vector(samples(i));""",
         new="""                const auto index  = i - begin;
                const auto sample = samples(i);
                const auto group  = m_cluster.group(sample);
                if (group < 0)
                {
                    outputs.vector(index) = m_soutputs.vector(sample);
                }
                else
                {
                    outputs.vector(index) = m_soutputs.vector(sample) + x(group) * m_woutputs.vector(sample);
                }"""),
    dict(property="C12", name="kfold-head-tail-copies", file="src/splitter/kfold.cpp",
         old="""        train.vector().segment(0, valid_begin) = world.segment(0, valid_begin);
        train.vector().segment(valid_begin, train.size() - valid_begin) =
            world.segment(valid_end, world.size() - valid_end);""",
         new="""        train.vector().head(valid_begin)                = world.head(valid_begin);
        train.vector().tail(train.size() - valid_begin) = world.tail(train.size() - valid_begin);"""),
    dict(property="C05", name="state-constraint-value-hoisted-negated-test", file="src/solver/state.cpp",
         old="""        if (::nano::is_equality(constraint))
        {
            m_ceq(eq) = ::vgrad(constraint, m_x, cgrad);
            m_lgx += m_meq(eq) * cgrad;
            ++eq;
        }
        else
        {
            m_cineq(ineq) = ::vgrad(constraint, m_x, cgrad);
            m_lgx += m_mineq(ineq) * cgrad;
            ++ineq;
        }""",
         new="""        const auto cvalue = ::vgrad(constraint, m_x, cgrad);
        if (!::nano::is_equality(constraint))
        {
            m_cineq(ineq) = cvalue;
            m_lgx += m_mineq(ineq) * cgrad;
            ++ineq;
        }
        else
        {
            m_ceq(eq) = cvalue;
            m_lgx += m_meq(eq) * cgrad;
            ++eq;
        }"""),
    dict(property="C20", name="histogram-update-lower-bound-default-order", file="include/nano/core/histogram.h", tu="src/machine/result.cpp",
         old="""                const auto op = [](scalar_t threshold, scalar_t value) { return value >= threshold; };
                const auto it = std::upper_bound(begin, end, m_thresholds(bin), op);""",
         new="""                const auto it = std::lower_bound(begin, end, m_thresholds(bin));"""),
    dict(property="C08", name="feature-guard-single-unsigned-comparison", file="src/dataset.cpp",
         old="    critical(feature < 0 || feature >= features(),", new="    critical(static_cast<size_t>(feature) >= static_cast<size_t>(features()),"),
    dict(property="C10", name="hinge-sweep-indexed-by-upper-value", file="src/wlearner/hinge.cpp",
         old="""                      for (size_t iv = 0, sv = cache.m_ivalues.size(); iv + 1 < sv; ++iv)
                      {
                          const auto& ivalue1 = cache.m_ivalues[iv + 0];
                          const auto& ivalue2 = cache.m_ivalues[iv + 1];""",
         new="""                      for (size_t iv = 1, sv = cache.m_ivalues.size(); iv < sv; ++iv)
                      {
                          const auto& ivalue1 = cache.m_ivalues[iv - 1];
                          const auto& ivalue2 = cache.m_ivalues[iv + 0];"""),
    dict(property="C14", name="make-scaling-guard-on-other-member", file="src/dataset/stats.cpp",
         old="    if (stats.m_min.size() > 0)\n    {\n        switch (scaling)", new="    if (0 != stats.m_samples.size())\n    {\n        switch (scaling)"),
    dict(property="C14", name="scale-mean-reassociated", file="src/dataset/stats.cpp",
         old="            array      = (array - m_mean.array()) * m_div_range.array();", new="            array      = array * m_div_range.array() - m_mean.array() * m_div_range.array();"),
    dict(property="C14", name="variance-abs-instead-of-max", file="src/dataset/stats.cpp",
         old="std::sqrt(std::max(0.0, (stats.m_stdev(i) - stats.m_mean(i) * stats.m_mean(i) / dN) / (dN - 1.0)));",
         new="std::sqrt(std::fabs((stats.m_stdev(i) - stats.m_mean(i) * stats.m_mean(i) / dN) / (dN - 1.0)));"),
    dict(property="C11", name="early-stopping-reordered-equivalent", file="src/gboost/early_stopping.cpp",
         old="""    // no significant improvement, but can wait a bit more
    else if (wlearners.size() < m_round + patience)
    {
        return false;
    }

    // no significant improvement in awhile, stop
    else
    {
        return true;
    }""", new="""    else
    {
        return !(m_round + patience > wlearners.size());
    }"""),
    dict(property="C11", name="early-stopping-merged-condition", file="src/gboost/early_stopping.cpp",
         old="else if (valid_value < m_value - epsilon || valid_samples.size() == 0)", new="else if (valid_samples.size() == 0 || valid_value + epsilon < m_value)"),
    dict(property="C13", name="budget-min-with-constant", file="src/tuner/local.cpp",
         old="for (; !steps.empty() && steps.size() < max_evals;)", new="for (; !steps.empty() && steps.size() < std::min(max_evals, size_t{500});)"),
    dict(property="C13", name="budget-halved", file="src/tuner/surrogate.cpp",
         old="for (; !steps.empty() && steps.size() < max_evals;)", new="for (; steps.size() < max_evals / 2 && !steps.empty();)"),
    dict(property="C13", name="optimum-non-strict", file="src/machine/result.cpp",
         old="""        const auto value = this->value(trial);
        if (value < best_value)""", new="""        const auto value = this->value(trial);
        if (value <= best_value)"""),
    dict(property="C02", name="sgm-triple-via-copies", file="src/solver/sgm.cpp",
         old="""        const auto f = function.vgrad(x, g);
        state.update_if_better(x, g, f);""", new="""        const auto f = function.vgrad(x, g);
        const auto fcopy = f;
        state.update_if_better(x, g, fcopy);"""),
    dict(property="C02", name="gd-budget-operands-swapped", file="src/solver/gd.cpp",
         old="    while (function.fcalls() + function.gcalls() < max_evals)", new="    while (function.gcalls() + function.fcalls() < max_evals)"),
    dict(property="C01", name="lbfgs-flag-inlined", file="src/solver/lbfgs.cpp",
         old="""        const auto converged = cstate.gradient_test() < epsilon;
        if (solver_t::done(cstate, iter_ok, converged, logger))""", new="""        if (solver_t::done(cstate, iter_ok, cstate.gradient_test() < epsilon, logger))"""),
    dict(property="C01", name="criterion-via-maxcoeff", file="src/solver/state.cpp",
         old="return gx.lpNorm<Eigen::Infinity>() / std::max(scalar_t(1), std::fabs(m_fx));", new="return gx.array().abs().maxCoeff() / std::max(std::fabs(m_fx), scalar_t(1));"),
    dict(property="C03", name="threshold-at-partition-point", file="src/solver/bundle.cpp",
         old="thres = m_alphas(std::min(count, size() - count))", new="thres = m_alphas(size() - count)"),
    dict(property="C03", name="econverged-tolerance-reordered", file="src/solver/bundle.cpp",
         old="""    const auto tol = epsilon * std::sqrt(static_cast<scalar_t>(m_x.size()));

    return smeared_e() <= tol;""", new="""    const auto tol = epsilon * std::sqrt(static_cast<scalar_t>(m_x.size()));
    const auto err = smeared_e();
    (void)err;

    return smeared_e() <= tol;"""),
    dict(property="C04", name="done-threshold-operands-swapped", file="src/program/solver.cpp",
         old="if (feasible && std::max({state.m_eta, state.m_rdual.lpNorm<2>(), state.m_rprim.lpNorm<2>()}) < epsilon)",
         new="if (feasible && std::max({state.m_rprim.lpNorm<2>(), state.m_eta, state.m_rdual.lpNorm<2>()}) < epsilon)"),
    dict(property="C05", name="quadratic-penalty-reordered", file="src/function/penalty.cpp",
         old="            gx += penalty() * 2.0 * fc * gc;", new="            gx += 2.0 * fc * penalty() * gc;"),
    dict(property="C05", name="al-value-expanded", file="src/function/penalty.cpp",
         old="            fx += 0.5 * ro * (fc + mu / ro) * (fc + mu / ro);", new="            fx += 0.5 * ro * fc * fc + fc * mu + 0.5 * mu * mu / ro;"),
    dict(property="C06", name="mse-value-reassociated", file="include/nano/loss/flatten.h",
         old="return scalar_t(0.5) * (output - target).square().sum();", new="return ((target - output).square() * scalar_t(0.5)).sum();"),
    dict(property="C09", name="linear-reduce-count-hoisted", file="src/linear/function.cpp",
         old="    const auto& accumulator = ::nano::sum_reduce(m_accumulators, m_iterator.samples().size());",
         new="    const auto samples = m_iterator.samples().size();\n    const auto& accumulator = ::nano::sum_reduce(m_accumulators, samples);"),
    dict(property="C09", name="linear-l2-value-rewritten", file="src/linear/function.cpp",
         old="fx += 0.5 * (std::sqrt(m_l2reg) * W.array()).square().mean();", new="fx += 0.5 * m_l2reg * W.array().square().sum() / static_cast<scalar_t>(W.size());"),
    dict(property="C20", name="histogram-ctor-sorts-values-only-if-needed", file="include/nano/core/histogram.h", tu="src/core/histogram.cpp",
         old="        std::sort(begin, end);\n        std::sort(std::begin(m_thresholds), std::end(m_thresholds));\n\n        update(begin, end);",
         new="        if (!std::is_sorted(begin, end))\n        {\n            std::sort(begin, end);\n        }\n        std::sort(std::begin(m_thresholds), std::end(m_thresholds));\n\n        update(begin, end);"),
    dict(property="C16", name="slice-extent-via-std-get", file="include/nano/tensor/tensor.h", tu="src/core/sampling.cpp",
         old="        dimensions[0]   = end - begin;", new="        std::get<0>(dimensions) = end - begin;"),
    dict(property="C16", name="index-stride-operands-swapped", file="include/nano/tensor/dims.h", tu="src/core/sampling.cpp",
         old="    return index * product<idim + 1>(dims) + get_index<idim + 1>(dims, indices...);", new="    return get_index<idim + 1>(dims, indices...) + product<idim + 1>(dims) * index;"),
    dict(property="C16", name="owning-assignment-resize-after-swap", file="include/nano/tensor/storage.h", tu="src/core/sampling.cpp",
         old="""    tensor_vector_storage_t& operator=(const tensor_marray_storage_t<tscalar, trank>& other)
    {
        eigen_vector_t<tscalar> data = map_vector(other.data(), other.size());
        tbase::_resize(other.dims());
        std::swap(data, m_data);""",
         new="""    tensor_vector_storage_t& operator=(const tensor_marray_storage_t<tscalar, trank>& other)
    {
        eigen_vector_t<tscalar> data = map_vector(other.data(), other.size());
        std::swap(data, m_data);
        tbase::_resize(other.dims());"""),
    dict(property="C16", name="owning-ctor-uses-own-size", file="include/nano/tensor/storage.h", tu="src/core/sampling.cpp",
         old="""    explicit tensor_vector_storage_t(const tensor_marray_storage_t<tscalar, trank>& other)
        : tbase(other.dims())
        , m_data(map_vector(other.data(), other.size()))""",
         new="""    explicit tensor_vector_storage_t(const tensor_marray_storage_t<tscalar, trank>& other)
        : tbase(other.dims())
        , m_data(map_vector(other.data(), size()))"""),
    dict(property="C12", name="kfold-valid-end-rewritten", file="src/splitter/kfold.cpp",
         old="const auto valid_end   = (fold + 1 < folds) ? (valid_begin + chunk) : samples.size();", new="const auto valid_end   = (fold + 1 == folds) ? samples.size() : ((fold + 1) * chunk);"),
    dict(property="C12", name="kfold-sorts-swapped", file="src/splitter/kfold.cpp",
         old="""        std::sort(std::begin(train), std::end(train));
        std::sort(std::begin(valid), std::end(valid));""", new="""        std::sort(std::begin(valid), std::end(valid));
        std::sort(std::begin(train), std::end(train));"""),
    dict(property="C12", name="random-valid-size-inlined", file="src/splitter/random.cpp",
         old="valid.vector() = samples.vector().segment(train_size, valid_size);", new="valid.vector() = samples.vector().segment(train_size, samples.size() - train_size);"),
    dict(property="C18", name="tune-index-vars-renamed-order", file="src/machine/tune.cpp",
         old="""            const auto fold  = index % folds;
            const auto trial = index / folds;""", new="""            const auto trial = index / folds;
            const auto fold  = index % folds;"""),
    dict(property="C18", name="function-new-mutable-buffer", file="include/nano/function.h",
         old="    mutable tensor_size_t m_gcalls{0};", new="    mutable tensor_size_t m_gcalls{0};\n    mutable tensor_size_t m_hcalls{0};"),
    dict(property="C18", name="gboost-evaluate-range-hoisted", file="src/gboost/util.cpp",
         old="            loss.value(targets, outputs.slice(range), values.tensor(1).slice(range));", new="            auto vslice = values.tensor(1).slice(range);\n            loss.value(targets, outputs.slice(range), vslice);"),
    dict(property="C10", name="stump-score-expanded", file="src/wlearner/stump.cpp",
         old="    return (r2 + outputs.square() * r0 - 2 * outputs * r1).sum();", new="    return (r2 - 2 * outputs * r1 + r0 * outputs * outputs).sum();"),
    dict(property="C10", name="table-merge-conditions-swapped", file="src/wlearner/table.cpp",
         old="        if (hashes() == pother->hashes() && hash2tables() == pother->hash2tables())", new="        if (hash2tables() == pother->hash2tables() && hashes() == pother->hashes())"),
    dict(property="C10", name="affine-w-rewritten", file="src/wlearner/affine.cpp",
         old="""        return (rx(bin_affine) * x0(bin_affine) - r1(bin_affine) * x1(bin_affine)) /
               (x2(bin_affine) * x0(bin_affine) - x1(bin_affine) * x1(bin_affine));
    }

    auto b() const""", new="""        return (r1(bin_affine) * x1(bin_affine) - rx(bin_affine) * x0(bin_affine)) /
               (x1(bin_affine) * x1(bin_affine) - x2(bin_affine) * x0(bin_affine));
    }

    auto b() const"""),
    dict(property="C16", name="integral-base-operands-swapped", file="include/nano/tensor/integral.h", tu="src/core/sampling.cpp",
         old="            otensor(i0) = otensor(i0 - 1) + itensor(i0);", new="            otensor(i0) = itensor(i0) + otensor(i0 - 1);"),
    dict(property="C18", name="gboost-folds-read-shared-iterator-samples", file="src/gboost/model.cpp",
         old="""    // tune hyper-parameters (if any)
    const auto callback = [&](const indices_t& train_samples, const indices_t& valid_samples,
                              const tensor1d_cmap_t params, const std::any&, const logger_t& logger)
    {
""",
         new="""    auto shared_iterator = targets_iterator_t{dataset, samples};
    // tune hyper-parameters (if any)
    const auto callback = [&](const indices_t& train_samples, const indices_t& valid_samples,
                              const tensor1d_cmap_t params, const std::any&, const logger_t& logger)
    {
        (void)shared_iterator.samples();
"""),
    dict(property="C16", name="remove-if-second-loop-starts-after-first-removed", file="include/nano/tensor/algorithm.h", tu="src/solver/gsample/sampler.cpp",
         old="    for (auto curr = last; curr < size; ++curr)", new="    for (auto curr = last + 1; curr < size; ++curr)"),
    dict(property="C03", name="ellipsoid-update-with-named-coefficients", file="src/solver/ellipsoid.cpp",
         old="""            xv.noalias() = xv - (1 + n * alpha) / (n + 1) * (Hm * gv) / std::sqrt(gHg);
            Hm.noalias() = (n * n) / (n * n - 1) * (1 - alpha * alpha) *
                           (Hm - 2 * (1 + n * alpha) / (n + 1) / (1 + alpha) * (Hm * gv * gv.transpose() * Hm) / gHg);""",
         new="""            const auto tau   = (1.0 + n * alpha) / (n + 1.0);
            const auto delta = n * n / (n * n - 1.0) * (1.0 - alpha * alpha);
            const auto sigma = 2.0 * tau / (1.0 + alpha);
            xv.noalias() = xv - tau * (Hm * gv) / std::sqrt(gHg);
            Hm.noalias() = delta * (Hm - sigma * (Hm * gv * gv.transpose() * Hm) / gHg);"""),
    dict(property="C11", name="gboost-final-stats-named-selection", file="src/gboost/model.cpp",
         old="        fit_result.store(::selected(values, samples));", new="        auto fitted_values = ::selected(values, samples);\n        fit_result.store(std::move(fitted_values));"),
    dict(property="C20", name="percentile-position-product-commuted", file="include/nano/core/stats.h", tu="src/core/histogram.cpp",
         old="    const double position = percentage * static_cast<double>(size - 1) / 100.0;", new="    const double scaled   = static_cast<double>(size - 1) * percentage;\n    const double position = scaled / 100.0;"),
    dict(property="C15", name="string-reader-bulk-read-into-sized-buffer", file="include/nano/core/stream.h", tu="src/feature.cpp",
         old="""    string.resize(size);
    for (char& c : string)
    {
        read(stream, c);
    }
    return stream;""",
         new="""    string.resize(size);
    read(stream, string.data(), size);
    return stream;"""),
]
