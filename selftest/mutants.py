"""Seeded mutants (rule must fire) and benign edits (every rule must stay silent). One exact textual edit each,
applied to a scratch copy only."""
MUTANTS = [
    # ---- C07
    dict(property="C07", name="lemarechal-wolfe-bypassed", rule="R-C07-1", file="src/lsearchk/lemarechal.cpp",
         old="if (state.has_wolfe(state0, descent, c2))", new="if (state.has_wolfe(state0, descent, c2) || i > 20)"),
    dict(property="C07", name="zoom-swolfe-before-armijo", rule="R-C07-1", file="src/lsearchk/fletcher.cpp",
         old="""        else if (!state.has_armijo(state0, descent, step_size, c1) || state.fx() >= lo.f)
        {
            hi = {state, descent, step_size};
        }
        else if (state.has_strong_wolfe(state0, descent, c2))
        {
            return {true, step_size};
        }""",
         new="""        else if (state.has_strong_wolfe(state0, descent, c2))
        {
            return {true, step_size};
        }
        else if (!state.has_armijo(state0, descent, step_size, c1) || state.fx() >= lo.f)
        {
            hi = {state, descent, step_size};
        }"""),
    dict(property="C07", name="backtrack-returns-valid", rule="R-C07-1", file="src/lsearchk/backtrack.cpp",
         old="""        if (!update(state, state0, descent, step_size, logger))
        {
            return {false, step_size};
        }
    }

    return {false, step_size};""",
         new="""        if (!update(state, state0, descent, step_size, logger))
        {
            return {false, step_size};
        }
    }

    return {state.valid(), step_size};"""),
    dict(property="C07", name="backtrack-armijo-with-c2", rule="R-C07-1", file="src/lsearchk/backtrack.cpp",
         old="state.has_armijo(state0, descent, step_size, c1)", new="state.has_armijo(state0, descent, step_size, c2)"),
    dict(property="C07", name="fletcher-step-changed-after-test", rule="R-C07-1", file="src/lsearchk/fletcher.cpp",
         old="""        else if (state.has_strong_wolfe(state0, descent, c2))
        {
            return {true, step_size};
        }
        else if (!state.has_descent(descent))""",
         new="""        else if (state.has_strong_wolfe(state0, descent, c2))
        {
            step_size = std::max(step_size, stpmin());
            return {true, step_size};
        }
        else if (!state.has_descent(descent))"""),
    dict(property="C07", name="get-update-before-descent-test", rule="R-C07-2", file="src/lsearchk.cpp",
         old="""    // check descent direction
    if (!state.has_descent(descent))""",
         new="""    state.update(state.x());
    if (!state.has_descent(descent))"""),
    dict(property="C07", name="morethuente-return-other-step", rule="R-C07-3", file="src/lsearchk/morethuente.cpp",
         old="""        if (f <= ftest && std::fabs(g) <= gtol * (-ginit))
        {
            return {true, stp};""",
         new="""        if (f <= ftest && std::fabs(g) <= gtol * (-ginit))
        {
            return {true, stx};"""),
    dict(property="C07", name="cgdescent-step-without-update", rule="R-C07-3", file="src/lsearchk/cgdescent.cpp",
         old="            last_a = {interval.c, interval.descent, interval.step_size};",
         new="            last_a = {interval.c, interval.descent, interval.step_size}; interval.step_size *= 0.5;"),
    dict(property="C07", name="wolfe-predicate-flipped", rule="R-C07-4", file="src/solver/state.cpp",
         old="return dg(descent) >= c2 * origin.dg(descent);", new="return dg(descent) <= c2 * origin.dg(descent);"),
    dict(property="C07", name="armijo-predicate-without-c1", rule="R-C07-4", file="src/solver/state.cpp",
         old="return m_fx <= origin.fx() + step_size * c1 * origin.dg(descent);", new="return m_fx <= origin.fx() + step_size * origin.dg(descent);"),
    # ---- C17
    dict(property="C17", name="stop-set-outside-lock", rule="R-C17-1", file="src/core/parallel.cpp",
         old="""    {
        const std::scoped_lock lock(m_queue.m_mutex);
        m_queue.m_stop = true;
    }""", new="""    m_queue.m_stop = true;"""),
    dict(property="C17", name="map-drops-notify", rule="R-C17-2", file="include/nano/core/parallel.h", tu="src/core/parallel.cpp",
         old="""                    section.emplace_back(m_queue.enqueue_no_lock([op, index](const size_t tnum) { op(index, tnum); }));
                }
            }
            m_queue.m_condition.notify_all();
""", new="""                    section.emplace_back(m_queue.enqueue_no_lock([op, index](const size_t tnum) { op(index, tnum); }));
                }
            }
"""),
    dict(property="C17", name="task-run-under-lock", rule="R-C17-4", file="src/core/parallel.cpp",
         old="""            task = std::move(m_queue.m_tasks.front());
            m_queue.m_tasks.pop_front();
        }

        // execute the task
        task(m_tnum);""", new="""            task = std::move(m_queue.m_tasks.front());
            m_queue.m_tasks.pop_front();
            task(m_tnum);
        }"""),
    dict(property="C17", name="map-drops-block", rule="R-C17-5", file="include/nano/core/parallel.h", tu="src/core/parallel.cpp",
         old="""            m_queue.m_condition.notify_all();

            section.block(raise);
        }
    }

private:""", new="""            m_queue.m_condition.notify_all();
            if (raise)
            {
                section.block(raise);
            }
        }
    }

private:"""),
    dict(property="C17", name="chunk-end-not-clamped", rule="R-C17-6", file="include/nano/core/parallel.h", tu="src/core/parallel.cpp",
         old="const auto end = std::min(begin + chunksize, elements);", new="const auto end = begin + chunksize;"),
    dict(property="C17", name="task-captures-by-ref", rule="R-C17-6", file="include/nano/core/parallel.h", tu="src/core/parallel.cpp",
         old="m_queue.enqueue_no_lock([op, index](const size_t tnum) { op(index, tnum); })", new="m_queue.enqueue_no_lock([&op, &index](const size_t tnum) { op(index, tnum); })"),
    dict(property="C17", name="wait-without-predicate", rule="R-C17-3", file="src/core/parallel.cpp",
         old="m_queue.m_condition.wait(lock, [&] { return m_queue.m_stop || !m_queue.m_tasks.empty(); });",
         new="if (!m_queue.m_stop && m_queue.m_tasks.empty()) { m_queue.m_condition.wait(lock); }"),
    dict(property="C17", name="predicate-ignores-stop", rule="R-C17-3", file="src/core/parallel.cpp",
         old="[&] { return m_queue.m_stop || !m_queue.m_tasks.empty(); }", new="[&] { return !m_queue.m_tasks.empty(); }"),
    dict(property="C17", name="section-dtor-does-not-wait", rule="R-C17-5", file="src/core/parallel.cpp",
         old="""section_t::~section_t()
{
    block(false);
}""", new="""section_t::~section_t()
{
}"""),
    dict(property="C17", name="enqueue-push-outside-lock", rule="R-C17-1", file="include/nano/core/parallel.h", tu="src/core/parallel.cpp",
         old="""        {
            const std::scoped_lock lock(m_mutex);
            m_tasks.emplace_back(std::move(task));
        }
        m_condition.notify_one();""", new="""        m_tasks.emplace_back(std::move(task));
        {
            const std::scoped_lock lock(m_mutex);
        }
        m_condition.notify_one();"""),
    dict(property="C17", name="worker-ids-from-one", rule="R-C17-7", file="src/core/parallel.cpp",
         old="m_workers.emplace_back(m_queue, tnum);", new="m_workers.emplace_back(m_queue, tnum + 1);"),
    dict(property="C17", name="dtor-joins-skip-first", rule="R-C17-8", file="src/core/parallel.cpp",
         old="""    for (auto& thread : m_threads)
    {
        thread.join();
    }""", new="""    for (size_t i = 1; i < m_threads.size(); ++i)
    {
        m_threads[i].join();
    }
    m_threads[0].detach();"""),
    dict(property="C17", name="block-waits-only-when-raising", rule="R-C17-5", file="src/core/parallel.cpp",
         old="raise ? future.get() : future.wait();", new="if (raise) { future.get(); }"),]

BENIGN = [
    dict(property="C07", name="lemarechal-swap-operands", file="src/lsearchk/lemarechal.cpp",
         old="if (R.t < epsilon0<scalar_t>())", new="if (epsilon0<scalar_t>() > R.t)"),
    dict(property="C07", name="backtrack-rename-and-temp", file="src/lsearchk/backtrack.cpp",
         old="""        if (state.has_armijo(state0, descent, step_size, c1))
        {
            return {true, step_size};
        }""",
         new="""        const auto accepted = state.has_armijo(state0, descent, step_size, c1);
        logger.info("accepted=", accepted);
        if (state.has_armijo(state0, descent, step_size, c1))
        {
            return {true, step_size};
        }"""),
    dict(property="C07", name="armijo-predicate-reordered", file="src/solver/state.cpp",
         old="return m_fx <= origin.fx() + step_size * c1 * origin.dg(descent);", new="return origin.fx() + c1 * origin.dg(descent) * step_size >= m_fx;"),
    dict(property="C17", name="notify-one-to-all", file="include/nano/core/parallel.h",
         old="m_condition.notify_one();", new="m_condition.notify_all();"),
    dict(property="C17", name="worker-extra-log-and-scope", file="src/core/parallel.cpp",
         old="            task = std::move(m_queue.m_tasks.front());", new="            auto& tasks = m_queue.m_tasks; (void)tasks;\n            task = std::move(m_queue.m_tasks.front());"),
    dict(property="C17", name="map-notify-under-lock", file="include/nano/core/parallel.h", tu="src/core/parallel.cpp",
         old="""                    section.emplace_back(m_queue.enqueue_no_lock([op, index](const size_t tnum) { op(index, tnum); }));
                }
            }
            m_queue.m_condition.notify_all();
""", new="""                    section.emplace_back(m_queue.enqueue_no_lock([op, index](const size_t tnum) { op(index, tnum); }));
                }
                m_queue.m_condition.notify_all();
            }
"""),
]
