#!/usr/bin/env python3-vt
"""Rename-robustness test (not part of the registered checks): for every anchor source file of a property, rename all local
variables and parameters of its functions (x -> x_rn) in a scratch copy - a behaviour-preserving edit - and run the property's check.
A violation (exit 1) is a false alarm of the machinery; exit 2 (anchor no longer recognised) is tolerated but listed.
usage: selftest/rename.py Cxx [file-substring]"""
import importlib
import json
import os
import re
import shutil
import subprocess
import sys
import tempfile

HERE = os.path.dirname(os.path.abspath(__file__))
VERIF = os.path.dirname(HERE)
sys.path.insert(0, VERIF)
sys.path.insert(0, HERE)
from run import prepare, syntax_ok, run_check  # noqa
from nv.facts import Facts, REPO  # noqa

KEYWORDS = {"this", "auto", "const", "size", "begin", "end", "data", "value", "first", "second", "type", "name", "index", "it"}


def locals_of(F, relfile):
    """per function in relfile: (first line, last line, set of local/param names)"""
    out = []
    for f in F.functions.values():
        if f.relfile != relfile or f.body is None:
            continue
        names = {p["n"] for p in f.params if p.get("n")}
        for v in f.nodes():
            if v["k"] == "var" and v.get("n"):
                names.add(v["n"])
                for b in v.get("bindings", ()):
                    names.add(b["n"])
        names = {n for n in names if re.fullmatch(r"[a-z_][A-Za-z0-9_]*", n) and not n.startswith("m_") and not n.startswith("__") and n not in KEYWORDS}
        out.append((f.line, f.end, names))
    return out


def rename_file(path, spans):
    lines = open(path).read().split("\n")
    # merge: a line may belong to nested functions (lambdas): use the union of names of all enclosing spans
    for a, b, names in spans:
        if not names:
            continue
        lo, hi = a - 1, min(b, len(lines))
        text = "\n".join(lines[lo:hi])
        # include the declaration lines just above (multi-line signatures start at f.line)
        safe = set()
        for n in names:
            if re.search(r"(\.|->|::)\s*%s\b" % re.escape(n), text):
                continue        # also used as a member name: a textual rename would not be behaviour-preserving
            if re.search(r"\b%s\s*<" % re.escape(n), text) and re.search(r"\b%s\s*<[^;=]*>\s*\(" % re.escape(n), text):
                continue
            safe.add(n)
        for n in sorted(safe, key=len, reverse=True):
            text = re.sub(r"(?<![\w.>:])%s\b(?!\s*::)" % re.escape(n), n + "_rn", text)
        lines[lo:hi] = text.split("\n")
    open(path, "w").write("\n".join(lines))


def main():
    pid = sys.argv[1].upper()
    only = sys.argv[2] if len(sys.argv) > 2 else None
    mod = importlib.import_module("nv.rules." + pid.lower())
    tus = [t for t in getattr(mod, "TUS", getattr(mod, "QUICK_TUS", [])) if not t.startswith("witness/")]
    props = {json.loads(l)["id"]: json.loads(l) for l in open(os.path.join(VERIF, "properties.jsonl"))}
    anchors = [a for a in props[pid]["anchors"]["files"] if "*" not in a and os.path.exists(os.path.join(REPO, a))]
    files = sorted(set(tus) | set(anchors))
    if only:
        files = [f for f in files if only in f]
    F = Facts([t for t in tus if t.endswith(".cpp")] or [f for f in files if f.endswith(".cpp")])
    base = tempfile.mkdtemp(prefix="nvren_", dir="/tmp")
    scratch = os.path.join(base, "repo")
    out = os.path.join(base, "out")
    os.makedirs(out)
    prepare(scratch)
    bad = 0
    try:
        for rel in files:
            spans = locals_of(F, rel)
            if not spans:
                continue
            path = os.path.join(scratch, rel)
            orig = open(path).read()
            rename_file(path, spans)
            try:
                if open(path).read() == orig:
                    continue
                tu = rel if rel.endswith(".cpp") else next((t for t in tus if t.endswith(".cpp")), None)
                ok, err = syntax_ok(scratch, tu) if tu else (True, "")
                if not ok:
                    print("skip %s %s: renamed file does not compile (%s)" % (pid, rel, err.strip().splitlines()[-1][:100] if err.strip() else ""))
                    continue
                rc, text = run_check(scratch, pid, out)
                tag = {0: "ok   ", 1: "FALSE-ALARM", 2: "broken"}.get(rc, "rc=%d" % rc)
                print("%s %s %s" % (tag, pid, rel))
                if rc != 0:
                    bad += rc == 1
                    shown = 0
                    for l in text.splitlines():
                        if l.startswith(("  R-", "ANALYSIS")) and shown < 6:
                            print("      " + l[:300])
                            shown += 1
            finally:
                open(path, "w").write(orig)
    finally:
        shutil.rmtree(base, ignore_errors=True)
    print("rename: %d false alarms" % bad)
    return 1 if bad else 0


if __name__ == "__main__":
    sys.exit(main())
