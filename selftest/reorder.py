#!/usr/bin/env python3-vt
"""Reorder-robustness test (not part of the registered checks): in every anchor file swap adjacent, independent, single-line
declarations (`const auto a = ...; const auto b = ...;` where b does not use a) - a behaviour-preserving edit - and run the check.
usage: selftest/reorder.py Cxx [file-substring]"""
import importlib
import json
import os
import shutil
import sys
import tempfile

HERE = os.path.dirname(os.path.abspath(__file__))
VERIF = os.path.dirname(HERE)
sys.path.insert(0, VERIF)
sys.path.insert(0, HERE)
from run import prepare, syntax_ok, run_check  # noqa
from nv.facts import Facts, REPO, walk  # noqa


def swaps(F, relfile, text_lines):
    out = []
    used = set()
    for f in F.functions.values():
        if f.relfile != relfile or f.body is None:
            continue
        for blk in f.nodes():
            if blk["k"] != "block":
                continue
            ch = [c for c in blk.get("c", ()) if c is not None]
            for a, b in zip(ch, ch[1:]):
                if a["k"] != "declstmt" or b["k"] != "declstmt":
                    continue
                la, lb = a.get("l"), b.get("l")
                if la is None or lb is None or lb != la + 1 or la in used or lb in used:
                    continue
                ta, tb = text_lines[la - 1].strip(), text_lines[lb - 1].strip()
                if not (ta.endswith(";") and tb.endswith(";")) or ta.count(";") != 1 or tb.count(";") != 1:
                    continue
                da = {v["d"] for v in walk(a) if v["k"] == "var"} | {bd["d"] for v in walk(a) if v["k"] == "var" for bd in v.get("bindings", ())}
                if any(x["k"] == "ref" and x.get("d") in da for x in walk(b)):
                    continue
                # both must be side-effect free enough: no calls that may depend on each other's evaluation order (conservative: no ++/--/assignment)
                if any(x["k"] in ("un",) and x.get("op") in ("++", "--") for x in list(walk(a)) + list(walk(b))):
                    continue
                if any(x["k"] == "call" and not x.get("cconst") and x.get("ck") == "mem" for x in list(walk(a)) + list(walk(b))):
                    continue
                # calls that take arguments by (non-const) reference or pointer may modify them
                if any(x["k"] in ("call", "construct") and any(ch in (x.get("pk") or "") for ch in "rp") for x in list(walk(a)) + list(walk(b))):
                    continue
                out.append((la, lb))
                used.update((la, lb))
    return out


def main():
    pid = sys.argv[1].upper()
    only = sys.argv[2] if len(sys.argv) > 2 else None
    mod = importlib.import_module("nv.rules." + pid.lower())
    tus = [t for t in getattr(mod, "TUS", getattr(mod, "QUICK_TUS", [])) if not t.startswith("witness/")]
    props = {json.loads(l)["id"]: json.loads(l) for l in open(os.path.join(VERIF, "properties.jsonl"))}
    anchors = [a for a in props[pid]["anchors"]["files"] if "*" not in a and os.path.exists(os.path.join(REPO, a))]
    files = sorted(set(tus) | set(anchors))
    if only:
        files = [f for f in files if only in f]
    F = Facts([t for t in tus if t.endswith(".cpp")] or [f for f in files if f.endswith(".cpp")])
    base = tempfile.mkdtemp(prefix="nvreo_", dir="/tmp")
    scratch = os.path.join(base, "repo")
    out = os.path.join(base, "out")
    os.makedirs(out)
    prepare(scratch)
    bad = 0
    try:
        for rel in files:
            path = os.path.join(scratch, rel)
            orig = open(path).read()
            lines = orig.split("\n")
            sw = swaps(F, rel, lines)
            if not sw:
                continue
            for la, lb in sw:
                lines[la - 1], lines[lb - 1] = lines[lb - 1], lines[la - 1]
            open(path, "w").write("\n".join(lines))
            try:
                tu = rel if rel.endswith(".cpp") else next((t for t in tus if t.endswith(".cpp")), None)
                ok, err = syntax_ok(scratch, tu) if tu else (True, "")
                if not ok:
                    print("skip %s %s: edited file does not compile" % (pid, rel))
                    continue
                rc, text = run_check(scratch, pid, out)
                tag = {0: "ok   ", 1: "FALSE-ALARM", 2: "broken"}.get(rc, "rc=%d" % rc)
                print("%s %s %s (%d swaps)" % (tag, pid, rel, len(sw)))
                if rc != 0:
                    bad += rc == 1
                    shown = 0
                    for l in text.splitlines():
                        if l.startswith(("  R-", "ANALYSIS")) and shown < 6:
                            print("      " + l[:300])
                            shown += 1
            finally:
                open(path, "w").write(orig)
    finally:
        shutil.rmtree(base, ignore_errors=True)
    print("reorder: %d false alarms" % bad)
    return 1 if bad else 0


if __name__ == "__main__":
    sys.exit(main())
