#!/usr/bin/env python3-vt
"""Branch-inversion robustness test (not part of the registered checks): in every anchor file rewrite each
    if (COND) { A } else { B }     as     if (!(COND)) { B } else { A }
(single-line conditions without an init-statement, both branches braced blocks in the repository's Allman layout, no `else if`, no
`if constexpr`) - a behaviour-preserving edit - and run the property's check. usage: selftest/invert.py Cxx [file-substring]"""
import importlib
import json
import os
import re
import shutil
import sys
import tempfile

HERE = os.path.dirname(os.path.abspath(__file__))
VERIF = os.path.dirname(HERE)
sys.path.insert(0, VERIF)
sys.path.insert(0, HERE)
from run import prepare, syntax_ok, run_check  # noqa
from nv.facts import Facts, REPO  # noqa


def candidates(F, relfile):
    lines = set()
    for f in F.functions.values():
        if f.relfile != relfile or f.body is None:
            continue
        for x in f.nodes():
            if x["k"] != "if" or "else" not in x.get("r", ()) or "init" in x["r"] or x.get("constexpr"):
                continue
            th, el = x["c"][x["r"].index("then")], x["c"][x["r"].index("else")]
            if th is None or el is None or th["k"] != "block" or el["k"] != "block":
                continue
            lines.add(x["l"])
    return sorted(lines, reverse=True)


def block_end(lines, start, indent):
    """index of the line holding the `}` that closes the `{` on line `start` (same indentation)"""
    if lines[start].rstrip() != indent + "{":
        return None
    for j in range(start + 1, len(lines)):
        if lines[j].rstrip() == indent + "}":
            return j
        if lines[j].strip() and not lines[j].startswith(indent + " ") and not lines[j].startswith(indent + "\t") and lines[j].strip() not in ("",) \
                and not lines[j].lstrip().startswith("//") and not lines[j].startswith("#"):
            if len(lines[j]) - len(lines[j].lstrip()) <= len(indent):
                return None
    return None


def invert(lines, l):
    i = l - 1
    m = re.match(r"^(\s*)if \((.*)\)\s*$", lines[i])
    if not m or "constexpr" in lines[i] or ";" in m.group(2):
        return False
    indent, cond = m.group(1), m.group(2)
    if cond.count("(") != cond.count(")"):
        return False
    t_end = block_end(lines, i + 1, indent)
    if t_end is None or t_end + 2 >= len(lines) or lines[t_end + 1].rstrip() != indent + "else":
        return False
    e_end = block_end(lines, t_end + 2, indent)
    if e_end is None:
        return False
    then_blk = lines[i + 1:t_end + 1]
    else_blk = lines[t_end + 2:e_end + 1]
    lines[i:e_end + 1] = [indent + "if (!(" + cond + "))"] + else_blk + [indent + "else"] + then_blk
    return True


def main():
    pid = sys.argv[1].upper()
    only = sys.argv[2] if len(sys.argv) > 2 else None
    mod = importlib.import_module("nv.rules." + pid.lower())
    tus = [t for t in getattr(mod, "TUS", getattr(mod, "QUICK_TUS", [])) if not t.startswith("witness/")]
    props = {json.loads(l)["id"]: json.loads(l) for l in open(os.path.join(VERIF, "properties.jsonl"))}
    anchors = [a for a in props[pid]["anchors"]["files"] if "*" not in a and os.path.exists(os.path.join(REPO, a))]
    files = sorted(set(tus) | set(anchors))
    if only:
        files = [f for f in files if only in f]
    F = Facts([t for t in tus if t.endswith(".cpp")] or [f for f in files if f.endswith(".cpp")])
    base = tempfile.mkdtemp(prefix="nvinv_", dir="/tmp")
    scratch = os.path.join(base, "repo")
    out = os.path.join(base, "out")
    os.makedirs(out)
    prepare(scratch)
    bad = 0
    try:
        for rel in files:
            cands = candidates(F, rel)
            if not cands:
                continue
            path = os.path.join(scratch, rel)
            orig = open(path).read()
            lines = orig.split("\n")
            n = sum(1 for l in cands if invert(lines, l))
            if n == 0:
                continue
            open(path, "w").write("\n".join(lines))
            try:
                tu = rel if rel.endswith(".cpp") else next((t for t in tus if t.endswith(".cpp")), None)
                ok, err = syntax_ok(scratch, tu) if tu else (True, "")
                if not ok:
                    print("skip %s %s: edited file does not compile (%s)" % (pid, rel, err.strip().splitlines()[-1][:100] if err.strip() else ""))
                    continue
                rc, text = run_check(scratch, pid, out)
                tag = {0: "ok   ", 1: "FALSE-ALARM", 2: "broken"}.get(rc, "rc=%d" % rc)
                print("%s %s %s (%d inversions)" % (tag, pid, rel, n))
                if rc != 0:
                    bad += rc == 1
                    shown = 0
                    for l in text.splitlines():
                        if l.startswith(("  R-", "ANALYSIS")) and shown < 8:
                            print("      " + l[:300])
                            shown += 1
            finally:
                open(path, "w").write(orig)
    finally:
        shutil.rmtree(base, ignore_errors=True)
    print("invert: %d false alarms" % bad)
    return 1 if bad else 0


if __name__ == "__main__":
    sys.exit(main())
