#!/usr/bin/env python3-vt
"""Hoisting-robustness test (not part of the registered checks): in every anchor file give a name to a pure arithmetic sub-expression of
simple statements (`const auto nv_h<k> = <expr>;` inserted on the line before the statement, the expression replaced by the name) - a
behaviour-preserving edit - and run the property's check. Only expressions built from variables, members, literals, casts and built-in
arithmetic are hoisted, only out of declaration / expression / return statements that sit directly in a block, and never from under
`&&`, `||`, `?:`, a lambda or a statement that itself assigns (evaluation order and conditional evaluation are left alone).
usage: selftest/hoist.py Cxx [file-substring]"""
import importlib
import json
import os
import shutil
import sys
import tempfile

HERE = os.path.dirname(os.path.abspath(__file__))
VERIF = os.path.dirname(HERE)
sys.path.insert(0, VERIF)
sys.path.insert(0, HERE)
from run import prepare, syntax_ok, run_check  # noqa
from nv.facts import Facts, REPO, walk  # noqa

ARITH = {"char", "signed char", "unsigned char", "short", "unsigned short", "int", "unsigned int", "long", "unsigned long", "long long",
         "unsigned long long", "float", "double"}


def arith(n):
    t = ((n or {}).get("t") or "").replace("const ", "").replace("&", "").strip()
    return t in ARITH


def pure(n):
    if n is None:
        return False
    k = n["k"]
    if k in ("ref", "int", "float", "this"):
        return k != "ref" or n.get("dk") in ("var", "parm", "bind")
    if k == "mem":
        return all(pure(c) for c in n.get("c", ()))
    if k in ("cast", "paren"):
        return all(pure(c) for c in n.get("c", ()))
    if k == "bin" and n["op"] in ("+", "-", "*", "/"):
        return all(pure(c) for c in n["c"])
    if k == "un" and n.get("op") == "-":
        return pure(n["c"][0])
    if k == "call" and n.get("ck") == "mem" and n.get("cconst") and len(n.get("c", ())) == 1:
        return pure(n["c"][0])          # argument-less const member call on a variable / member (x.size(), state.fx())
    return False


def has_effects(stmt):
    for x in walk(stmt):
        if x["k"] == "bin" and x["op"].endswith("=") and x["op"] not in ("==", "!=", "<=", ">="):
            if x is not stmt:
                return True
        if x["k"] == "un" and x.get("op") in ("++", "--"):
            return True
        if x["k"] == "lambda":
            return True
    return False


def candidates(F, relfile):
    """(statement line, span of the bin node) - at most one per statement"""
    out = {}
    for f in F.functions.values():
        if f.relfile != relfile or f.body is None:
            continue
        for blk in f.nodes():
            if blk["k"] != "block":
                continue
            for st in blk.get("c", ()):
                if st is None or st["k"] not in ("declstmt", "return", "bin", "call") or st.get("l") is None:
                    continue
                if has_effects(st):
                    continue
                # not under short-circuit / conditional operators
                banned = set()
                for x in walk(st):
                    if (x["k"] == "bin" and x["op"] in ("&&", "||", ",")) or x["k"] == "cond":
                        for y in walk(x):
                            banned.add(y["i"])
                best = None
                for x in walk(st):
                    if x["k"] == "bin" and "span" in x and x["i"] not in banned and x.get("src_op", x["op"]) in ("+", "-", "*", "/") and arith(x) and pure(x):
                        sp_ = x["span"]
                        size = sp_[3] - sp_[0]
                        if size >= 5 and (best is None or size > best[1]):
                            best = (sp_, size)
                if best is not None:
                    out[(st["l"], f.key)] = (st["l"], best[0])
    # one per line
    seen, res = set(), []
    for (l, _), (line, sp_) in sorted(out.items()):
        if line in seen:
            continue
        seen.add(line)
        res.append((line, sp_))
    return res


def main():
    pid = sys.argv[1].upper()
    only = sys.argv[2] if len(sys.argv) > 2 else None
    mod = importlib.import_module("nv.rules." + pid.lower())
    tus = [t for t in getattr(mod, "TUS", getattr(mod, "QUICK_TUS", [])) if not t.startswith("witness/")]
    props = {json.loads(l)["id"]: json.loads(l) for l in open(os.path.join(VERIF, "properties.jsonl"))}
    anchors = [a for a in props[pid]["anchors"]["files"] if "*" not in a and os.path.exists(os.path.join(REPO, a))]
    files = sorted(set(tus) | set(anchors))
    if only:
        files = [f for f in files if only in f]
    F = Facts([t for t in tus if t.endswith(".cpp")] or [f for f in files if f.endswith(".cpp")])
    base = tempfile.mkdtemp(prefix="nvhoist_", dir="/tmp")
    scratch = os.path.join(base, "repo")
    out = os.path.join(base, "out")
    os.makedirs(out)
    prepare(scratch)
    bad = 0
    try:
        for rel in files:
            cands = candidates(F, rel)
            if not cands:
                continue
            path = os.path.join(scratch, rel)
            data = open(path, "rb").read()
            orig = data
            # line start offsets
            starts = [0]
            for i, ch in enumerate(data):
                if ch == 10:
                    starts.append(i + 1)
            n = 0
            for line, (lb, _, _, re_) in sorted(cands, key=lambda c: -c[1][0]):
                ls = starts[line - 1]
                if not (ls <= lb) or b"\n" in data[lb:re_]:
                    continue
                first = data[ls:lb]
                stripped = first.lstrip()
                # the statement has to start its line (no `case x:`, no `else`, no `{` before it)
                if any(tok in stripped for tok in (b"case ", b"else", b"{", b"}", b"for ", b"for(", b"while", b"if ", b"if(", b"switch", b"default")):
                    continue
                indent = first[:len(first) - len(stripped)]
                n += 1
                name = b"nv_h%d" % n
                expr = data[lb:re_]
                data = data[:ls] + indent + b"const auto " + name + b" = " + expr + b";\n" + data[ls:lb] + name + data[re_:]
            if n == 0:
                continue
            open(path, "wb").write(data)
            try:
                tu = rel if rel.endswith(".cpp") else next((t for t in tus if t.endswith(".cpp")), None)
                ok, err = syntax_ok(scratch, tu) if tu else (True, "")
                if not ok:
                    print("skip %s %s: edited file does not compile (%s)" % (pid, rel, err.strip().splitlines()[-1][:100] if err.strip() else ""))
                    continue
                rc, text = run_check(scratch, pid, out)
                tag = {0: "ok   ", 1: "FALSE-ALARM", 2: "broken"}.get(rc, "rc=%d" % rc)
                print("%s %s %s (%d hoists)" % (tag, pid, rel, n))
                if rc != 0:
                    bad += rc == 1
                    shown = 0
                    for l in text.splitlines():
                        if l.startswith(("  R-", "ANALYSIS")) and shown < 8:
                            print("      " + l[:300])
                            shown += 1
            finally:
                open(path, "wb").write(orig)
    finally:
        shutil.rmtree(base, ignore_errors=True)
    print("hoist: %d false alarms" % bad)
    return 1 if bad else 0


if __name__ == "__main__":
    sys.exit(main())
