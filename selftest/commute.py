#!/usr/bin/env python3-vt
"""Commutation-robustness test (not part of the registered checks): in every anchor file swap the operands of built-in `+`, `*`, `==`,
`!=` (exactly commutative, also in IEEE arithmetic) and flip `a < b` into `b > a` (etc.) wherever both operands have arithmetic type -
a behaviour-preserving edit - and run the property's check. usage: selftest/commute.py Cxx [file-substring]"""
import importlib
import json
import os
import shutil
import sys
import tempfile

HERE = os.path.dirname(os.path.abspath(__file__))
VERIF = os.path.dirname(HERE)
sys.path.insert(0, VERIF)
sys.path.insert(0, HERE)
from run import prepare, syntax_ok, run_check  # noqa
from nv.facts import Facts, REPO  # noqa

ARITH = {"bool", "char", "signed char", "unsigned char", "short", "unsigned short", "int", "unsigned int", "long", "unsigned long", "long long",
         "unsigned long long", "float", "double"}
FLIP = {"<": ">", ">": "<", "<=": ">=", ">=": "<="}


def arith(n):
    t = ((n or {}).get("t") or "").replace("const ", "").replace("&", "").strip()
    return t in ARITH


def candidates(F, relfile):
    seen = {}
    for f in F.functions.values():
        if f.relfile != relfile or f.body is None:
            continue
        for x in f.nodes():
            if x["k"] != "bin" or "span" not in x or x.get("src_op", x["op"]) not in ("+", "*", "==", "!=", "<", ">", "<=", ">="):
                continue
            a, b = x["c"]
            if not (arith(a) and arith(b)):
                continue
            seen[tuple(x["span"])] = x.get("src_op", x["op"])
    # innermost first, non-overlapping
    out = []
    for sp, op in sorted(seen.items(), key=lambda kv: kv[0][3] - kv[0][0]):
        if any(not (sp[3] <= o[0][0] or sp[0] >= o[0][3]) for o in out):
            continue
        out.append((sp, op))
    return out


def main():
    pid = sys.argv[1].upper()
    only = sys.argv[2] if len(sys.argv) > 2 else None
    mod = importlib.import_module("nv.rules." + pid.lower())
    tus = [t for t in getattr(mod, "TUS", getattr(mod, "QUICK_TUS", [])) if not t.startswith("witness/")]
    props = {json.loads(l)["id"]: json.loads(l) for l in open(os.path.join(VERIF, "properties.jsonl"))}
    anchors = [a for a in props[pid]["anchors"]["files"] if "*" not in a and os.path.exists(os.path.join(REPO, a))]
    files = sorted(set(tus) | set(anchors))
    if only:
        files = [f for f in files if only in f]
    F = Facts([t for t in tus if t.endswith(".cpp")] or [f for f in files if f.endswith(".cpp")])
    base = tempfile.mkdtemp(prefix="nvcom_", dir="/tmp")
    scratch = os.path.join(base, "repo")
    out = os.path.join(base, "out")
    os.makedirs(out)
    prepare(scratch)
    bad = 0
    try:
        for rel in files:
            cands = candidates(F, rel)
            if not cands:
                continue
            path = os.path.join(scratch, rel)
            data = open(path, "rb").read()
            orig = data
            n = 0
            for (lb, le, rb, re_), op in sorted(cands, key=lambda c: -c[0][0]):
                lhs, mid, rhs = data[lb:le], data[le:rb], data[rb:re_]
                if op.encode() not in mid or b"\n" in lhs + rhs and False:
                    continue
                newop = FLIP.get(op, op).encode()
                mid2 = mid.replace(op.encode(), newop, 1)
                data = data[:lb] + rhs + mid2 + lhs + data[re_:]
                n += 1
            open(path, "wb").write(data)
            try:
                tu = rel if rel.endswith(".cpp") else next((t for t in tus if t.endswith(".cpp")), None)
                ok, err = syntax_ok(scratch, tu) if tu else (True, "")
                if not ok:
                    print("skip %s %s: edited file does not compile (%s)" % (pid, rel, err.strip().splitlines()[-1][:80] if err.strip() else ""))
                    continue
                rc, text = run_check(scratch, pid, out)
                tag = {0: "ok   ", 1: "FALSE-ALARM", 2: "broken"}.get(rc, "rc=%d" % rc)
                print("%s %s %s (%d swaps)" % (tag, pid, rel, n))
                if rc != 0:
                    bad += rc == 1
                    shown = 0
                    for l in text.splitlines():
                        if l.startswith(("  R-", "ANALYSIS")) and shown < 8:
                            print("      " + l[:300])
                            shown += 1
            finally:
                open(path, "wb").write(orig)
    finally:
        shutil.rmtree(base, ignore_errors=True)
    print("commute: %d false alarms" % bad)
    return 1 if bad else 0


if __name__ == "__main__":
    sys.exit(main())
