#!/usr/bin/env python3-vt
"""Self-test of the checkers (DESIGN 2.9; not part of the registered checks).
For every mutant: copy /repo's sources to a scratch dir outside /repo and /verif, apply one edit,
make sure the touched TU still parses (clang -fsyntax-only), run the property's check against the
scratch tree and require exit 1 with the expected rule named. Benign edits must keep exit 0.
usage: selftest/run.py [Cxx ...] [--keep] [--only name-substring]"""
import json
import os
import shutil
import subprocess
import sys
import tempfile

HERE = os.path.dirname(os.path.abspath(__file__))
VERIF = os.path.dirname(HERE)
sys.path.insert(0, HERE)
from mutants import MUTANTS, BENIGN  # noqa


def prepare(scratch):
    os.makedirs(scratch)
    for d in ("include", "src", "cmake"):
        shutil.copytree(os.path.join("/repo", d), os.path.join(scratch, d))
    shutil.copy("/repo/CMakeLists.txt", scratch)


def syntax_ok(scratch, tu):
    gen = os.path.join(VERIF, "build", "gen")
    cmd = ["clang++", "-fsyntax-only", "-std=c++17", "-DNDEBUG", "-DNANO_HAS_FROM_CHARS_FLOAT", "-I" + gen,
           "-I" + scratch + "/include", "-I" + scratch + "/src", "-isystem", "/usr/include/eigen3", "-w",
           os.path.join(scratch, tu)]
    r = subprocess.run(cmd, capture_output=True, text=True)
    return r.returncode == 0, r.stderr[-800:]


def run_check(scratch, pid, out):
    env = dict(os.environ, NANO_REPO=scratch, NANO_OUT=out)
    r = subprocess.run([os.path.join(VERIF, "check"), pid], capture_output=True, text=True, env=env)
    return r.returncode, r.stdout + r.stderr


def main():
    argv = sys.argv[1:]
    only = None
    if "--only" in argv:
        only = argv[argv.index("--only") + 1]
        argv = [a for a in argv if a not in ("--only", only)]
    props = [a.upper() for a in argv if not a.startswith("--")]
    base = tempfile.mkdtemp(prefix="nvself_", dir="/tmp")
    scratch = os.path.join(base, "repo")
    out = os.path.join(base, "out")
    os.makedirs(out)
    prepare(scratch)
    fails = 0
    try:
        for kind, table in (("mutant", MUTANTS), ("benign", BENIGN)):
            for m in table:
                if props and m["property"] not in props:
                    continue
                if only and only not in m["name"]:
                    continue
                path = os.path.join(scratch, m["file"])
                orig = open(path).read()
                if orig.count(m["old"]) != 1:
                    print("SELFTEST-BROKEN %s %s: pattern occurs %d times in %s" % (m["property"], m["name"], orig.count(m["old"]), m["file"]))
                    fails += 1
                    continue
                text_ = orig.replace(m["old"], m["new"])
                for o2, n2 in m.get("more", ()):        # further edits in the same file
                    if text_.count(o2) != 1:
                        print("SELFTEST-BROKEN %s %s: extra pattern occurs %d times" % (m["property"], m["name"], text_.count(o2)))
                        fails += 1
                    text_ = text_.replace(o2, n2)
                open(path, "w").write(text_)
                others = []
                for f3, o3, n3 in m.get("also", ()):    # edits in other files
                    p3 = os.path.join(scratch, f3)
                    t3 = open(p3).read()
                    if t3.count(o3) != 1:
                        print("SELFTEST-BROKEN %s %s: pattern occurs %d times in %s" % (m["property"], m["name"], t3.count(o3), f3))
                        fails += 1
                    others.append((p3, t3))
                    open(p3, "w").write(t3.replace(o3, n3))
                try:
                    tu = m.get("tu", m["file"])
                    ok, err = syntax_ok(scratch, tu) if tu.endswith(".cpp") else (True, "")
                    if not ok:
                        print("SELFTEST-BROKEN %s %s: does not compile: %s" % (m["property"], m["name"], err))
                        fails += 1
                        continue
                    rc, text = run_check(scratch, m["property"], out)
                    if kind == "mutant":
                        good = rc == 1 and m["rule"] in text
                        print("%s %s %-44s rule=%s rc=%d" % ("ok  " if good else "MISS", m["property"], m["name"], m["rule"], rc))
                        if not good:
                            fails += 1
                            print("    " + "\n    ".join(text.strip().splitlines()[-6:]))
                    else:
                        good = rc == 0
                        print("%s %s %-44s benign rc=%d" % ("ok  " if good else "FALSE-ALARM", m["property"], m["name"], rc))
                        if not good:
                            fails += 1
                            print("    " + "\n    ".join(text.strip().splitlines()[-6:]))
                finally:
                    for p3, t3 in others:
                        open(p3, "w").write(t3)
                    open(path, "w").write(orig)
    finally:
        if "--keep" not in sys.argv:
            shutil.rmtree(base, ignore_errors=True)
    print("selftest: %d failures" % fails)
    return 1 if fails else 0


if __name__ == "__main__":
    sys.exit(main())
