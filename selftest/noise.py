#!/usr/bin/env python3-vt
"""Noise-robustness test (not part of the registered checks): for every anchor source file of a property, insert a harmless
declaration + statement at the top of every multi-line function / lambda body in a scratch copy - a behaviour-preserving edit -
and run the property's check. A violation (exit 1) is a false alarm of the machinery; exit 2 is listed.
usage: selftest/noise.py Cxx [file-substring]"""
import importlib
import json
import os
import shutil
import sys
import tempfile

HERE = os.path.dirname(os.path.abspath(__file__))
VERIF = os.path.dirname(HERE)
sys.path.insert(0, VERIF)
sys.path.insert(0, HERE)
from run import prepare, syntax_ok, run_check  # noqa
from nv.facts import Facts, REPO  # noqa


def insertion_lines(F, relfile):
    lines = set()
    for f in F.functions.values():
        if f.relfile != relfile or f.body is None or f.body.get("k") != "block":
            continue
        ch = [c for c in f.body.get("c", ()) if c is not None]
        if not ch:
            continue
        first = ch[0]
        if first.get("l") is None or first["l"] <= f.body.get("l", 0):
            continue            # one-line body
        lines.add(first["l"])
    return sorted(lines)


def main():
    pid = sys.argv[1].upper()
    only = sys.argv[2] if len(sys.argv) > 2 else None
    mod = importlib.import_module("nv.rules." + pid.lower())
    tus = [t for t in getattr(mod, "TUS", getattr(mod, "QUICK_TUS", [])) if not t.startswith("witness/")]
    props = {json.loads(l)["id"]: json.loads(l) for l in open(os.path.join(VERIF, "properties.jsonl"))}
    anchors = [a for a in props[pid]["anchors"]["files"] if "*" not in a and os.path.exists(os.path.join(REPO, a))]
    files = sorted(set(tus) | set(anchors))
    if only:
        files = [f for f in files if only in f]
    F = Facts([t for t in tus if t.endswith(".cpp")] or [f for f in files if f.endswith(".cpp")])
    base = tempfile.mkdtemp(prefix="nvnoise_", dir="/tmp")
    scratch = os.path.join(base, "repo")
    out = os.path.join(base, "out")
    os.makedirs(out)
    prepare(scratch)
    bad = 0
    try:
        for rel in files:
            ins = insertion_lines(F, rel)
            if not ins:
                continue
            path = os.path.join(scratch, rel)
            orig = open(path).read()
            lines = orig.split("\n")
            for k, l in enumerate(sorted(ins, reverse=True)):
                # the first statement must start its line (skip otherwise)
                text = lines[l - 1]
                if not text.strip() or text.lstrip().startswith(("}", ")", ".", ",", ":", "?", "&&", "||", "+", "-", "*", "/")):
                    continue
                indent = text[:len(text) - len(text.lstrip())]
                lines.insert(l - 1, "%s[[maybe_unused]] const auto nv_noise_%d = 0; static_cast<void>(nv_noise_%d);" % (indent, l, l))
            open(path, "w").write("\n".join(lines))
            try:
                tu = rel if rel.endswith(".cpp") else next((t for t in tus if t.endswith(".cpp")), None)
                ok, err = syntax_ok(scratch, tu) if tu else (True, "")
                if not ok:
                    print("skip %s %s: edited file does not compile (%s)" % (pid, rel, err.strip().splitlines()[-1][:100] if err.strip() else ""))
                    continue
                rc, text = run_check(scratch, pid, out)
                tag = {0: "ok   ", 1: "FALSE-ALARM", 2: "broken"}.get(rc, "rc=%d" % rc)
                print("%s %s %s" % (tag, pid, rel))
                if rc != 0:
                    bad += rc == 1
                    shown = 0
                    for l in text.splitlines():
                        if l.startswith(("  R-", "ANALYSIS")) and shown < 6:
                            print("      " + l[:300])
                            shown += 1
            finally:
                open(path, "w").write(orig)
    finally:
        shutil.rmtree(base, ignore_errors=True)
    print("noise: %d false alarms" % bad)
    return 1 if bad else 0


if __name__ == "__main__":
    sys.exit(main())
