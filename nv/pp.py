"""Canonical text of expression trees (for diagnostics and for structural comparison)."""
import re as _re

from .facts import strip_targs

_LIT = _re.compile(r"^\(?[-+]?\d+(\.\d+)?\)?$|^true$|^false$|^nullptr$")

BINOPS = {"+", "-", "*", "/", "%", "<", ">", "<=", ">=", "==", "!=", "&&", "||", "&", "|", "^", "<<", ">>",
          "=", "+=", "-=", "*=", "/=", "%=", "&=", "|=", "^=", "<<=", ">>=", ","}


def short(qn):
    return strip_targs(qn).split("::")[-1]


def is_transparent_construct(n):
    """copy/move/converting constructions that only wrap their single argument"""
    if n["k"] != "construct":
        return False
    c = n.get("c", ())
    if len(c) == 2 and c[1] is not None and c[1]["k"] == "defarg" and n.get("cls") == "std::basic_string":
        return True
    if len(c) == 1 and n.get("cls") == "nano::tensor_t" and c[0] is not None and ("tensor_t<" in (c[0].get("t") or "")):
        return True     # conversion between owning / mapping views of one tensor
    if len(c) == 1 and n.get("cls") == "std::variant":
        return True
    return len(c) == 1 and (n.get("copy") or n.get("cls") in ("std::basic_string_view", "std::basic_string", "std::function", "__gnu_cxx::__normal_iterator"))


def skip(n):
    """peel value-preserving wrappers"""
    while n is not None:
        if n["k"] in ("defarg", "definit") and n.get("c"):
            n = n["c"][0]
        elif is_transparent_construct(n):
            n = n["c"][0]
        else:
            break
    return n


def text_key(a):
    return (1 if _LIT.match(a) else 0, a.replace("nano::", ""))


def operand_key(n):
    """ordering key of an operand of a built-in commutative operator (see Function._index): literals last, then by text"""
    return text_key(pp(n))


def pp(n, ren=None, depth=0):
    if n is None:
        return "<none>"
    if depth > 60:
        return "..."
    n = skip(n)
    k = n["k"]
    c = n.get("c", ())
    r = lambda x: pp(x, ren, depth + 1)
    if k == "ref":
        if ren is not None and n.get("dk") in ("var", "parm", "bind"):
            return ren(n)
        return n["n"] if n.get("dk") in ("var", "parm", "bind") else strip_targs(n["n"])
    if k == "this":
        return "this"
    if k == "mem":
        base = c[0] if c else None
        if base is not None and skip(base)["k"] == "this":
            return n["n"]
        return "%s.%s" % (r(base), n["n"])
    if k in ("int", "char"):
        return str(n["v"])
    if k == "float":
        return repr(n["v"])
    if k == "bool":
        return "true" if n["v"] else "false"
    if k == "str":
        return '"%s"' % n["v"]
    if k == "nullptr":
        return "nullptr"
    if k == "un":
        return ("(%s%s)" % (r(c[0]), n["op"])) if n.get("post") else ("(%s%s)" % (n["op"], r(c[0])))
    if k == "bin":
        op = n["op"]
        a, b = r(c[0]), r(c[1])
        # canonical spelling of built-in comparisons: `a > b` is printed as `(b < a)`, `a >= b` as `(b <= a)`, and the operands of == / !=
        # are ordered (literals last, then by text), so that flipping a comparison - a behaviour-preserving edit - does not change the text
        if op in (">", ">="):
            return "(%s %s %s)" % (b, "<" if op == ">" else "<=", a)
        if op in ("==", "!=", "+", "*"):
            if text_key(b) < text_key(a):
                a, b = b, a
        return "(%s %s %s)" % (a, op, b)
    if k == "cond":
        return "(%s ? %s : %s)" % (r(c[0]), r(c[1]), r(c[2]))
    if k == "idx":
        return "%s[%s]" % (r(c[0]), r(c[1]))
    if k == "cast":
        if n.get("ex"):
            return "cast<%s>(%s)" % (n.get("t", "?"), r(c[0]))
        return r(c[0]) if n.get("ck") in ("IntegralCast", "FloatingCast", "IntegralToFloating") else "icast<%s>(%s)" % (n.get("ck"), r(c[0]))
    if k == "call":
        ck = n.get("ck")
        name = short(n.get("fn", "?"))
        ta = ""
        if n.get("targs") and ck != "op" and len(",".join(n["targs"])) < 40 and not any(t.startswith("<") for t in n["targs"]):
            ta = "<" + ",".join(n["targs"]) + ">"
        if ck == "mem":
            obj = c[0]
            args = ", ".join(r(a) for a in c[1:])
            if obj is not None and skip(obj)["k"] == "this":
                return "%s%s(%s)" % (name, ta, args)
            if name.startswith("operator "):   # conversion operator
                return r(obj)
            return "%s.%s%s(%s)" % (r(obj), name, ta, args)
        if ck == "op":
            op = n.get("op")
            if op == "()":
                return "%s(%s)" % (r(c[0]), ", ".join(r(a) for a in c[1:]))
            if op == "[]":
                return "%s[%s]" % (r(c[0]), ", ".join(r(a) for a in c[1:]))
            if op in ("->", "*") and len(c) == 1:
                return "(*%s)" % r(c[0]) if op == "*" else r(c[0])
            if op in ("++", "--"):
                return "(%s%s)" % (r(c[0]), op) if len(c) == 2 else "(%s%s)" % (op, r(c[0]))
            if len(c) == 2 and op in BINOPS:
                return "(%s %s %s)" % (r(c[0]), op, r(c[1]))
            if len(c) == 1:
                return "(%s%s)" % (op, r(c[0]))
            return "operator%s(%s)" % (op, ", ".join(r(a) for a in c))
        return "%s%s(%s)" % (name, ta, ", ".join(r(a) for a in c))
    if k == "construct":
        return "%s(%s)" % (short(n.get("cls", "?")), ", ".join(r(a) for a in c))
    if k == "initlist":
        return "{%s}" % ", ".join(r(a) for a in c)
    if k == "lambda":
        return "lambda@%d" % n["l"]
    if k == "zeroinit":
        return "T{}"
    if k == "traits":
        return "sizeof=%s" % n.get("cv")
    if k == "throw":
        return "throw %s" % (r(c[0]) if c else "")
    if k == "return":
        return "return %s" % (r(c[0]) if c else "")
    if k == "var":
        return "%s = %s" % (n["n"], r(c[0]) if c else "<default>")
    if k == "declstmt":
        return "; ".join(r(a) for a in c)
    if k == "init":
        return "%s(%s)" % (n.get("n") or n.get("base"), ", ".join(r(a) for a in c))
    if k in ("new", "delete"):
        return "%s(%s)" % (k, ", ".join(r(a) for a in c))
    return "%s{%s}" % (k, ", ".join(r(a) for a in c if a is not None))


# ---------------------------------------------------------------------------------------------- canonical form of expected texts


def _split_top(s, ops):
    """position and operator of the first top-level ` op ` (depth 0 w.r.t. brackets) in s"""
    depth = 0
    i = 0
    while i < len(s):
        ch = s[i]
        if ch in "([{":
            depth += 1
        elif ch in ")]}":
            depth -= 1
        elif depth == 0 and ch == " ":
            for op in ops:
                if s.startswith(" " + op + " ", i):
                    return i, op
        i += 1
    return None, None


def canon_text(s):
    """rewrites an expected text (written the way pp used to print it) into pp's canonical spelling of comparisons"""
    out = []
    i = 0
    while i < len(s):
        if s[i] == "(":
            depth, j = 1, i + 1
            while j < len(s) and depth:
                depth += s[j] in "([{"
                depth -= s[j] in ")]}"
                j += 1
            inner = canon_text(s[i + 1:j - 1])
            pos, op = _split_top(inner, (">=", "<=", "==", "!=", ">", "<", "+", "*"))
            # only a *binary* group: nothing but the two operands at top level (function-call argument lists contain ", ")
            if pos is not None and _split_top(inner, ("&&", "||", "?"))[0] is None and ", " not in _strip_nested(inner) and (i == 0 or not (s[i - 1].isalnum() or s[i - 1] in "_>)]")):
                a, b = inner[:pos], inner[pos + len(op) + 2:]
                if op in (">", ">="):
                    a, b, op = b, a, "<" if op == ">" else "<="
                elif op in ("==", "!=", "+", "*"):
                    if text_key(b) < text_key(a):
                        a, b = b, a
                inner = "%s %s %s" % (a, op, b)
            out.append("(" + inner + ")")
            i = j
        else:
            out.append(s[i])
            i += 1
    return "".join(out)


def _strip_nested(s):
    out, depth = [], 0
    for ch in s:
        if ch in "([{":
            depth += 1
        elif ch in ")]}":
            depth -= 1
        elif depth == 0:
            out.append(ch)
    return "".join(out)
