"""CFG view over the extractor's blocks: elements in evaluation order, edges with polarity,
dominators / post-dominators, and a small edge-sensitive forward must-dataflow engine (K1)."""


class Elem:
    __slots__ = ("kind", "node", "info", "block", "pos")

    def __init__(self, kind, node, info, block, pos):
        self.kind = kind      # 'node' | 'dtor' | 'init' | 'other'
        self.node = node      # tree node for 'node' and 'init' (the initialiser expression)
        self.info = info      # raw dict for dtor/init
        self.block = block
        self.pos = pos

    def __repr__(self):
        if self.kind == "node":
            return "<el B%d.%d #%d %s>" % (self.block, self.pos, self.node["i"], self.node["k"])
        return "<el B%d.%d %s %s>" % (self.block, self.pos, self.kind, self.info)


class Block:
    def __init__(self, raw):
        self.id = raw["id"]
        self.raw = raw
        self.elems = []
        self.succ = list(raw["succ"])       # -1 = unreachable edge
        self.pred = []
        self.term = raw.get("term")
        self.tid = raw.get("tid")
        self.cond = None                    # tree node of the last (leaf) condition
        self.noret = raw.get("noret", False)

    def __repr__(self):
        return "<B%d n=%d succ=%s term=%s>" % (self.id, len(self.elems), self.succ, self.term)


class CFG:
    def __init__(self, fn):
        self.fn = fn
        raw = fn.raw.get("cfg")
        self.blocks = {}
        self.entry = self.exit = None
        if not raw:
            return
        self.entry, self.exit = raw["entry"], raw["exit"]

        def resolve(e):
            if isinstance(e, int):
                return fn.node(e)
            if isinstance(e, dict) and "x" in e:
                return e["x"]
            return None

        for rb in raw["blocks"]:
            b = Block(rb)
            for pos, e in enumerate(rb["el"]):
                if isinstance(e, int):
                    n = fn.node(e)
                    if n is not None:
                        b.elems.append(Elem("node", n, None, b.id, pos))
                elif "x" in e:
                    b.elems.append(Elem("node", e["x"], None, b.id, pos))
                elif "dtor" in e:
                    b.elems.append(Elem("dtor", None, e, b.id, pos))
                elif "init" in e or "initbase" in e:
                    b.elems.append(Elem("init", resolve(e.get("e")), e, b.id, pos))
                else:
                    b.elems.append(Elem("other", None, e, b.id, pos))
            if "cond" in rb:
                b.cond = resolve(rb["cond"])
                if b.cond is None and isinstance(rb["cond"], int) and rb["cond"] in getattr(fn, "_stripped", {}):
                    # the terminator was a `!x` that the canonical polarity of the tree dropped: branch on x with the successors exchanged
                    inner, nots = fn._stripped[rb["cond"]]
                    b.cond = inner
                    if nots % 2 and len(b.succ) == 2:
                        b.succ = [b.succ[1], b.succ[0]]
                # canonical polarity: a branch on `!c` is the branch on `c` with its two successors exchanged (successor 0 = condition true)
                if b.cond is not None and len(b.succ) == 2:
                    c_, nots = b.cond, 0
                    while c_ is not None and ((c_.get("k") == "un" and c_.get("op") == "!") or c_.get("k") == "paren") and c_.get("c"):
                        nots += c_.get("k") == "un"
                        c_ = c_["c"][0]
                    if nots and c_ is not None:
                        b.cond = c_
                        if nots % 2:
                            b.succ = [b.succ[1], b.succ[0]]
            self.blocks[b.id] = b
        for b in self.blocks.values():
            for s in b.succ:
                if s >= 0:
                    self.blocks[s].pred.append(b.id)
        self._dom = None
        self._pdom = None
        self._where = None

    # ---- positions
    def where(self, node_id):
        """(block, pos) of the element holding exactly this node id (the last one if repeated)"""
        if self._where is None:
            w = {}
            for b in self.blocks.values():
                for e in b.elems:
                    if e.kind == "node":
                        w[e.node["i"]] = (b.id, e.pos)
            self._where = w
        return self._where.get(node_id)

    def where_enclosing(self, node):
        """position of the node or of its nearest ancestor that is a CFG element"""
        n = node
        while n is not None:
            w = self.where(n["i"])
            if w:
                return w
            n = self.fn.parent_of(n)
        return None

    def elems(self):
        for b in self.blocks.values():
            for e in b.elems:
                yield e

    def reachable(self):
        seen, st = set(), [self.entry]
        while st:
            x = st.pop()
            if x in seen:
                continue
            seen.add(x)
            st.extend(s for s in self.blocks[x].succ if s >= 0)
        return seen

    # ---- dominance
    def _dominators(self, entry, preds_of, succs_of):
        ids = list(self.blocks)
        reach, st = set(), [entry]
        while st:
            x = st.pop()
            if x in reach:
                continue
            reach.add(x)
            st.extend(succs_of(x))
        dom = {b: set(reach) for b in reach}
        dom[entry] = {entry}
        changed = True
        order = [b for b in ids if b in reach]
        while changed:
            changed = False
            for b in order:
                if b == entry:
                    continue
                ps = [p for p in preds_of(b) if p in reach]
                new = set.intersection(*(dom[p] for p in ps)) if ps else set()
                new = new | {b}
                if new != dom[b]:
                    dom[b] = new
                    changed = True
        return dom

    @property
    def dom(self):
        if self._dom is None:
            self._dom = self._dominators(self.entry, lambda b: self.blocks[b].pred,
                                         lambda b: [s for s in self.blocks[b].succ if s >= 0])
        return self._dom

    @property
    def pdom(self):
        if self._pdom is None:
            self._pdom = self._dominators(self.exit, lambda b: [s for s in self.blocks[b].succ if s >= 0],
                                          lambda b: self.blocks[b].pred)
        return self._pdom

    def dominates(self, a, b):
        """position a=(block,pos) dominates position b"""
        if a[0] == b[0]:
            return a[1] <= b[1]
        return a[0] in self.dom.get(b[0], ())

    def postdominates(self, a, b):
        """every path from b to exit passes through a"""
        if a[0] == b[0]:
            return a[1] >= b[1]
        return a[0] in self.pdom.get(b[0], ())

    # ---- loops
    def back_edges(self):
        out = []
        for b in self.blocks.values():
            for s in b.succ:
                if s >= 0 and s in self.dom.get(b.id, ()):
                    out.append((b.id, s))
        return out

    def natural_loop(self, tail, head):
        body, st = {head}, [tail]
        while st:
            x = st.pop()
            if x in body:
                continue
            body.add(x)
            st.extend(self.blocks[x].pred)
        return body


def must_dataflow(cfg, init, transfer_elem, transfer_edge=None, universe=None):
    """Forward must analysis: facts are frozensets, meet is intersection.
    transfer_elem(facts:set, elem) mutates/returns the set; transfer_edge(facts, block, succ_index) likewise.
    Returns IN (dict block -> frozenset or None for unreachable) and a function facts_before(block,pos)."""
    TOP = None
    IN = {b: TOP for b in cfg.blocks}
    IN[cfg.entry] = frozenset(init)
    work = [cfg.entry]
    while work:
        bid = work.pop()
        b = cfg.blocks[bid]
        cur = set(IN[bid])
        for e in b.elems:
            r = transfer_elem(cur, e)
            if r is not None:
                cur = r
        for k, s in enumerate(b.succ):
            if s < 0:
                continue
            out = set(cur)
            if transfer_edge is not None:
                r = transfer_edge(out, b, k)
                if r is not None:
                    out = r
            out = frozenset(out)
            new = out if IN[s] is TOP else (IN[s] & out)
            if IN[s] is TOP or new != IN[s]:
                IN[s] = new
                work.append(s)

    def before(bid, pos):
        if IN[bid] is TOP:
            return None
        cur = set(IN[bid])
        for e in cfg.blocks[bid].elems:
            if e.pos >= pos:
                break
            r = transfer_elem(cur, e)
            if r is not None:
                cur = r
        return cur

    return IN, before


def partitioned_dataflow(cfg, init, transfer_elem, transfer_edge=None, max_states=32):
    """Forward analysis over *sets of fact-sets* (trace partitioning): join is union of states, so correlations between
    facts (a flag is false <=> a loop did not run) survive merges; transfer_edge may return the string 'prune' for an
    infeasible edge. When a block accumulates more than max_states states they are collapsed to their intersection
    (sound for must-facts: obligations are checked on every state).
    Returns before(block, pos) -> list of fact sets (empty list = unreachable)."""
    IN = {b: set() for b in cfg.blocks}
    IN[cfg.entry] = {frozenset(init)}
    work = [cfg.entry]
    rounds = 0
    while work and rounds < 20000:
        rounds += 1
        bid = work.pop()
        b = cfg.blocks[bid]
        outs = []
        for st in IN[bid]:
            cur = set(st)
            for e in b.elems:
                r = transfer_elem(cur, e)
                if r is not None:
                    cur = r
            outs.append(cur)
        for k, s in enumerate(b.succ):
            if s < 0:
                continue
            new_states = set()
            for cur in outs:
                out = set(cur)
                if transfer_edge is not None:
                    r = transfer_edge(out, b, k)
                    if isinstance(r, str) and r == "prune":
                        continue
                    if r is not None:
                        out = r
                new_states.add(frozenset(out))
            merged = IN[s] | new_states
            if len(merged) > max_states:
                inter = None
                for m in merged:
                    inter = set(m) if inter is None else (inter & m)
                merged = {frozenset(inter or ())}
            if merged != IN[s]:
                IN[s] = merged
                work.append(s)

    def before(bid, pos):
        res = []
        for st in IN[bid]:
            cur = set(st)
            for e in cfg.blocks[bid].elems:
                if e.pos >= pos:
                    break
                r = transfer_elem(cur, e)
                if r is not None:
                    cur = r
            res.append(cur)
        return res

    return IN, before
