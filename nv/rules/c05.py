"""C05 - penalty / augmented-Lagrangian functions match their definitions; AL converges feasibly (DESIGN 3, C05)."""
import re

import sympy as sp

from ..facts import AnalysisBroken, walk, strip_targs
from ..pp import pp, skip, canon_text as CT
from ..util import (args, assignment, callee, incdec, is_call, obj, strip_not, literal_value, find_var, parameter_name, writes_in,
                    root_of, unwrap_view)
from ..util import ref_decl_v as ref_decl
from .. import kalg

META = {
    "level": "other",
    "technique": "expression algebra on the penalty kernels (value = definition, gradient = derivative of the value), variant-alternative tables and static overload resolution of every std::visit, co-update / ordering rules in the solvers",
    "explanation": "Decides: the value added per constraint by the linear, quadratic and augmented-Lagrangian functions equals "
                   "c|h| / c max(0,g), c h^2 / c max(0,g)^2 and (ro/2)(h + lambda/ro)^2 / (ro/2) max(0, g + mu/ro)^2 (guards included), "
                   "vanishes at feasible points with zero multipliers, and the gradient added is the derivative of that value times "
                   "the constraint gradient; the objective part is function.vgrad(x, gx) of the same point; the set of variant "
                   "alternatives classified as equalities is exactly {*_equality_t, constant_t} in every copy and the counters "
                   "partition the constraints; every std::visit over constraint_t resolves each of the 11 alternatives to the intended "
                   "overload (minimum/maximum/constant stay distinct down to the ::vgrad overload called); valid() uses |.| for "
                   "equalities and max(., 0) for inequalities; every constraint kind's gradient is the derivative of its value; the "
                   "multiplier index is one counter per kind advanced once per constraint in the function, the state and the solver; "
                   "the state recomputes its constraint values on every move; the AL solver copies the new iterate into the returned "
                   "state before done() is consulted, reports converged only with criterion <= epsilon over both constraint kinds, and "
                   "returns that state.",
    "not_decided": "that the augmented-Lagrangian solver reaches convergence; numerical accuracy of the inner solves",
    "assumptions": ["quadratic constraints use a symmetric matrix P (scalarised check: P x and (P+P')x/2 coincide)"],
}

TUS = ["src/function/penalty.cpp", "src/function/constraint.cpp", "src/solver/augmented.cpp", "src/solver/penalty.cpp", "src/solver/state.cpp",
       "src/function.cpp"]

FC, GC, C_, RO, MU = (kalg.sym(n) for n in ("fc", "gc", "c", "ro", "mu"))


def op_lambda(F, f):
    for lam, g in F.lambdas_in(f):
        if len(g.params) == 2 and g.params[0]["n"] == "fc":
            return g
    return None


def rule_al_semantics(F, R, f):
    """the contribution of ONE constraint to the augmented-Lagrangian value and gradient, obtained by interpreting the loop body for an
    equality and for an inequality (both with and without a gradient request), against the definition"""
    from ..symexec import Interp
    rf = [x for x in f.nodes() if x["k"] == "rangefor"]
    if len(rf) != 1:
        raise AnalysisBroken("augmented lagrangian: expected one loop over the constraints")
    body = rf[0]["c"][rf[0]["r"].index("body")]
    roles = {}
    for v in f.nodes():
        if v["k"] != "var" or not v.get("c"):
            continue
        init = skip(v["c"][0])
        calls = [callee(c) for c in walk(init) if c["k"] == "call"]
        t = pp(init)
        if "nano::function_t::vgrad" in calls and "function()" in t:
            roles["fx"] = v
        elif "nano::vgrad" in calls:
            roles["fc"] = v
        elif "nano::is_equality" in calls:
            roles["eq"] = v
        elif t == "penalty()":
            roles["ro"] = v
        elif "m_lambda" in t and "m_miu" in t:
            roles["mu"] = v
    gcv = None
    if roles.get("fc") is not None:
        a_ = args([c for c in walk(roles["fc"]["c"][0]) if c["k"] == "call" and callee(c) == "nano::vgrad"][0])
        d = ref_decl(a_[2]) if len(a_) >= 3 else None
        gcv, _ = find_var(f, d) if d is not None else (None, None)
        okx = len(a_) >= 3 and ref_decl(a_[1]) == f.params[0]["d"]
        R.check(okx, "R-C05-1", "augmented lagrangian base", f.loc(roles["fc"]), "the constraint is evaluated at the objective's own argument", "the constraint is not evaluated at x")
    missing = [k for k in ("fx", "fc", "eq", "ro", "mu") if roles.get(k) is None] + ([] if gcv is not None else ["gc"])
    if missing:
        raise AnalysisBroken("augmented lagrangian: cannot identify the locals playing the roles %s" % missing)
    fxa = args([c for c in walk(roles["fx"]["c"][0]) if c["k"] == "call" and callee(c) == "nano::function_t::vgrad"][0])
    R.check([ref_decl(z) for z in fxa[:2]] == [f.params[0]["d"], f.params[1]["d"]], "R-C05-1", "augmented lagrangian objective", f.loc(roles["fx"]),
            "the objective part is function().vgrad(x, gx)", "the objective part is not evaluated at (x, gx)")
    FX0, G0, X0 = kalg.sym("fx0"), kalg.sym("g0"), kalg.sym("x0")
    preset = {roles[k]["d"] for k in ("fc", "eq", "mu", "ro")} | {gcv["d"]}
    arg = RO / 2 * (FC + MU / RO) ** 2
    # the multiplier as the body uses it: the stored lambda / miu entry itself (any sign), whatever the selection expression does to it
    mu_eff = {}
    init = roles["mu"]["c"][0]
    atoms = {}
    for y in walk(init):
        if y["k"] == "call" and y.get("op") == "()" and y.get("c") and skip(y["c"][0])["k"] == "mem" and skip(y["c"][0])["n"] in ("m_lambda", "m_miu"):
            atoms[pp(y)] = "mu"
    try:
        e_ = kalg.Conv(f, atoms=atoms, funcs={"std::max": lambda u, v: sp.Max(u, v), "std::min": lambda u, v: sp.Min(u, v), "std::fabs": lambda u: sp.Abs(u)},
                       subst={roles["eq"]["d"]: sp.Symbol("eqflag")}, inline=False).conv(init)
        for eq in (True, False):
            v_ = e_.subs(sp.Symbol("eqflag"), sp.true if eq else sp.false) if hasattr(e_, "subs") else e_
            v_ = sp.piecewise_fold(v_) if isinstance(v_, sp.Basic) else v_
            mu_eff[eq] = sp.simplify(v_.subs(kalg.sym("mu"), MU)) if isinstance(v_, sp.Basic) else MU
    except kalg.OutOfFragment:
        mu_eff = {True: MU, False: MU}
    res = {}
    try:
        for eq in (True, False):
            for grad in (True, False):
                it = Interp(F, f, n=1)
                it.env[f.params[0]["d"]] = [X0]
                it.env[f.params[1]["d"]] = [G0] if grad else []
                it.env[roles["fx"]["d"]] = FX0
                it.env[roles["ro"]["d"]] = RO
                it.env[roles["fc"]["d"]] = FC
                it.env[roles["mu"]["d"]] = mu_eff[eq]
                it.env[roles["eq"]["d"]] = sp.true if eq else sp.false
                it.env[gcv["d"]] = [GC]
                for st in body.get("c", ()):
                    if st["k"] == "declstmt" and any(v["k"] == "var" and v["d"] in preset for v in st.get("c", ())):
                        continue
                    it.ex(st)
                dv = sp.simplify(it.env[roles["fx"]["d"]] - FX0)
                dg = sp.simplify(it.env[f.params[1]["d"]][0] - G0) if grad else None
                res[(eq, grad)] = (dv, dg)
    except kalg.OutOfFragment as e:
        R.incomplete("R-C05-1", "augmented lagrangian", f.loc(), "cannot evaluate the loop body: %s" % e)
        return
    for eq in (True, False):
        want = arg if eq else sp.Piecewise((arg, FC + MU / RO > 0), (0, True))
        wantg = sp.diff(arg, FC) * GC if eq else sp.Piecewise((sp.diff(arg, FC) * GC, FC + MU / RO > 0), (0, True))
        kind = "equality" if eq else "inequality"
        dv, dg = res[(eq, True)]
        dv0, _ = res[(eq, False)]
        z1, w1 = piecewise_equal(dv, want, R.seed)
        z0, w0 = piecewise_equal(dv0, want, R.seed)
        z2, w2 = piecewise_equal(dg, wantg, R.seed)
        R.check(z1 and z0, "R-C05-1", "augmented lagrangian value (%s)" % kind, f.loc(body),
                "an %s adds %s" % (kind, "(ro/2)(h + lambda/ro)^2" if eq else "(ro/2) max(0, g + mu/ro)^2") + " whether or not a gradient is requested",
                "an %s adds %s to the value, the definition is %s %s" % (kind, dv if not z1 else dv0, want, w1 or w0))
        R.check(z2, "R-C05-2", "augmented lagrangian gradient (%s)" % kind, f.loc(body), "the gradient added is the derivative of the value added",
                "an %s adds %s to the gradient, the derivative of the defined value is %s %s" % (kind, dg, wantg, w2))


def piecewise_equal(a, b, seed):
    """equality of two (possibly piecewise) expressions in fc, mu, ro, gc: exact rational sampling on both sides of the kink"""
    import random
    rnd = random.Random(1000 + seed)
    syms = sorted(set(sp.sympify(a).free_symbols) | set(sp.sympify(b).free_symbols), key=lambda s_: s_.name)
    d = sp.simplify(sp.sympify(a) - sp.sympify(b))
    if d == 0:
        return True, ""
    for _ in range(60):
        pt = {}
        for s_ in syms:
            v = sp.Rational(rnd.randint(-50, 50), rnd.randint(1, 7))
            if s_.name == "ro":
                v = sp.Rational(rnd.randint(1, 60), rnd.randint(1, 9))
            pt[s_] = v
        try:
            val = sp.simplify(d.subs(pt))
        except Exception:
            return False, "(cannot evaluate the difference)"
        if val != 0:
            return False, "(differs by %s at %s)" % (sp.N(val, 6), {str(k): str(v) for k, v in pt.items()})
    return True, ""


def rule_kernels(F, R):
    # guard of penalty_vgrad
    pv = [g for g in F.in_file("src/function/penalty.cpp") if g.name == "penalty_vgrad"]
    if not pv:
        raise AnalysisBroken("penalty_vgrad not found")
    g = pv[0]
    ifs = [x for x in g.nodes() if x["k"] == "if"]
    cond = pp(ifs[0]["c"][ifs[0]["r"].index("cond")]) if ifs else None
    R.check(cond in (CT("(eq || (fc > 0))"), CT("(eq || (fc > 0.0))")), "R-C05-1", "penalty guard", g.loc(), "a constraint contributes iff it is an equality or violated (fc > 0)",
            "penalty guard is %s" % cond)
    vars_ = {v["n"]: pp(v["c"][0]) for v in g.nodes() if v["k"] == "var" and v.get("c")}
    R.check(vars_.get("fx") == "function.vgrad(x, gx)" and vars_.get("fc") == "vgrad(constraint, x, gc)" and vars_.get("eq") == "is_equality(constraint)", "R-C05-1",
            "penalty base", g.loc(), "objective part is function.vgrad(x, gx); constraint value/gradient from ::nano::vgrad at the same x", "penalty_vgrad locals are %s" % vars_)
    spec = {"nano::linear_penalty_function_t": C_ * sp.Abs(FC), "nano::quadratic_penalty_function_t": C_ * FC ** 2}
    for cls, want in spec.items():
        f = F.one(cls + "::do_vgrad", "src/function/penalty.cpp")
        lam = op_lambda(F, f)
        if lam is None:
            R.incomplete("R-C05-1", cls, f.loc(), "operator lambda not found")
            continue
        rets = [x for x in lam.nodes() if x["k"] == "return"]
        incs = [x for x in lam.nodes() if assignment(x) and assignment(x)[2] == "+=" and kalg.designator(assignment(x)[0]) == "gx"]
        atoms = {"penalty()": C_, "fc": FC, "gc": GC}
        try:
            V = kalg.Conv(lam, atoms=atoms, scalar=True).conv(rets[0]["c"][0])
            E = kalg.Conv(lam, atoms=atoms, scalar=True).conv(assignment(incs[0])[1])
        except (kalg.OutOfFragment, IndexError) as e:
            R.incomplete("R-C05-1", cls, lam.loc(), str(e))
            continue
        z, wit = kalg.is_zero(V - want, R.seed)
        R.check(bool(z), "R-C05-1", cls.split("::")[-1] + " value", lam.loc(), "value added = %s" % want, "value added is %s, the definition is %s %s" % (V, want, wit))
        z, wit = kalg.is_zero(E - sp.diff(want, FC) * GC, R.seed)
        R.check(bool(z), "R-C05-2", cls.split("::")[-1] + " gradient", lam.loc(), "gradient added = d(value)/d(fc) * gc = %s" % (sp.diff(want, FC) * GC),
                "gradient added is %s, the derivative of the value is %s %s" % (E, sp.diff(want, FC) * GC, wit))
        # value is returned outside the gradient guard (value-only calls get the same value)
        guarded = any(anc["k"] == "if" for anc in lam.ancestors(rets[0]))
        R.check(not guarded, "R-C05-1", cls.split("::")[-1] + " value unguarded", lam.loc(), "the value does not depend on whether a gradient is requested", "the value is computed under the gradient guard")
        R.check(want.subs(FC, 0) == 0, "R-C05-1", cls.split("::")[-1] + " feasible point", lam.loc(), "no contribution at h = 0", "non-zero contribution at a feasible point")
    # augmented lagrangian
    f = F.one("nano::augmented_lagrangian_function_t::do_vgrad", "src/function/penalty.cpp")
    rule_al_semantics(F, R, f)
    # R-C05-7 multiplier pairing
    mu = [v for v in f.nodes() if v["k"] == "var" and v["n"] == "mu" and v.get("c")]
    # structure, not spelling: a selection on `eq` whose equality arm reads m_lambda at a post-incremented counter and whose inequality arm reads
    # m_miu at another one (whatever else the arms do to the value is the business of R-C05-1/2)
    okm = False
    if mu:
        sel = skip(mu[0]["c"][0])
        if sel["k"] == "cond" and pp(sel["c"][0]) == "eq":
            arms = [[pp(y) for y in walk(sel["c"][i_]) if y["k"] == "call" and y.get("op") == "()"] for i_ in (1, 2)]
            okm = "m_lambda((ilambda++))" in arms[0] and "m_miu((imiu++))" in arms[1] and not any("m_miu" in t_ for t_ in arms[0]) and not any("m_lambda" in t_ for t_ in arms[1])
    others = [x for x in f.nodes() if incdec(x) and pp(incdec(x)[0]) in ("ilambda", "imiu")]
    R.check(okm and len(others) == 2, "R-C05-7", "AL multiplier index", f.loc(mu[0]) if mu else f.loc(), "one counter per kind, advanced once per constraint of that kind",
            "multiplier selection is %s with %d counter increments" % (pp(mu[0]["c"][0]) if mu else None, len(others)))
    rf = [x for x in f.nodes() if x["k"] == "rangefor"]
    R.check(len(rf) == 1 and pp(rf[0]["c"][1]) == "constraints()", "R-C05-7", "AL traversal", f.loc(), "constraints are traversed in declaration order", "AL traverses %s" % (pp(rf[0]["c"][1]) if rf else None))


def rule_equalities(F, R):
    alias = F.aliases.get("nano::constraint_t")
    if not alias:
        raise AnalysisBroken("alias nano::constraint_t not found")
    alts = [a.strip() for a in re.findall(r"nano::constraint::(\w+)", alias["t"])]
    if len(alts) != 11:
        R.incomplete("R-C05-3", "constraint alternatives", alias["file"], "expected 11 variant alternatives, found %d" % len(alts))
    want = sorted({a for a in alts if a.endswith("_equality_t")} | {"constant_t"})
    ie = F.one("nano::is_equality", "src/function/constraint.cpp")
    got = sorted({t.split("::")[-1] for c in ie.calls(lambda x: callee(x) == "std::get_if") for t in c.get("targs", [])[:1]})
    R.check(got == want, "R-C05-3", "is_equality", ie.loc(), "equalities are exactly %s" % want, "is_equality recognises %s, the equality kinds are %s" % (got, want))
    # every get_if result is compared != nullptr and combined with ||
    rets = [x for x in ie.nodes() if x["k"] == "return"]
    txt = pp(rets[0]["c"][0]) if rets else ""
    R.check(txt.count("!= nullptr") == len(got) and "&&" not in txt, "R-C05-3", "is_equality shape", ie.loc(), "disjunction of get_if<T> != nullptr", "is_equality is " + txt[:120])
    le = [g for g in F.in_file("src/function/penalty.cpp") if g.name == "is_linear_equality"]
    for g in le:
        sub = sorted({t.split("::")[-1] for c in g.calls(lambda x: callee(x) == "std::get_if") for t in c.get("targs", [])[:1]})
        R.check(set(sub) <= set(want) and sub == ["constant_t", "linear_equality_t"], "R-C05-3", "is_linear_equality", g.loc(), "linear equalities are constant_t and linear_equality_t (a subset of the equalities)",
                "is_linear_equality recognises %s" % sub)
    for name, neg in (("count_equalities", False), ("count_inequalities", True)):
        for g in F.fn("nano::" + name, "src/function/constraint.cpp"):
            if "vector" not in g.params[0]["t"]:
                continue
            ok = False
            for lam, body in F.lambdas_in(g):
                rets = [x for x in body.nodes() if x["k"] == "return"]
                if rets:
                    ok = pp(rets[0]["c"][0]) == ("(!is_equality(constraint))" if neg else "is_equality(constraint)")
            R.check(ok, "R-C05-3", name, g.loc(), "counts constraints with %sis_equality" % ("!" if neg else ""), name + " no longer partitions by is_equality")


def bases_of(F, name):
    out, todo = [], ["nano::constraint::" + name]
    while todo:
        c = todo.pop()
        cl = F.cls(c)
        if not cl:
            continue
        for b in cl[0]["bases"]:
            out.append(b.split("::")[-1])
            todo.append(b)
    return out


def rule_visits(F, R):
    alias = F.aliases.get("nano::constraint_t")
    alts = re.findall(r"nano::constraint::(\w+)", alias["t"])
    n = 0
    for f in F.in_file("src/function/constraint.cpp"):
        if f.cls or f.is_lambda or not f.qn.startswith("nano::"):
            continue
        visits = [c for c in f.calls(lambda x: callee(x) == "std::visit")]
        if not visits:
            continue
        lams = [(lam, g) for lam, g in F.lambdas_in(f) if len(g.params) == 1 and "nano::constraint::" in g.params[0]["t"]]
        by_type = {}
        for lam, g in lams:
            t = re.search(r"nano::constraint::(\w+)", g.params[0]["t"]).group(1)
            by_type[t] = g
        n += 1
        resolved = {}
        for a in alts:
            chain = [a] + bases_of(F, a)
            tgt = next((t for t in chain if t in by_type), None)
            resolved[a] = tgt
        unresolved = [a for a, t in resolved.items() if t is None]
        inst = f.qn.split("::")[-1]
        R.check(not unresolved, "R-C05-4", inst + " covers alternatives", f.loc(), "all 11 alternatives resolve to an overload", "alternatives without an overload: %s" % unresolved)
        if f.name in ("vgrad", "valid"):
            trio = [resolved.get(k) for k in ("constant_t", "minimum_t", "maximum_t")]
            R.check(trio == ["constant_t", "minimum_t", "maximum_t"], "R-C05-4", inst + " bound kinds", f.loc(),
                    "constant, minimum and maximum constraints resolve to three distinct overloads",
                    "constant_t/minimum_t/maximum_t resolve to %s: a bound constraint silently uses another kind's sign" % trio)
            # the overload each lambda calls takes exactly the lambda's own type
            for t, g in sorted(by_type.items()):
                inner = [c for c in g.calls(lambda x: callee(x).endswith("::" + f.name) and not callee(x).startswith("nano::"))]
                if len(inner) != 1:
                    continue
                key = inner[0].get("key", "")
                m = re.search(r"\(const nano::constraint::(\w+) &", key)
                R.check(m is not None and m.group(1) == t, "R-C05-4", "%s overload for %s" % (inst, t), g.loc(),
                        "calls the %s overload declared for %s" % (f.name, t), "the %s overload for %s is gone: the call resolves to %s" % (f.name, t, m.group(1) if m else key[:60]))
    R.floor("R-C05-4", n, 6, "std::visit dispatchers")


def rule_valid(F, R):
    n = 0
    for f in F.in_file("src/function/constraint.cpp"):
        if f.name != "valid" or f.cls or f.is_lambda or f.qn.startswith("nano::"):
            continue
        t = re.search(r"nano::constraint::(\w+)", f.params[0]["t"]).group(1)
        rets = [x for x in f.nodes() if x["k"] == "return"]
        txt = pp(rets[0]["c"][0]).replace("<double>", "") if rets else ""
        n += 1
        if t.endswith("_equality_t"):
            ok = txt == "fabs(vgrad(constraint, x, tensor_t()))" or txt.startswith("fabs(vgrad(constraint, x")
            want = "|value|"
        elif t.endswith("_inequality_t"):
            ok = txt.startswith("max(vgrad(constraint, x") and txt.endswith(", 0)")
            want = "max(value, 0)"
        elif t == "constant_t":
            ok = txt in ("fabs((constraint.m_value - x(constraint.m_dimension)))", "fabs((x(constraint.m_dimension) - constraint.m_value))")
            want = "|value - x_d|"
        elif t == "minimum_t":
            ok = txt == "max((constraint.m_value - x(constraint.m_dimension)), 0)"
            want = "max(min - x_d, 0)"
        elif t == "maximum_t":
            ok = txt == "max((x(constraint.m_dimension) - constraint.m_value), 0)"
            want = "max(x_d - max, 0)"
        else:
            continue
        R.check(ok, "R-C05-5", "valid(%s)" % t, f.loc(), "violation measure is " + want, "violation of %s is measured as %s" % (t, txt))
    R.floor("R-C05-5", n, 11, "valid() overloads")


def rule_constraint_gradients(F, R):
    n = 0
    X = kalg.sym("x")
    for f in F.in_file("src/function/constraint.cpp"):
        if f.name != "vgrad" or f.cls or f.is_lambda or f.qn.startswith("nano::") or len(f.params) != 3:
            continue
        t = re.search(r"nano::constraint::(\w+)", f.params[0]["t"]).group(1)
        if t == "functional_t":
            continue
        rets = [x for x in f.nodes() if x["k"] == "return"]
        asg = [x for x in f.nodes() if assignment(x) and assignment(x)[2] == "="]
        n += 1
        inst = "vgrad(%s)" % t
        if t in ("minimum_t", "maximum_t", "constant_t"):
            atoms = {"x(constraint.m_dimension)": X, "constraint.m_value": kalg.sym("value")}
            try:
                V = kalg.Conv(f, atoms=atoms).conv(rets[0]["c"][0])
            except kalg.OutOfFragment as e:
                R.incomplete("R-C05-6", inst, f.loc(), str(e))
                continue
            lit = [literal_value(assignment(a)[1]) for a in asg if "gx.full(0)" in pp(assignment(a)[0]).replace("0.0", "0") and "constraint.m_dimension" in pp(assignment(a)[0])]
            R.check(len(lit) == 1 and sp.diff(V, X) == lit[0], "R-C05-6", inst, f.loc(), "gradient entry %s at the constrained dimension, 0 elsewhere; value %s" % (sp.diff(V, X), V),
                    "value %s has derivative %s but the gradient entry is %s" % (V, sp.diff(V, X), lit))
            continue
        gx = [a for a in asg if kalg.designator(assignment(a)[0]) == "gx"]
        atoms = {"constraint.m_origin": kalg.sym("o"), "constraint.m_radius": kalg.sym("r"), "constraint.m_q": kalg.sym("q"), "constraint.m_r": kalg.sym("r0"),
                 "P": kalg.sym("P"), "q": kalg.sym("q"), "x": X, "x.vector()": X}
        try:
            V = kalg.Conv(f, atoms=atoms, scalar=True, inline=False).conv(rets[0]["c"][0])
            E = kalg.Conv(f, atoms=atoms, scalar=True, inline=False).conv(assignment(gx[0])[1])
        except (kalg.OutOfFragment, IndexError) as e:
            R.incomplete("R-C05-6", inst, f.loc(), str(e))
            continue
        z, wit = kalg.is_zero(sp.diff(V, X) - E, R.seed)
        R.check(bool(z), "R-C05-6", inst, f.loc(), "gradient %s is the derivative of the value %s (1x1 instance)" % (E, V), "value %s has derivative %s but the gradient is %s %s" % (V, sp.diff(V, X), E, wit))
    R.floor("R-C05-6", n, 6, "constraint vgrad overloads")


def rule_state_constraints(F, R):
    """R-C05-7: solver_state_t::update_constraints files the value of every constraint under its own kind - a write to m_ceq / m_cineq is
    control-dependent on is_equality(<the loop's constraint>) being true / false -, in the slot given by a per-kind counter (0 before the
    loop, incremented exactly in that kind's branch), with the value vgrad(constraint, m_x, .) of that very constraint, and the Lagrangian
    gradient weights the same gradient with the multiplier of the same kind and slot"""
    f = F.one("nano::solver_state_t::update_constraints", "src/solver/state.cpp")
    rf = [x for x in f.nodes() if x["k"] == "rangefor"]
    if len(rf) != 1 or pp(rf[0]["c"][1]) != "m_function.constraints()":
        R.bad("R-C05-7", "state constraint values", f.loc(), "update_constraints no longer walks m_function->constraints() once")
        return
    loop = rf[0]
    lv = [v for v in walk(loop["c"][0])] if loop["c"][0] is not None else []
    lvar = next((v for v in walk(loop) if v["k"] == "var" and v["n"] == "constraint"), None) or next((v for v in lv if v["k"] == "var"), None)
    if lvar is None:
        R.incomplete("R-C05-7", "state constraint values", f.loc(), "loop variable not found")
        return

    def kind_of(x):
        """+1 / -1 when x is executed only if is_equality(loop constraint) is true / false; 0 when it is not control-dependent on that test"""
        k = 0
        child = x
        for a_ in f.ancestors(x):
            if a_ is loop:
                break
            if a_["k"] == "if":
                cnd = skip(a_["c"][a_["r"].index("cond")])
                neg = False
                while cnd["k"] == "un" and cnd.get("op") == "!":
                    neg, cnd = not neg, skip(cnd["c"][0])
                if cnd["k"] == "call" and callee(cnd).endswith("is_equality") and ref_decl(args(cnd)[0]) == lvar["d"]:
                    then = a_["c"][a_["r"].index("then")]
                    in_then = any(z is child for z in walk(then))
                    k = (1 if in_then else -1) * (-1 if neg else 1)
            child = a_
        return k

    def value_ok(n, depth=0):
        n = skip(n)
        if n["k"] == "call" and callee(n).split("::")[-1] == "vgrad" and len(args(n)) >= 2 and ref_decl(args(n)[0]) == lvar["d"] and pp(args(n)[1]) == "m_x":
            return True
        if n["k"] == "ref" and depth < 3:
            v = [q for q in walk(loop) if q["k"] == "var" and q.get("d") == n.get("d") and q.get("c")]
            return len(v) == 1 and value_ok(v[0]["c"][0], depth + 1)
        return False
    stores = {}
    for x in walk(loop):
        a = assignment(x)
        if a and a[2] == "=":
            l = skip(a[0])
            if l["k"] == "call" and l.get("op") == "()" and len(l["c"]) == 2 and skip(l["c"][0])["k"] == "mem" and skip(l["c"][0])["n"] in ("m_ceq", "m_cineq"):
                stores.setdefault(skip(l["c"][0])["n"], []).append((x, l["c"][1], a[1]))
    ok, why = True, ""
    counters = {}
    for mem, want in (("m_ceq", 1), ("m_cineq", -1)):
        st = stores.get(mem, [])
        if len(st) != 1:
            ok, why = False, "%s is stored %d times per constraint" % (mem, len(st))
            break
        x, idx, val = st[0]
        if kind_of(x) != want:
            ok, why = False, "the store into %s is not guarded by is_equality(constraint) being %s: constraints are filed by position, not by kind - an inequality registered before an " \
                "equality lands in the other kind's slot (and is weighted with the other kind's multiplier)" % (mem, "true" if want == 1 else "false")
            break
        if not value_ok(val):
            ok, why = False, "the value stored into %s is not vgrad(constraint, m_x, ..) of the loop's constraint: %s" % (mem, pp(val)[:60])
            break
        ix = skip(idx)
        while ix["k"] == "cast" and ix.get("c"):
            ix = skip(ix["c"][0])
        d_ = ix.get("d") if ix["k"] == "ref" else None
        iv = [v for v in f.nodes() if v["k"] == "var" and v.get("d") == d_] if d_ is not None else []
        incs = [y for y in walk(loop) if incdec(y) and ref_decl(incdec(y)[0]) == d_]
        if not (len(iv) == 1 and iv[0].get("c") and literal_value(iv[0]["c"][0]) == 0 and not any(z is iv[0] for z in walk(loop))):
            ok, why = False, "the slot of %s is not a counter initialised with 0 before the loop: %s" % (mem, pp(idx)[:40])
            break
        if not (len(incs) == 1 and kind_of(incs[0]) == want and skip(incs[0])["k"] == "un" and skip(incs[0]).get("op") == "++"):
            ok, why = False, "the counter of %s is not incremented exactly once in its own kind's branch" % mem
            break
        counters[mem] = d_
    if ok and counters["m_ceq"] == counters["m_cineq"]:
        ok, why = False, "both kinds share one counter"
    R.check(ok, "R-C05-7", "state constraint values", f.loc(), "stored constraint values are recomputed at m_x, filed by kind (is_equality), one slot per kind in declaration order",
            "update_constraints: " + why)
    # Lagrangian gradient uses the matching multiplier: m_lgx += <multiplier of the same kind>(<same counter>) * <the gradient vgrad just wrote>
    lg = [(x, assignment(x)[1]) for x in walk(loop) if assignment(x) and assignment(x)[2] == "+=" and kalg.designator(assignment(x)[0]) == "m_lgx"]
    okl, whyl = len(lg) == 2, "expected one Lagrangian gradient term per kind, found %d" % len(lg)
    if okl and ok:
        for x, rhs in lg:
            k = kind_of(x)
            mem = {1: "m_meq", -1: "m_mineq"}.get(k)
            cnt = counters["m_ceq"] if k == 1 else counters["m_cineq"]
            r_ = skip(rhs)
            parts = [skip(c_) for c_ in r_.get("c", ())] if r_["k"] in ("bin", "call") and r_.get("op") == "*" else []
            mult = [p_ for p_ in parts if p_["k"] == "call" and p_.get("op") == "()" and len(p_["c"]) == 2 and skip(p_["c"][0])["k"] == "mem"]
            grad = [p_ for p_ in parts if p_["k"] == "ref"]
            gname = next((pp(args(c_)[2]) for c_ in walk(loop) if c_["k"] == "call" and callee(c_).split("::")[-1] == "vgrad" and len(args(c_)) >= 3 and ref_decl(args(c_)[0]) == lvar["d"]), None)
            if mem is None or len(mult) != 1 or skip(mult[0]["c"][0])["n"] != mem or next((y.get("d") for y in walk(mult[0]["c"][1]) if y["k"] == "ref"), None) != cnt or len(grad) != 1 or pp(grad[0]) != gname:
                okl, whyl = False, "the %s branch adds `%s`" % ({1: "equality", -1: "inequality"}.get(k, "unguarded"), pp(rhs)[:60])
                break
    elif okl:
        okl, whyl = False, "the constraint values are not filed by kind (see above)"
    R.check(okl, "R-C05-7", "lagrangian gradient pairing", f.loc(), "constraint k of a kind is weighted by multiplier k of that kind", "Lagrangian gradient: " + whyl)
    k1 = F.one("nano::solver_state_t::kkt_optimality_test1", "src/solver/state.cpp")
    k2 = F.one("nano::solver_state_t::kkt_optimality_test2", "src/solver/state.cpp")
    r1 = pp([x for x in k1.nodes() if x["k"] == "return"][0]["c"][0])
    r2 = pp([x for x in k2.nodes() if x["k"] == "return"][0]["c"][0])
    R.check(r1 == "m_cineq.array().max(0).matrix().lpNorm<-1>()" and r2 == "m_ceq.lpNorm<-1>()", "R-C05-7", "feasibility residuals", k1.loc(),
            "feasibility KKT residuals are ||max(g,0)||_inf and ||h||_inf of the stored values", "KKT feasibility tests are %s / %s" % (r1, r2))


def stmt_index(block, node):
    for i, s in enumerate(block.get("c", ())):
        if any(y is node for y in walk(s)):
            return i
    return None


def rule_solvers(F, R):
    f = F.one("nano::solver_augmented_lagrangian_t::do_minimize", "src/solver/augmented.cpp")
    loops = [x for x in f.nodes() if x["k"] == "for"]
    if len(loops) != 1:
        R.incomplete("R-C05-8", "AL loop", f.loc(), "expected one outer loop")
        return
    body = loops[0]["c"][loops[0]["r"].index("body")]
    vars_ = {v["n"]: v for v in walk(body) if v["k"] == "var" and v.get("c")}
    eps = {v["d"] for v in f.nodes() if v["k"] == "var" and v.get("c") and parameter_name(v["c"][0]) == "solver::epsilon"}
    okc = "criterion" in vars_ and pp(vars_["criterion"]["c"][0]) == "make_criterion(cstate, miu, ro)"
    conv = vars_.get("converged")
    conj = []
    if conv is not None:
        def split(x):
            x = skip(x)
            if x["k"] == "bin" and x["op"] == "&&":
                split(x["c"][0]); split(x["c"][1])
            else:
                conj.append(x)
        split(conv["c"][0])
    has_crit = any(c["k"] == "bin" and c["op"] in ("<=", "<") and pp(c["c"][0]) == "criterion" and ref_decl(c["c"][1]) in eps for c in conj)
    R.check(okc and has_crit, "R-C05-8", "AL converged flag", f.loc(conv) if conv else f.loc(), "converged requires make_criterion(cstate, miu, ro) <= solver::epsilon",
            "the AL converged flag is `%s`: the feasibility criterion is not compared with solver::epsilon itself (a scaled or different tolerance lets "
            "`converged` be reported with constraints violated by more than epsilon)" % (pp(conv["c"][0]) if conv else None))
    mc = [g for g in F.in_file("src/solver/augmented.cpp") if g.name == "make_criterion"]
    for g in mc[:1]:
        v = {x["n"]: pp(x["c"][0]) for x in g.nodes() if x["k"] == "var" and x.get("c")}
        rets = [x for x in g.nodes() if x["k"] == "return"]
        okm = v.get("hinf") == "state.ceq().lpNorm<-1>()" and v.get("Vinf") == "state.cineq().array().max(((-miu.array()) / ro)).matrix().lpNorm<-1>()" and \
            pp(rets[0]["c"][0]).replace("<double>", "") == "max(hinf, Vinf)"
        R.check(okm, "R-C05-8", "AL criterion", g.loc(), "criterion = max(||h||_inf, ||max(g, -mu/ro)||_inf) covers both constraint kinds", "criterion is %s" % v)
    # ordering inside the iteration
    ups = [c for c in walk(body) if is_call(c, "nano::solver_state_t::update") and pp(obj(c)) == "bstate"]
    dns = [c for c in walk(body) if is_call(c, "nano::solver_t::done")]
    olds = [x for x in walk(body) if assignment(x) and pp(assignment(x)[0]) == "old_criterion"]
    ok = len(ups) == 1 and len(dns) == 1 and len(olds) == 1 and pp(args(ups[0])[0]) == "cstate.x()" and pp(args(dns[0])[0]) == "bstate"
    detail = ""
    if ok:
        iu, idn, io = stmt_index(body, ups[0]), stmt_index(body, dns[0]), stmt_index(body, olds[0])
        icr = stmt_index(body, vars_["criterion"]) if "criterion" in vars_ else None
        ok = None not in (iu, idn, io, icr) and icr < iu < idn < io
        detail = "statement order criterion=%s update=%s done=%s old_criterion=%s" % (icr, iu, idn, io)
        # the update is guarded by an improvement of the criterion
        g_ = [a for a in f.ancestors(ups[0]) if a["k"] == "if"]
        gc_ = pp(g_[0]["c"][g_[0]["r"].index("cond")]) if g_ else ""
        ok = ok and "(criterion < old_criterion)" in gc_
        detail += " guard=" + gc_
    R.check(bool(ok), "R-C05-8", "AL iterate copied before done", f.loc(ups[0]) if ups else f.loc(),
            "within an iteration: criterion, then bstate.update(cstate.x()) if it improved, then done(bstate, ...), then old_criterion = criterion",
            "the returned state is not brought up to the current iterate before done() decides: a converged run returns the previous iterate, "
            "whose constraint violations need not be below epsilon (%s)" % detail)
    rets = [x for x in f.nodes() if x["k"] == "return" and not any(a["k"] == "lambda" for a in f.ancestors(x))]
    R.check(len(rets) == 1 and pp(rets[0]["c"][0]) == "bstate", "R-C05-8", "AL returns bstate", f.loc(), "returns the state passed to done()", "returns another object")
    others = [x for x in f.nodes() if (assignment(x) and pp(assignment(x)[0]) == "bstate")]
    R.check(not others, "R-C05-8", "AL bstate writes", f.loc(), "bstate only changes through update()", "bstate is overwritten directly")
    # multipliers updated from the matching constraint values
    lam = [pp(assignment(x)[1]) for x in walk(body) if assignment(x) and kalg.designator(assignment(x)[0]) == "lambda"]
    miu = [pp(assignment(x)[1]) for x in walk(body) if assignment(x) and kalg.designator(assignment(x)[0]) == "miu"]
    R.check(len(lam) == 1 and "cstate.ceq()" in lam[0] and len(miu) == 1 and "cstate.cineq()" in miu[0] and ".max(0)" in miu[0].replace("0.0", "0"), "R-C05-7", "AL multiplier update", f.loc(),
            "lambda += ro*h (clamped), miu = max(0, miu + ro*g)", "multiplier updates are %s / %s" % (lam, miu))
    # penalty solver
    p = F.one("nano::solver_penalty_t::minimize", "src/solver/penalty.cpp")
    lp = [x for x in p.nodes() if x["k"] == "for"]
    if lp:
        body = lp[0]["c"][lp[0]["r"].index("body")]
        ups = [c for c in walk(body) if is_call(c, "nano::solver_state_t::update") and pp(obj(c)) == "bstate"]
        dns = [c for c in walk(body) if is_call(c, "nano::solver_t::done")]
        ok = len(ups) == 1 and len(dns) == 1 and pp(args(ups[0])[0]) == "cstate.x()" and stmt_index(body, ups[0]) < stmt_index(body, dns[0])
        R.check(ok, "R-C05-8", "penalty iterate copied before done", p.loc(), "bstate.update(cstate.x()) precedes done(bstate, ...)", "the penalty solver consults done() before copying the iterate")


def run(ctx):
    R = ctx.report
    F = ctx.facts(TUS)
    rule_kernels(F, R)
    rule_equalities(F, R)
    rule_visits(F, R)
    rule_valid(F, R)
    rule_constraint_gradients(F, R)
    rule_state_constraints(F, R)
    rule_solvers(F, R)
