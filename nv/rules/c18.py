"""C18 - shared const objects are thread-safe with schedule-independent results (DESIGN 3, C18)."""
import re

from ..facts import AnalysisBroken, walk, strip_targs
from ..pp import pp, skip
from ..util import args, assignment, callee, is_call, obj, ref_decl, find_var, root_of, member_path, writes_in, unwrap_view, literal_value

META = {
    "level": "other",
    "technique": "effect analysis of the const interface (mutable fields, hidden writes through pointer members, statics, const-dropping casts, "
                 "escaping mutable references) over the closure of shared classes; parallel-body write discipline over every task lambda; "
                 "slot discipline of ml::tune; clone-per-call typestate of the line-search objects",
    "explanation": "Decides the structural conditions under which a const object can be shared: (1) in the closure of the shared classes (solver, "
                   "loss, dataset, datasource, generator, weak learner, model, tuner, splitter, line-search prototypes and everything they hold) "
                   "no const method writes through `this` - no mutable fields except synchronisation primitives and one loader-only cache, no non-const "
                   "call through pointer members except the four explicit dataset mutators, no const-dropping cast, no mutable reference to "
                   "internals handed out except the (synchronised, C17) thread pool; (2) the only non-const statics are the eleven factories, each "
                   "populated inside std::call_once; (3) every task body handed to pool_t::map / the dataset iterators writes only its own locals, "
                   "storage selected by its worker id, or slices selected by its own range; (4) ml::tune tasks write slot (old_trials + index / folds, "
                   "index % folds) - a bijection of the task index - and read only slots of earlier batches (closest_trial bounded by old_trials, the "
                   "first batch has a single trial); (5) history-carrying line-search objects are cloned per minimize call and never stored; (6) objects whose "
                   "const interface writes hidden per-call state (iterators with per-worker buffers, function objects, line-search and program objects) are "
                   "never shared between concurrent tasks or between the fold/trial callbacks of ml::tune in a way that reaches that state.",
    "not_decided": "bit-identical results across thread counts (floating-point re-association), the absence of races inside the standard library and Eigen, "
                   "user code calling the explicit mutators (drop/shuffle) or the non-const factory concurrently",
    "assumptions": ["each thread uses its own function_t object (stated by the property)", "std::call_once, std::mutex and std::condition_variable behave as specified"],
}

ROOTS = ["nano::solver_t", "nano::loss_t", "nano::dataset_t", "nano::datasource_t", "nano::generator_t", "nano::wlearner_t", "nano::learner_t",
         "nano::linear_t", "nano::gboost_model_t", "nano::tuner_t", "nano::splitter_t", "nano::lsearch0_t", "nano::lsearchk_t", "nano::feature_t"]

QUICK_TUS = ["src/solver.cpp", "src/solver/lsearch.cpp", "src/lsearch0.cpp", "src/lsearchk.cpp", "src/machine/tune.cpp", "src/machine/result.cpp", "src/dataset.cpp",
             "src/dataset/iterator.cpp", "src/linear.cpp", "src/gboost/model.cpp", "src/function.cpp", "src/core/parallel.cpp", "src/tuner.cpp", "src/feature.cpp",
             "src/loss.cpp", "src/generator.cpp", "src/datasource.cpp", "src/splitter.cpp", "src/wlearner.cpp", "src/learner.cpp", "src/gboost/function.cpp",
             "src/gboost/util.cpp", "src/linear/function.cpp", "src/linear/util.cpp", "src/datasource/linear.cpp", "witness/effects_inst.cpp"]

# mutable fields tolerated inside the shared closure
SYNC_TYPES = ("std::mutex", "std::condition_variable", "std::once_flag")
MUTABLE_OK = {
    ("nano::feature_t", "m_labels"): "label dictionary filled lazily by set_label(); reachable only from the non-const datasource loader (checked: R-C18-1 who-may-call)",
}
# const methods allowed to modify state through pointer members
CONST_MUTATORS_OK = {
    "nano::dataset_t::drop": "explicit mutator of the generators (documented as such), not part of the concurrent read interface",
    "nano::dataset_t::undrop": "explicit mutator of the generators",
    "nano::dataset_t::shuffle": "explicit mutator of the generators",
    "nano::dataset_t::unshuffle": "explicit mutator of the generators",
    "nano::parallel::worker_t::operator()": "worker loop: queue accessed under its mutex (decided by C17)",
    "nano::feature_t::set_label": "see MUTABLE_OK",
}
ESCAPES_OK = {"nano::dataset_t::thread_pool": "the pool is internally synchronised (C17); map() only enqueues and waits on its own futures"}
PARALLEL_BODY_OK = {
    "nano::linear_datasource_t::do_load": "non-const synthetic-data loader (outside the const interface); writes sample i + range.begin() of its own range",
}


def closure(F):
    cls = F.classes
    missing = [r for r in ROOTS if r not in cls]
    if missing:
        raise AnalysisBroken("shared root classes not found: %s" % missing)
    shared = set(ROOTS)
    names = sorted(cls, key=len, reverse=True)
    pats = {k: re.compile(r"(?<![\w:])" + re.escape(k) + r"(?![\w])") for k in names}
    changed = True
    while changed:
        changed = False
        for k in cls:
            if k not in shared and any(strip_targs(b) in shared or b in shared for b in cls[k].get("bases", ())):
                shared.add(k)
                changed = True
        for k in list(shared):
            for fd in cls[k].get("fields", ()):
                t = fd["t"]
                for k2 in names:
                    if k2 not in shared and k2 in t and pats[k2].search(t):
                        shared.add(k2)
                        changed = True
    return shared


def this_rooted(f, n, depth=0):
    k2, d = root_of(n)
    if k2 == "this":
        return True
    if k2 == "var" and depth < 6:
        var, bi = find_var(f, d)
        if var is None:
            return False
        par = f.parent_of(var)
        ty = var.get("t") or ""
        if par is not None and par["k"] == "rangefor":
            rng = par["c"][par["r"].index("range")]
            return bool(var.get("isref") or "*" in ty or "unique_ptr" in ty) and this_rooted(f, rng, depth + 1)
        if var.get("c") and (var.get("isref") or ty.rstrip().endswith("*")):
            return this_rooted(f, var["c"][0], depth + 1)
    return False


def owner(F, f):
    g = f
    for _ in range(8):
        if not g.is_lambda:
            return g
        ps = F.by_key.get(g.parent)
        if not ps:
            return None
        g = ps[0]
    return None


def rule_effects(F, R, shared):
    cls = F.classes
    # (a) mutable fields
    n = 0
    for k in sorted(shared):
        for fd in cls[k].get("fields", ()):
            if not fd.get("mutable"):
                continue
            n += 1
            inst = "%s::%s" % (k, fd["n"])
            t = fd["t"]
            ok = t in SYNC_TYPES or (k, fd["n"]) in MUTABLE_OK
            R.check(ok, "R-C18-1", "mutable " + inst, "%s:%s" % (k, fd.get("l")), "synchronisation primitive" if t in SYNC_TYPES else MUTABLE_OK.get((k, fd["n"]), ""),
                    "mutable field in a class shared between threads through its const interface: a const method can now write `%s` (%s) without synchronisation" % (fd["n"], t[:60]))
    R.floor("R-C18-1/mutable", n, 3, "mutable fields inside the shared closure")
    # feature_t::set_label only from the loader
    callers = []
    for f in F.functions.values():
        for c in f.calls(lambda x: callee(x) == "nano::feature_t::set_label"):
            o = owner(F, f) or f
            if o.qn != "nano::feature_t::set_label":
                callers.append((o, c, f))
    bad = [(o, c, f) for o, c, f in callers if not (o.relfile == "include/nano/datasource/storage.h" and o.qn == "nano::feature_storage_t::set")]
    # ... and that helper is used by the non-const datasource_t::set only
    up = []
    for f in F.functions.values():
        for c in f.calls(lambda x: callee(x) == "nano::feature_storage_t::set"):
            o = owner(F, f) or f
            up.append((o, c, f))
            if not (o.cls and (o.cls == "nano::datasource_t" or "datasource_t" in o.cls) and not o.is_const):
                bad.append((o, c, f))
    R.check(not bad and bool(callers) and bool(up), "R-C18-1", "set_label callers", "src/feature.cpp:1",
            "the lazily written label dictionary is reached only through feature_storage_t::set from non-const datasource loaders (%d + %d call sites)" % (len(callers), len(up)),
            "feature_t::set_label (hidden write) is now reachable from %s" % ["%s at %s" % (o.qn, f.loc(c)) for o, c, f in bad][:3])
    # (b) hidden writes in const methods / lambdas inside them
    seen = 0
    for f in F.functions.values():
        o = owner(F, f) if f.is_lambda else f
        if o is None or not o.cls or o.cls not in shared or not o.is_const or f.body is None:
            continue
        seen += 1
        for tgt, kind, site in writes_in(f, f.body):
            if not this_rooted(f, tgt):
                continue
            why = CONST_MUTATORS_OK.get(o.qn)
            R.check(why is not None, "R-C18-1", "hidden write %s@%s" % (o.qn, f.loc(site)), f.loc(site), why or "",
                    "const method %s modifies state reachable from `this` (%s): concurrent const use of the shared object is a data race" % (o.qn, pp(site)[:70]))
    R.floor("R-C18-1/const-methods", seen, 150, "const methods of shared classes analysed")
    # (c) mutable references handed out by const methods
    for f in F.functions.values():
        if not f.cls or f.cls not in shared or not f.is_const or f.is_lambda or f.body is None:
            continue
        rt = f.raw.get("ret")
        rt = f.types[rt] if isinstance(rt, int) else (rt or "")
        if (rt.endswith("&") or rt.endswith("*")) and "const" not in rt:
            rets = [x for x in f.nodes() if x["k"] == "return" and x.get("c")]
            if any(this_rooted(f, x["c"][0]) for x in rets):
                why = ESCAPES_OK.get(f.qn)
                R.check(why is not None, "R-C18-1", "escape " + f.qn, f.loc(), why or "", "const method %s hands out a mutable %s to internal state" % (f.qn, rt[:50]))
    # (d) const-dropping casts (expected: none in the library; the witness must be seen)
    hits, wit = [], 0
    for f in F.functions.values():
        for x in f.nodes():
            if x["k"] == "cast" and x.get("ex") and x.get("ck") == "NoOp":
                src = (skip(x["c"][0]) or {}).get("t") or ""
                dst = x.get("t") or ""
                if "const" in src and "const" not in dst and ("*" in dst or "&" in dst):
                    if f.relfile.startswith("witness/") or "/witness/" in f.file:
                        wit += 1
                    else:
                        hits.append("%s: %s" % (f.loc(x), pp(x)[:60]))
    if wit < 1:
        raise AnalysisBroken("the const_cast in witness/effects_inst.cpp was not recognised: the cast rule is blind")
    R.check(not hits, "R-C18-1", "const-dropping casts", "-", "no cast removes const in the library (detector verified on the witness)", "const is cast away: %s" % hits[:3])


def rule_statics(F, R):
    n = 0
    for k, g in sorted(F.gvars.items()):
        if g.get("const") or "/witness/" in g["file"]:
            continue
        n += 1
        where = "%s:%s" % (g["file"].split("/repo/")[-1], g["line"])
        inst = "%s in %s" % (g["qn"], (g.get("fn") or "namespace scope")[:60])
        t = g["t"]
        if t == "std::once_flag":
            R.ok("R-C18-2", inst, where, "once_flag")
            continue
        if g.get("threadlocal"):
            R.ok("R-C18-2", inst, where, "thread-local")
            continue
        ok, why = False, "non-const static state shared by all threads"
        if g.get("staticlocal") and g.get("fn"):
            fs = F.by_key.get(g["fn"], [])
            if fs:
                f = fs[0]
                once = [c for c in f.calls(lambda x: callee(x) == "std::call_once")]
                # every non-const use of the variable is inside the lambda handed to call_once
                lam_ids = set()
                for c in once:
                    for a in args(c)[1:]:
                        a0 = skip(a)
                        if a0["k"] == "ref":
                            var, _ = find_var(f, a0["d"])
                            a0 = skip(var["c"][0]) if var is not None and var.get("c") else a0
                        if a0["k"] == "lambda":
                            lam_ids.add(a0.get("lid"))
                vname = g["qn"].split("::")[-1]
                vn = [v for v in f.nodes() if v["k"] == "var" and v.get("n0", v.get("n")) == vname]
                vname = vn[0]["n"] if vn else vname           # the name it is printed under (canonical local names)
                outside = [pp(site)[:50] for tgt, kind, site in writes_in(f, f.body) if pp(tgt).startswith(vname)]
                inside = 0
                for lid in lam_ids:
                    for h in F.by_lid.get(lid, []):
                        inside += len([1 for tgt, kind, site in writes_in(h, h.body) if pp(tgt).startswith(vname)])
                ok = bool(once) and not outside and inside > 0
                why = "static `%s` is modified outside std::call_once: %s" % (g["qn"], outside[:2]) if outside else "static `%s` is not initialised under std::call_once" % g["qn"]
        R.check(ok, "R-C18-2", inst, where, "populated only inside std::call_once", why)
    R.floor("R-C18-2", n, 22, "non-const statics")


# ---------------------------------------------------------------------------------------------- parallel bodies
def is_entry(c):
    q = callee(c)
    return q in ("nano::parallel::pool_t::map", "nano::base_dataset_iterator_t::map") or q.endswith("_iterator_t::loop")


def worker_param(g):
    """index of the worker-id parameter of a task lambda"""
    ps = g.params
    if len(ps) == 3 and all("long" in (p.get("t") or "") for p in ps[:2]) and "unsigned long" in (ps[2].get("t") or ""):
        return 2          # (begin, end, tnum)
    if len(ps) >= 2 and "unsigned long" in (ps[1].get("t") or ""):
        return 1          # (index|range|feature, tnum, ...)
    return None


def rule_bodies(F, R):
    n = 0
    for f in sorted(F.functions.values(), key=lambda f: f.key):
        if not f.relfile.startswith(("src/", "include/")):
            continue
        for c in f.calls(is_entry):
            lam = None
            fwd = False
            for a in args(c):
                a0 = skip(a)
                if a0 is None:
                    continue
                if a0["k"] == "lambda":
                    lam = a0
                elif a0["k"] == "ref":
                    var, _ = find_var(f, a0["d"])
                    if var is not None and var.get("c") and skip(var["c"][0])["k"] == "lambda":
                        lam = skip(var["c"][0])
                    elif a0.get("dk") == "parm":
                        fwd = True     # forwards its own callback parameter (iterator helpers)
            inst = "%s@%s" % (f.qn[-60:], f.loc(c))
            if lam is None:
                R.check(fwd, "R-C18-3", inst, f.loc(c), "forwards the caller's task", "task argument of a parallel loop is neither a lambda nor a forwarded callback")
                continue
            g = F.by_lid.get(lam.get("lid"), [None])[0]
            if g is None:
                R.incomplete("R-C18-3", inst, f.loc(c), "task body not extracted")
                continue
            n += 1
            o = owner(F, f) or f
            if o.qn in PARALLEL_BODY_OK:
                R.ok("R-C18-3", inst, f.loc(c), PARALLEL_BODY_OK[o.qn])
                continue
            wi = worker_param(g)
            wname = g.params[wi]["n"] if wi is not None else None
            wd = g.params[wi]["d"] if wi is not None else None
            bodies = [g] + [h for _, h in F.lambdas_in(g)]
            local = set()
            for h in bodies:
                local |= {p["d"] for p in h.params}
                for v in h.nodes():
                    if v["k"] == "var":
                        local.add(v["d"])
                        for b in v.get("bindings", ()):
                            local.add(b["d"])
            range_names = {p["n"] for p in g.params if "tensor_range_t" in (p.get("t") or "")}
            for v in g.nodes():
                if v["k"] == "var" and v.get("c") and is_call(skip(v["c"][0]), "nano::make_range") and wi == 2 and \
                        [pp(x) for x in args(skip(v["c"][0]))] == [g.params[0]["n"], g.params[1]["n"]]:
                    range_names.add(v["n"])

            def own(h, node, depth=0):
                """is the storage designated by node private to this task (worker slot / range slice / local value)?"""
                t = pp(node)
                if wname and re.search(r"\[%s\]" % re.escape(wname), t):
                    return True
                if any(".slice(%s)" % r in t for r in range_names):
                    return True
                k2, d = root_of(node)
                if k2 == "var" and d in local and depth < 6:
                    var, bi = None, None
                    for hh in bodies:
                        var, bi = find_var(hh, d)
                        if var is not None:
                            break
                    if var is None:
                        return True      # parameter of the task
                    ty = var.get("t") or ""
                    is_view = bool(var.get("isref")) or "tensor_marray" in ty or "Eigen::Map<" in ty and "const" not in ty or ty.rstrip().endswith("*")
                    if not is_view or not var.get("c"):
                        return True
                    return own(hh, var["c"][0], depth + 1)
                return False
            bad = []
            for h in bodies:
                for tgt, kind, site in writes_in(h, h.body):
                    if own(h, tgt):
                        continue
                    if kind == "byref-arg" and callee(site) in ("std::move", "std::forward"):
                        if own(h, tgt):
                            continue
                    if f.qn.startswith("nano::ml::tune") and kind == "nonconst-call" and callee(site) == "nano::ml::result_t::store":
                        continue     # decided by R-C18-4
                    bad.append("%s (%s)" % (pp(site)[:70], kind))
                # mutable views handed to callees (tensor maps are writable even when passed by value / const reference)
                for x in h.nodes():
                    if x["k"] not in ("call", "construct"):
                        continue
                    for a_ in (args(x) if x["k"] == "call" else x.get("c", ())):
                        a0 = skip(a_)
                        if a0 is None or "tensor_marray_storage_t" not in (a0.get("t") or ""):
                            continue
                        if a0["k"] == "ref" or own(h, a0):
                            # a named view: decided where it was created; an owned slot / range slice
                            if a0["k"] != "ref" or own(h, a0):
                                continue
                        bad.append("%s handed to %s as a writable view" % (pp(a0)[:50], (callee(x) if x["k"] == "call" else x.get("cls", "")).split("::")[-1]))
            R.check(not bad, "R-C18-3", inst, g.loc(), "the task writes only locals, its worker slot [%s] and slices of its own range" % (wname or "-"),
                    "the parallel task writes storage shared with the other tasks: %s" % bad[:3])
    R.floor("R-C18-3", n, 20, "task bodies")


# ---------------------------------------------------------------------------------------------- ml::tune slots
def rule_tune(F, R):
    fs = [f for f in F.functions.values() if f.qn == "nano::ml::tune" and not f.is_lambda]
    if len(fs) != 1:
        raise AnalysisBroken("ml::tune not found")
    f = fs[0]
    lams = {g.params and g.params[0]["n"]: g for _, g in F.lambdas_in(f)}
    cb = [g for _, g in F.lambdas_in(f) if len(g.params) == 1 and g.params[0]["n"] == "new_params"]
    task = [g for _, g in F.lambdas_in(f) if len(g.params) == 2 and g.params[0]["n"] == "index"]
    if len(cb) != 1 or len(task) != 1:
        raise AnalysisBroken("tuner callback / task lambda of ml::tune not found")
    cb, task = cb[0], task[0]

    def var(g, name):
        v = [x for x in g.nodes() if x["k"] == "var" and x["n"] == name and x.get("c")]
        return pp(v[0]["c"][0]) if len(v) == 1 else None
    # index decomposition is a bijection onto (trial, fold)
    ok = var(task, "fold") == "(index % folds)" and var(task, "trial") == "(index / folds)"
    maps = [c for c in cb.calls(lambda x: callee(x) == "nano::parallel::pool_t::map")]
    ok = ok and len(maps) == 1 and pp(args(maps[0])[0]) == "(folds * new_trials)" and var(cb, "new_trials") == "new_params.size<0>()"
    R.check(ok, "R-C18-4", "task index", task.loc(), "index in [0, folds*new_trials) <-> (trial = index / folds, fold = index % folds)", "task index is not decomposed as (index / folds, index % folds) over folds * new_trials tasks")
    # old_trials is the trial count before result.add(), and add() precedes the parallel loop
    body = cb.body["c"]

    def pos(pred):
        for i, s in enumerate(body):
            if any(pred(x) for x in walk(s)):
                return i
        return None
    p_old = pos(lambda x: x["k"] == "var" and x["n"] == "old_trials" and x.get("c") and pp(x["c"][0]) == "result.trials()")
    p_add = pos(lambda x: x["k"] == "call" and callee(x) == "nano::ml::result_t::add")
    p_map = pos(lambda x: x["k"] == "call" and callee(x) == "nano::parallel::pool_t::map")
    R.check(None not in (p_old, p_add, p_map) and p_old < p_add < p_map, "R-C18-4", "batch order", cb.loc(), "old_trials = result.trials(); result.add(new); parallel tasks",
            "the slots are not allocated (result.add) between reading old_trials and starting the tasks")
    # the slot written
    st = [c for c in task.calls(lambda x: callee(x) == "nano::ml::result_t::store")]
    ok = len(st) == 1 and [pp(a) for a in args(st[0])[:2]] == ["(old_trials + trial)", "fold"]
    R.check(ok, "R-C18-4", "slot written", task.loc(st[0]) if st else task.loc(), "each task stores into its own slot (old_trials + trial, fold)", "the task does not store into slot (old_trials + trial, fold)")
    # every other access to `result` inside the task
    allowed = {"nano::ml::result_t::closest_trial", "nano::ml::result_t::log_path", "nano::ml::result_t::extra", "nano::ml::result_t::store"}
    for c in task.calls(lambda x: x.get("ck") == "mem" and pp(obj(x)) == "result"):
        q = callee(c)
        a = [pp(x) for x in args(c)]
        inst = "%s@%s" % (q.split("::")[-1], task.loc(c))
        if q not in allowed:
            R.bad("R-C18-4", inst, task.loc(c), "task calls result.%s: not part of the slot discipline" % q.split("::")[-1])
        elif q.endswith("closest_trial"):
            R.check(a[1] == "old_trials", "R-C18-4", inst, task.loc(c), "warm start searches the trials of earlier batches only ([0, old_trials))",
                    "closest_trial is bounded by `%s`, not by old_trials: the result can name a trial of the running batch whose slot is being written by another task" % a[1])
        elif q.endswith("log_path"):
            R.check(a == ["(old_trials + trial)", "fold"], "R-C18-4", inst, task.loc(c), "own slot", "log path of another slot: %s" % a)
        elif q.endswith("extra"):
            d = ref_decl(args(c)[0])
            v, _ = find_var(task, d) if d is not None else (None, None)
            src = skip(v["c"][0]) if v is not None and v.get("c") else None
            ok = src is not None and src["k"] == "call" and callee(src).endswith("closest_trial") and a[1] == "fold"
            R.check(ok, "R-C18-4", inst, task.loc(c), "reads the slot (closest_trial(.., old_trials), fold) of an earlier batch", "slot read (%s, %s) is not that of the closest earlier trial" % tuple(a[:2]))
    # closest_trial's result is < max(max_trials, 1)
    ct = F.one("nano::ml::result_t::closest_trial", "src/machine/result.cpp")
    loops = [x for x in ct.nodes() if x["k"] == "for"]
    best = [x for x in ct.nodes() if assignment(x) and pp(assignment(x)[0]) == "best_trial"]
    rets = [x for x in ct.nodes() if x["k"] == "return"]
    bt = [v for v in ct.nodes() if v["k"] == "var" and v["n"] == "best_trial" and v.get("c")]
    ok = len(loops) == 1 and pp(loops[0]["c"][loops[0]["r"].index("cond")]) == "(trial < max_trials)" and all(pp(assignment(x)[1]) == "trial" and any(y is x for y in walk(loops[0])) for x in best) and \
        len(rets) == 1 and pp(rets[0]["c"][0]) == "best_trial" and len(bt) == 1 and re.sub(r"[^0-9a-z]", "", pp(bt[0]["c"][0]).replace("cast<long>", "")) == "0"
    R.check(ok, "R-C18-4", "closest_trial range", ct.loc(), "returns 0 or a trial < max_trials", "closest_trial can return a trial >= max_trials")
    # the first batch has a single trial (its tasks read slot 0 of their own fold only)
    direct = [c for c in f.calls(lambda x: x.get("op") == "()" and pp(x["c"][0]) == "tuner_callback")]
    ok = len(direct) == 1 and pp(args(direct[0])[0] if args(direct[0]) else direct[0]["c"][1]).replace(" ", "") in ("tensor_t(1,0)", "tensor2d_t{1,0}", "tensor_t{1,0}")
    R.check(ok, "R-C18-4", "untuned batch", f.loc(direct[0]) if direct else f.loc(), "without hyper-parameters the single batch has one trial", "the untuned batch is not a single trial: %s" % (pp(direct[0])[:60] if direct else "missing"))
    opt = F.one("nano::tuner_t::optimize", "src/tuner.cpp")
    ev = [c for c in opt.calls(lambda x: callee(x).endswith("evaluate"))]
    ok = bool(ev)
    if ok:
        first = min(ev, key=lambda c: c["i"])
        a3 = pp(args(first)[2])
        cfg = opt.cfg
        wf = cfg.where_enclosing(first)
        ok = re.fullmatch(r"vector\(\{avg_igrid\}(,allocator\(\))?\)", a3.replace(" ", "")) is not None
        others = [c for c in ev if c is not first] + [c for c in opt.calls(lambda x: callee(x).endswith("do_optimize"))]
        for c in others:
            wc = cfg.where_enclosing(c)
            ok = ok and wf is not None and wc is not None and (cfg.dominates(wf, wc) or (wf[0] == wc[0] and wf[1] < wc[1]))
    R.check(ok, "R-C18-4", "first batch", opt.loc(), "the tuner's first evaluation is the single average grid point and precedes all others",
            "the first tuner evaluation is not a single grid point evaluated before everything else: tasks of the first batch would read slots being written")


# ---------------------------------------------------------------------------------------------- line-search objects
def rule_lsearch(F, R):
    mk = F.one("nano::solver_t::make_lsearch", "src/solver.cpp")
    rets = [x for x in mk.nodes() if x["k"] == "return"]
    clones = {}
    for v in mk.nodes():
        if v["k"] == "var" and v.get("c") and pp(v["c"][0]).replace("->", ".") in ("m_lsearch0.clone()", "m_lsearchk.clone()"):
            clones[v["n"]] = pp(v["c"][0])
    t = pp(rets[0]) if rets else ""
    used = [nm for nm in clones if re.search(r"move(<[^()]*>)?\(%s\)" % nm, t)]
    okm = len(rets) == 1 and sorted(x.replace("->", ".") for x in clones.values()) == ["m_lsearch0.clone()", "m_lsearchk.clone()"] and len(used) == 2 and "m_lsearch" not in t
    R.check(okm, "R-C18-5", "make_lsearch", mk.loc(), "both prototypes are cloned for every call and only the clones are handed out",
            "make_lsearch does not hand out clones of both line-search prototypes: %s" % t[:80])
    # the prototypes are used in const methods only through clone()/const accessors
    n = 0
    for f in F.functions.values():
        o = owner(F, f) if f.is_lambda else f
        if o is None or not o.cls or not o.is_const or f.body is None:
            continue
        for x in f.nodes():
            if x["k"] == "mem" and x.get("fd") and x["n"] in ("m_lsearch0", "m_lsearchk") and strip_targs(x.get("cls", "")) == "nano::solver_t":
                n += 1
                anc = [a for a in f.ancestors(x) if a["k"] == "call"]
                ok = False
                if anc and callee(anc[0]).split("::")[-1] in ("operator->", "operator*", "get") and callee(anc[0]).startswith("std::unique_ptr"):
                    nxt = f.parent_of(anc[0])
                    while nxt is not None and nxt["k"] in ("cast",):
                        nxt = f.parent_of(nxt)
                    if nxt is not None and nxt["k"] == "call" and nxt.get("ck") == "mem" and skip(nxt["c"][0]) is anc[0]:
                        ok = bool(nxt.get("cconst"))           # m_lsearch0->clone(), ->parameter() const ...
                    elif nxt is not None and nxt["k"] == "return":
                        rt = f.raw.get("ret")
                        rt = f.types[rt] if isinstance(rt, int) else (rt or "")
                        ok = rt.startswith("const ")            # const accessor
                    else:
                        ok = False
                elif anc and anc[0].get("cconst"):
                    ok = True                                    # operator bool etc.
                R.check(bool(ok), "R-C18-5", "prototype use@%s" % f.loc(x), f.loc(x), "prototype used through a const method / handed out as const only",
                        "a const solver method uses its shared line-search prototype in a way that can modify it: %s" % pp(anc[0] if anc else x)[:70])
    R.floor("R-C18-5/uses", n, 2, "uses of the line-search prototypes in const methods")
    # lsearch_t objects: locals initialised from make_lsearch(), never members
    for k, c in F.classes.items():
        for fd in c.get("fields", ()):
            if re.search(r"(?<![\w:])nano::lsearch_t(?![\w])", fd["t"]):
                R.bad("R-C18-5", "stored lsearch_t %s::%s" % (k, fd["n"]), "%s:%s" % (k, fd.get("l")), "a history-carrying lsearch_t object is stored in a member: it would be shared between concurrent minimize calls")
    m = 0
    for f in F.functions.values():
        for c in f.calls(lambda x: callee(x) == "nano::lsearch_t::get"):
            m += 1
            d = ref_decl(obj(c))
            v, _ = find_var(f, d) if d is not None else (None, None)
            if v is None and f.is_lambda:
                for h in F.functions.values():
                    if not h.is_lambda and h.file == f.file:
                        v, _ = find_var(h, d)
                        if v is not None:
                            break
            isparam = any(p["d"] == d for p in f.params)
            ok = (v is not None and v.get("c") and "make_lsearch()" in pp(v["c"][0])) or isparam
            R.check(bool(ok), "R-C18-5", "lsearch.get@%s" % f.loc(c), f.loc(c), "line search performed on a per-call object obtained from make_lsearch()", "lsearch_t::get invoked on an object that is not a per-call clone: %s" % pp(obj(c))[:50])
    R.floor("R-C18-5/get", m, 4, "line-search invocations")


# ---------------------------------------------------------------------------------------------- objects shared by concurrent tasks
def unsafe_classes(F):
    """classes whose const interface can write hidden state: a mutable field that is not a synchronisation primitive, directly, in a base,
    or in a member held by value"""
    cls = F.classes
    direct = {}
    for k, c in cls.items():
        for fd in c.get("fields", ()):
            if fd.get("mutable") and fd["t"] not in SYNC_TYPES and (k, fd["n"]) not in MUTABLE_OK:
                direct.setdefault(k, "%s::%s" % (k.split("::")[-1], fd["n"]))
    unsafe = dict(direct)
    names = sorted(cls, key=len, reverse=True)
    changed = True
    while changed:
        changed = False
        for k, c in cls.items():
            if k in unsafe:
                continue
            for b in c.get("bases", ()):
                b0 = b if b in unsafe else strip_targs(b)
                if b0 in unsafe:
                    unsafe[k] = unsafe[b0]
                    changed = True
                    break
            if k in unsafe:
                continue
            for fd in c.get("fields", ()):
                t = fd["t"]
                if "*" in t or "&" in t or "unique_ptr" in t or "shared_ptr" in t or "reference_wrapper" in t:
                    continue
                for k2 in names:
                    if k2 in unsafe and k2 in t and re.search(r"(?<![\w:])" + re.escape(k2) + r"(?![\w])", t):
                        unsafe[k] = unsafe[k2]
                        changed = True
                        break
                if k in unsafe:
                    break
    return unsafe


def concurrent_bodies(F):
    """(owner function, lambda function, why) for every lambda that runs concurrently with other instances of itself"""
    out = []
    for f in F.functions.values():
        if not f.relfile.startswith(("src/", "include/")):
            continue
        for c in f.calls(lambda c: is_entry(c) or callee(c) == "nano::ml::tune"):
            tune = callee(c) == "nano::ml::tune"
            cands = args(c)[-1:] if tune else args(c)
            for a in cands:
                a0 = skip(a)
                lam = None
                if a0 is not None and a0["k"] == "lambda":
                    lam = a0
                elif a0 is not None and a0["k"] == "ref":
                    var, _ = find_var(f, a0["d"])
                    if var is not None and var.get("c") and skip(var["c"][0])["k"] == "lambda":
                        lam = skip(var["c"][0])
                if lam is not None:
                    g = F.by_lid.get(lam.get("lid"), [None])[0]
                    if g is not None:
                        out.append((f, g, "called from the fold/trial tasks of ml::tune" if tune else "task of %s" % callee(c).split("::")[-1]))
    return out


_mw_cache = {}


def method_writes_hidden(F, m, depth=0):
    """can calling method m write state reachable from its object (directly, in its lambdas, or through its own methods)?"""
    if m.key in _mw_cache:
        return _mw_cache[m.key]
    _mw_cache[m.key] = False        # cycles
    res = False
    bodies = [m] + [h for _, h in F.lambdas_in(m)]
    for h in bodies:
        if h.body is None:
            continue
        for tgt, kind, site in writes_in(h, h.body):
            if this_rooted(h, tgt):
                res = True
                break
        if res:
            break
        if depth < 4:
            for c in h.calls(lambda c: c.get("ck") == "mem" and skip(obj(c)) is not None and skip(obj(c))["k"] == "this"):
                for tg in F.resolve(c)[:2]:
                    if tg is not m and method_writes_hidden(F, tg, depth + 1):
                        res = True
                        break
                if res:
                    break
        if res:
            break
    _mw_cache[m.key] = res
    return res


def use_writes_hidden(F, fn, decl, depth=0):
    """does function fn use the object `decl` in a way that can write its hidden state? returns a description or None"""
    bodies = [fn] + [h for _, h in F.lambdas_in(fn)]
    for h in bodies:
        for x in h.nodes():
            if x["k"] != "ref" or x.get("d") != decl:
                continue
            par = h.parent_of(x)
            while par is not None and par["k"] in ("cast",):
                par = h.parent_of(par)
            if par is None or par["k"] != "call":
                continue
            if par.get("ck") == "mem" and ref_decl(obj(par)) == decl:
                tgs = F.resolve(par)
                if not tgs:
                    if not par.get("cconst"):
                        return "%s at %s" % (pp(par)[:50], h.loc(par))
                    continue
                if any(method_writes_hidden(F, tg) for tg in tgs[:3]):
                    return "%s at %s" % (pp(par)[:50], h.loc(par))
                continue
            # passed on to another function: follow the parameter
            idx = [i for i, a in enumerate(args(par)) if ref_decl(a) == decl]
            if idx and depth < 3:
                tgs = F.resolve(par)
                if not tgs:
                    continue
                for tg in tgs[:2]:
                    off = 0
                    if idx[0] + off < len(tg.params):
                        r_ = use_writes_hidden(F, tg, tg.params[idx[0] + off]["d"], depth + 1)
                        if r_:
                            return "passed to %s, which does %s" % (tg.qn.split("::")[-1], r_)
    return None


def rule_shared_objects(F, R):
    unsafe = unsafe_classes(F)
    # the callback of ml::tune really is invoked from its parallel task
    tune = [f for f in F.functions.values() if f.qn == "nano::ml::tune" and not f.is_lambda]
    task = [g for _, g in F.lambdas_in(tune[0]) if len(g.params) == 2 and g.params[0]["n"] == "index"] if tune else []
    cbp = [p for p in tune[0].params if p["n"] == "callback"] if tune else []
    invoked = bool(task) and bool(cbp) and any(c.get("op") == "()" and ref_decl(c["c"][0]) == cbp[0]["d"] for c in task[0].calls())
    R.check(invoked, "R-C18-6", "tune callback context", tune[0].loc() if tune else "-", "the tuning callback runs inside the parallel (fold, trial) task",
            "ml::tune no longer calls its callback from the task body (rule must be revisited)")
    n = 0
    for f, g, why in concurrent_bodies(F):
        n += 1
        bodies = [g] + [h for _, h in F.lambdas_in(g)]
        local = set()
        for h in bodies:
            local |= {p["d"] for p in h.params}
            for v in h.nodes():
                if v["k"] == "var":
                    local.add(v["d"])
                    for b in v.get("bindings", ()):
                        local.add(b["d"])
        wi = worker_param(g)
        wname = g.params[wi]["n"] if wi is not None else None
        bad = {}
        for h in bodies:
            for x in h.nodes():
                if x["k"] != "ref" or x.get("dk") not in ("var", "parm") or x["d"] in local:
                    continue
                t = (x.get("t") or "")
                if not t:
                    var, _ = find_var(f, x["d"])
                    t = (var or {}).get("t") or next((p.get("t") or "" for p in f.params if p["d"] == x["d"]), "")
                base = strip_targs(t.replace("const ", "").replace("&", "").replace("*", "").strip())
                full = t.replace("const ", "").replace("&", "").strip()
                hit = unsafe.get(full) or unsafe.get(base)
                if not hit:
                    continue
                # an element selected by the task's own worker id is private to it
                par = h.parent_of(x)
                if wname and par is not None and par["k"] == "call" and par.get("op") == "[]" and pp(par["c"][1]) == wname:
                    continue
                how = use_writes_hidden(F, g, x["d"])
                if how is None:
                    continue          # only read through methods that do not touch the hidden state
                bad[x["n"]] = (base, hit, how)
        inst = "%s@%s" % (f.qn[-50:], g.loc())
        R.check(not bad, "R-C18-6", inst, g.loc(), "objects with hidden per-call state are created inside the concurrent body, not shared (%s)" % why,
                "concurrent tasks (%s) share %s: its const interface writes hidden state, so the tasks race on it and results depend on the schedule" % (
                    why, "; ".join("`%s` (%s, hidden state %s, used at %s)" % (k, v[0].split("::")[-1], v[1], v[2]) for k, v in sorted(bad.items()))))
    R.floor("R-C18-6", n, 40, "concurrent lambda bodies")


def rule_selection_order(F, R):
    """R-C18-7: the weak learners pick their feature in two stages - each worker keeps the best candidate of the features it happened to scan
    (strict `score < best`), then the per-worker bests are reduced. Which features a worker scans depends on the thread count and on the
    schedule, so the outcome is independent of both only if the reduction applies the very same order: the comparator of the reducer is the
    strict `one.m_score < other.m_score` on the score alone. A tolerance or a second key in the reducer only (one of two cooperating sites)
    makes the selected feature depend on whether two near-tied features were scanned by the same worker."""
    n = 0
    reducers = {}
    for f in F.functions.values():
        if f.body is None or not f.relfile.startswith("src/wlearner/"):
            continue
        for c in f.calls(lambda c: "reduce" in callee(c).split("::")[-1] and "min" in callee(c).split("::")[-1]):
            reducers.setdefault(strip_targs(callee(c)), []).append((f, c))
    for q, sites in sorted(reducers.items()):
        gs = [g for g in F.functions.values() if strip_targs(g.qn) == q and g.body is not None]
        if not gs:
            R.incomplete("R-C18-7", q, sites[0][0].loc(sites[0][1]), "the reducer's definition was not found")
            continue
        g = gs[0]
        me = [c for c in g.calls(lambda c: callee(c) == "std::min_element")]
        lam = None
        if len(me) == 1 and len(args(me[0])) == 3:
            cmp_ = skip(args(me[0])[2])
            if cmp_["k"] == "ref":
                v, _ = find_var(g, cmp_.get("d"))
                cmp_ = skip(v["c"][0]) if v is not None and v.get("c") else cmp_
            if cmp_["k"] == "lambda":
                lam = F.by_lid.get(cmp_.get("lid"), [None])[0]
        n += 1
        inst = "%s (%d call sites)" % (q.split("::")[-1], len(sites))
        if lam is None:
            R.incomplete("R-C18-7", inst, g.loc(), "the reduction is not a std::min_element with a comparator lambda")
            continue
        rets = [x for x in lam.nodes() if x["k"] == "return" and x.get("c")]
        ok = False
        if len(rets) == 1 and len(lam.params) == 2:
            e = skip(rets[0]["c"][0])
            if e["k"] == "bin" and e["op"] == "<":
                a_, b_ = skip(e["c"][0]), skip(e["c"][1])
                ok = a_["k"] == "mem" and b_["k"] == "mem" and a_["n"] == "m_score" and b_["n"] == "m_score" and \
                    ref_decl(a_["c"][0]) == lam.params[0]["d"] and ref_decl(b_["c"][0]) == lam.params[1]["d"]
        R.check(ok, "R-C18-7", inst, g.loc(), "the per-worker bests are reduced with the strict order on the score that each worker applies to its own candidates",
                "the reducer compares with `%s`, the workers with the strict `score < best`: the selected feature then depends on which worker scanned which feature, i.e. on "
                "the number of threads and the schedule" % (pp(rets[0]["c"][0])[:110] if rets else "?"))
    R.floor("R-C18-7", n, 1, "cross-worker reductions of the weak learners' candidates")


def rule_partition(F, R):
    """R-C18-8: the work the dataset iterators hand to the pool does not depend on the pool's size. Every `loop` of select_iterator_t over a
    feature list, and of flatten_iterator_t / targets_iterator_t over the samples, is evaluated (integer arithmetic of the chunking helpers,
    the lambda handed to map; map itself is modelled as the correct tiling R-C17-6 establishes, the callback records what it is given) for a grid
    of list sizes x worker counts (x batch sizes): the callback receives every feature of the list exactly once / ranges that tile the samples."""
    import sympy as sp
    from ..symexec import Interp
    from ..kalg import OutOfFragment
    fns = [f for f in F.functions.values() if f.relfile == "src/dataset/iterator.cpp" and f.qn.split("::")[-1] == "loop" and f.body is not None]
    n_sel = n_rng = 0
    for f in sorted(fns, key=lambda f_: f_.line):
        cb = [p_ for p_ in f.params if "callback" in (p_.get("n") or "") or "function<" in (p_.get("t") or "")]
        if len(cb) != 1:
            continue
        maps = [c for c in f.calls(lambda n: callee(n).split("::")[-1] == "map")]
        lists = [p_ for p_ in f.params if p_.get("n") == "features"]
        if not maps:
            continue            # single-feature overloads / forwarding overloads: nothing is partitioned
        inst = "%s@%d" % (f.qn.split("::", 1)[-1], f.line)
        cbd = cb[0]["d"]
        state = {}

        class LI(Interp):
            spawn_same = True

            def ev(self, n):
                n2 = skip(n)
                if n2 is not None and n2["k"] == "cast" and n2.get("ck") == "ToVoid":
                    return sp.Integer(0)
                if n2 is not None and n2["k"] == "call":
                    q = callee(n2)
                    nm = q.split("::")[-1]
                    if n2.get("ck") == "op" and n2.get("op") == "()" and n2.get("c") and ref_decl(n2["c"][0]) == cbd:
                        state["seen"].append(self.ev(n2["c"][1]))
                        return sp.Integer(0)
                    if nm == "concurrency" and not args(n2):
                        return sp.Integer(state["C"])
                    if nm == "batch" and not args(n2):
                        return sp.Integer(state["B"])
                    if nm == "samples" and not args(n2) and n2.get("ck") == "mem":
                        return [sp.Integer(100 + i_) for i_ in range(state["N"])]
                    if nm == "make_range" and len(args(n2)) == 2:
                        return ("range", self.ev(args(n2)[0]), self.ev(args(n2)[1]))
                    if n2.get("ck") == "mem" and nm in ("begin", "end", "size") and not args(n2):
                        o = self.ev(obj(n2))
                        if isinstance(o, tuple) and o and o[0] == "range":
                            return {"begin": o[1], "end": o[2], "size": o[2] - o[1]}[nm]
                        if isinstance(o, list) and nm == "size":
                            return sp.Integer(len(o))
                    if nm == "map" and n2.get("ck") == "mem" and len(args(n2)) in (2, 3):
                        a = args(n2)
                        cnt = sp.sympify(self.ev(a[0]))
                        lam = self.ev(a[-1])
                        if not cnt.is_Integer or not (isinstance(lam, tuple) and lam and lam[0] == "lambda"):
                            raise OutOfFragment("map(%s, ...)" % cnt)
                        tnum = sp.Symbol("tnum", integer=True, nonnegative=True)
                        if len(a) == 3:
                            ch = sp.sympify(self.ev(a[1]))
                            if not ch.is_Integer or ch < 1:
                                raise OutOfFragment("chunk size %s" % ch)
                            b_ = 0
                            while b_ < cnt:
                                e_ = min(b_ + int(ch), int(cnt))
                                self.call_lambda(lam[1], [sp.Integer(b_), sp.Integer(e_), tnum], [])
                                b_ = e_
                        else:
                            for i_ in range(int(cnt)):
                                self.call_lambda(lam[1], [sp.Integer(i_), tnum], [])
                        return sp.Integer(0)
                return super().ev(n)

        bad = None
        nrun = 0
        try:
            if lists:
                n_sel += 1
                for N in (0, 1, 2, 5, 7, 16, 17, 20, 23, 33):
                    for C in (1, 2, 3, 4, 5, 6, 8, 16):
                        state.update(C=C, B=1, N=0, seen=[])
                        it = LI(F, f, n=1)
                        feats = [sp.Integer(10 + i_) for i_ in range(N)]
                        it.env[lists[0]["d"]] = feats
                        for p_ in f.params:
                            if p_["d"] not in it.env:
                                it.env[p_["d"]] = sp.Symbol(p_.get("n") or "p")
                        it.run()
                        nrun += 1
                        if sorted(map(int, state["seen"])) != [int(x) for x in feats]:
                            miss = sorted(set(map(int, feats)) - set(map(int, state["seen"])))
                            bad = "a list of %d features on %d worker(s): %s" % (N, C, ("the features at positions %s are never handed to the callback" % [m_ - 10 for m_ in miss][:5])
                                                                                if miss else "some features are handed to the callback more than once")
                            break
                    if bad:
                        break
            else:
                n_rng += 1
                for N in (0, 1, 5, 17, 40):
                    for B in (1, 3, 7, 100):
                        for C in (1, 3, 16):
                            state.update(C=C, B=B, N=N, seen=[])
                            it = LI(F, f, n=1)
                            for p_ in f.params:
                                it.env[p_["d"]] = sp.Symbol(p_.get("n") or "p")
                            it.run()
                            nrun += 1
                            rs = sorted((int(r_[1]), int(r_[2])) for r_ in state["seen"] if isinstance(r_, tuple) and r_ and r_[0] == "range")
                            pos = 0
                            okr = len(rs) == len(state["seen"])
                            for b_, e_ in rs:
                                okr = okr and b_ == pos and b_ < e_ <= b_ + B
                                pos = e_
                            if not okr or pos != N:
                                bad = "%d samples in batches of %d on %d worker(s): the callback receives the ranges %s" % (N, B, C, rs[:6])
                                break
                        if bad:
                            break
                    if bad:
                        break
        except OutOfFragment as e:
            R.incomplete("R-C18-8", inst, f.loc(), "cannot evaluate the loop: %s" % e)
            continue
        R.check(bad is None, "R-C18-8", inst, f.loc(),
                "%s whatever the number of workers (%d configurations evaluated)" % ("every feature of the list reaches the callback exactly once" if lists else
                                                                                      "the ranges handed to the callback tile the samples in batches", nrun),
                "what the loop visits depends on the pool's size: %s - fitting through this iterator selects different features / sums different samples on machines "
                "with different thread counts" % bad)
    R.floor("R-C18-8/select", n_sel, 4, "feature-list loops of select_iterator_t")
    R.floor("R-C18-8/range", n_rng, 3, "sample loops of flatten_iterator_t / targets_iterator_t")


def run(ctx):
    R = ctx.report
    tus = sorted(set(ctx.all_tus()) | {"witness/effects_inst.cpp"})
    F = ctx.facts(tus)
    shared = closure(F)
    R.note("shared closure: %d classes" % len(shared))
    rule_effects(F, R, shared)
    rule_statics(F, R)
    rule_bodies(F, R)
    rule_tune(F, R)
    rule_lsearch(F, R)
    rule_shared_objects(F, R)
    rule_selection_order(F, R)
    rule_partition(F, R)
