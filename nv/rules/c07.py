"""C07 - line-search steps honour the acceptance conditions they advertise (DESIGN 3, C07)."""
from ..cfg import must_dataflow
import sympy as sp

from .. import kalg
from ..facts import AnalysisBroken, walk
from ..pp import pp, skip
from ..util import (args, assignment, callee, incdec, is_call, is_literal, obj, parameter_name, ref_decl, strip_not,
                    find_var, writes_in, literal_value)

META = {
    "level": "other",
    "technique": "edge-sensitive must-dataflow over clang CFGs + dominance + who-may-write",
    "explanation": "Decides the structural part of C07: every success return of the backtracking, LeMarechal and Fletcher "
                   "(do_get and zoom) line-searches is reached only through the true edge of every predicate the method "
                   "advertises (taken from its own constructor's type(...) call), evaluated on the trial state with the "
                   "returned step variable and the method's own (c1, c2) tolerances, with no re-evaluation or write in "
                   "between; the returned step of all five searches is the step the state was last evaluated at; the "
                   "descent test of lsearchk_t::get dominates every mutation of the state; the three predicates are the "
                   "textbook inequalities. Not decided: success on convex quadratics, positivity/finiteness of t.",
    "not_decided": "success of the searches on convex quadratics; positivity and finiteness of the returned step",
    "assumptions": ["do_get is entered with the trial state evaluated at the given step (established by lsearchk_t::get)",
                    "assert() statements are compiled out (NDEBUG) and carry no obligation"],
}

TUS = ["src/lsearchk.cpp", "src/lsearchk/backtrack.cpp", "src/lsearchk/lemarechal.cpp", "src/lsearchk/fletcher.cpp",
       "src/lsearchk/morethuente.cpp", "src/lsearchk/cgdescent.cpp", "src/solver/state.cpp"]

ADVERTISED = {"nano::lsearch_type::armijo": {"armijo"},
              "nano::lsearch_type::wolfe": {"armijo", "wolfe"},
              "nano::lsearch_type::strong_wolfe": {"armijo", "swolfe"},
              "nano::lsearch_type::wolfe_approx_wolfe": None}   # CG_DESCENT: approximate rule, only step agreement

PRED = {"nano::solver_state_t::has_armijo": "armijo", "nano::solver_state_t::has_wolfe": "wolfe",
        "nano::solver_state_t::has_strong_wolfe": "swolfe"}


def roles(f):
    """(trial state decl, origin state decl, descent decl) from the parameter types"""
    st = st0 = desc = None
    for p in f.params:
        t = p["t"]
        if t == "nano::solver_state_t &":
            st = p["d"]
        elif t == "const nano::solver_state_t &":
            st0 = p["d"]
        elif "tensor_vector_storage_t, double, 1> &" in t and t.startswith("const"):
            desc = p["d"]
    return st, st0, desc


def tolerance_binding(f, n, index):
    """n refers to binding #index of `parameter("lsearchk::tolerance").value_pair<scalar_t>()`"""
    n = skip(n)
    if n is None or n["k"] != "ref" or n.get("dk") != "bind" or n.get("bi") != index:
        return False
    var, _ = find_var(f, n["d"])
    if var is None or not var.get("c"):
        return False
    init = var["c"][0]
    return parameter_name(init) == "lsearchk::tolerance" and any(is_call(x, name="value_pair") for x in walk(init))


def advertised_of(F, cls):
    for f in F.fn(cls + "::" + cls.split("::")[-1]):
        for c in f.calls(lambda n: callee(n) == "nano::lsearchk_t::type"):
            a = args(c)
            if a and skip(a[0])["k"] == "ref":
                return skip(a[0])["n"]
    raise AnalysisBroken("constructor of %s no longer declares its line-search type" % cls)


def analyse(f, R, rule, advertised, entry_eval, check_tol=True):
    """runs the dataflow on f and checks all return sites; returns number of success returns"""
    st, st0, desc = roles(f)
    if st is None or st0 is None or desc is None:
        raise AnalysisBroken("cannot identify (state, state0, descent) parameters of " + f.key)
    cfg = f.cfg

    def kill_var(facts, d):
        for x in [x for x in facts if len(x) > 1 and x[1] == d]:
            facts.discard(x)

    def telem(facts, e):
        if e.kind != "node":
            return
        n = e.node
        k = n["k"]
        if k == "call":
            c = callee(n)
            if c == "nano::lsearchk_t::update":
                a = args(n)
                facts.clear()
                if len(a) >= 4 and ref_decl(a[0]) == st and ref_decl(a[1]) == st0 and ref_decl(a[2]) == desc:
                    v = ref_decl(a[3])
                    if v is not None:
                        facts.add(("eval", v))
                return
            if c in PRED:
                return
            # non-const member call on the trial state re-evaluates / mutates it
            o = obj(n)
            if o is not None and ref_decl(o) == st and not n.get("cconst"):
                facts.clear()
                return
            pk = n.get("pk", "")
            for j, a in enumerate(args(n)):
                if j < len(pk) and pk[j] in "rp":
                    d = ref_decl(a)
                    if d == st:
                        facts.clear()
                    elif d is not None:
                        kill_var(facts, d)
            a = assignment(n)
            if a:
                d = ref_decl(a[0])
                if d is not None:
                    kill_var(facts, d)
            return
        a = assignment(n)
        if a:
            d = ref_decl(a[0])
            if d is not None:
                kill_var(facts, d)
                if a[2] == "=":
                    w = ref_decl(a[1])
                    if w is not None and ("eval", w) in facts:
                        facts.add(("eval", d))
            return
        i = incdec(n)
        if i:
            d = ref_decl(i[0])
            if d is not None:
                kill_var(facts, d)
            return
        for vn in ([n] if k == "var" else n.get("c", ()) if k == "declstmt" else ()):
            if vn["k"] == "var" and vn.get("c"):
                w = ref_decl(vn["c"][0])
                if w is not None and ("eval", w) in facts:
                    facts.add(("eval", vn["d"]))

    def tedge(facts, b, k):
        if b.cond is None or len(b.succ) != 2:
            return
        inner, neg = strip_not(b.cond)
        if inner is None or inner["k"] != "call":
            return
        c = callee(inner)
        if c not in PRED:
            return
        fact = PRED[c]
        a = args(inner)
        o = obj(inner)
        good = ref_decl(o) == st and len(a) >= 3 and ref_decl(a[0]) == st0 and ref_decl(a[1]) == desc
        holds_on = 1 if neg else 0
        if fact == "armijo":
            v = ref_decl(a[2]) if len(a) >= 4 else None
            good = good and v is not None and (not check_tol or tolerance_binding(f, a[3], 0))
            key = ("armijo", v)
        else:
            good = good and (not check_tol or tolerance_binding(f, a[2], 1))
            key = (fact,)
        if not good:
            return
        if k == holds_on:
            facts.add(key)
        else:
            facts.discard(key)

    init = set()
    if entry_eval is not None:
        init.add(("eval", entry_eval))
    IN, before = must_dataflow(cfg, init, telem, tedge)

    nsuccess = 0
    for e in cfg.elems():
        if e.kind != "node" or e.node["k"] != "return":
            continue
        ret = e.node
        val = skip(ret["c"][0]) if ret.get("c") else None
        inst = "%s return@%s" % (f.qn, f.loc(ret))
        facts = before(e.block, e.pos)
        if facts is None:
            continue  # unreachable
        if val is not None and val["k"] == "call" and callee(val) == "nano::lsearchk_fletcher_t::zoom":
            a = args(val)
            okd = len(a) >= 6 and ref_decl(a[0]) == st0 and ref_decl(a[1]) == desc and ref_decl(a[4]) == st
            R.check(okd, rule, inst, f.loc(ret), "delegation to zoom passes (state0, descent, state) unchanged",
                    "delegation to zoom does not pass (state0, descent, state) through: " + pp(val))
            continue
        if val is None or val["k"] not in ("construct", "initlist") or len(val.get("c", ())) != 2:
            R.incomplete(rule, inst, f.loc(ret), "unrecognised return shape: " + pp(ret))
            continue
        flag, step = val["c"]
        if is_literal(flag, False):
            R.ok(rule, inst, f.loc(ret), "failure return", nontrivial=False)
            continue
        nsuccess += 1
        v = ref_decl(step)
        stepkey = v if v is not None else pp(step)
        missing = []
        if advertised:
            for fact in sorted(advertised):
                key = ("armijo", v) if fact == "armijo" else (fact,)
                if key not in facts:
                    missing.append(fact)
        if v is not None and ("eval", v) not in facts:
            missing.append("state evaluated at the returned step")
        elif v is None:
            missing.append("returned step is not a tracked variable")
        R.check(not missing, rule, inst, f.loc(ret),
                "success return reached only with {%s} established on the trial state for the returned step `%s`" % (
                    ", ".join(sorted(advertised or [])) + ", evaluated-at", pp(step)),
                "success return `%s` reachable without: %s" % (pp(ret), ", ".join(missing)))
    return nsuccess


def rule_predicates(F, R):
    """R-C07-4: the predicates are the textbook inequalities (structural comparison form)"""
    exp = {
        "has_armijo": ("<=", "m_fx", "(origin.fx() + ((step_size * c1) * origin.dg(descent)))"),
        "has_wolfe": (">=", "dg(descent)", "(c2 * origin.dg(descent))"),
        "has_strong_wolfe": ("<=", "fabs(dg(descent))", "(c2 * fabs(origin.dg(descent)))"),
    }
    from .. import kalg
    spec = {
        "has_armijo": "m_fx <= origin_fx + step_size*c1*origin_dg",
        "has_wolfe": "dg >= c2*origin_dg",
        "has_strong_wolfe": "Abs(dg) <= c2*Abs(origin_dg)",
    }
    n = 0
    for name in exp:
        f = F.one("nano::solver_state_t::" + name, "src/solver/state.cpp")
        rets = [x for x in f.nodes() if x["k"] == "return"]
        inst = "solver_state_t::" + name
        if len(rets) != 1:
            R.incomplete("R-C07-4", inst, f.loc(), "expected a single return")
            continue
        n += 1
        ok, detail = kalg.compare_relation(f, rets[0]["c"][0], spec[name], atoms={"origin.dg(descent)": "origin_dg", "dg(descent)": "dg"}, seed=R.seed)
        if ok is None:
            R.incomplete("R-C07-4", inst, f.loc(rets[0]), detail)
        else:
            R.check(ok, "R-C07-4", inst, f.loc(rets[0]), "predicate equals " + spec[name],
                    "predicate `%s` differs from the advertised inequality %s: %s" % (pp(rets[0]["c"][0]), spec[name], detail))
    R.floor("R-C07-4", n, 3, "predicates")


def rule_get(F, R):
    """R-C07-2: in lsearchk_t::get the descent test dominates every mutation of the state"""
    f = F.one("nano::lsearchk_t::get", "src/lsearchk.cpp")
    st, st0, desc = None, None, None
    for p in f.params:
        if p["t"] == "nano::solver_state_t &":
            st = p["d"]
        elif "tensor_vector_storage_t, double, 1> &" in p["t"]:
            desc = p["d"]
    cfg = f.cfg
    # the predicate itself: has_descent(d) <=> dg(d) < 0 (strict)
    hd = F.one("nano::solver_state_t::has_descent")
    hrets = [x for x in hd.nodes() if x["k"] == "return"]
    hd_ok = len(hrets) == 1 and pp(hrets[0]["c"][0]) in ("(dg(%s) < 0)" % hd.params[0]["n"], "(dg(%s) < 0.0)" % hd.params[0]["n"])
    R.check(hd_ok, "R-C07-2", "has_descent predicate", hd.loc(), "has_descent(d) is the strict test dg(d) < 0",
            "has_descent is no longer `dg(d) < 0`: " + (pp(hrets[0]["c"][0]) if hrets else "?"))

    def is_descent_test(node):
        """(matches, polarity): the condition holds exactly when the direction is a descent direction (polarity True)"""
        inner, neg = strip_not(node)
        if inner is None:
            return None
        if is_call(inner, "nano::solver_state_t::has_descent") and ref_decl(obj(inner)) == st and ref_decl(args(inner)[0]) == desc:
            return not neg
        if inner["k"] == "bin" and inner["op"] in ("<", ">"):
            a, b = inner["c"]
            if inner["op"] == ">":
                a, b = b, a
            aa = skip(a)
            d = ref_decl(aa)
            if d is not None:       # a local holding dg
                var, _ = find_var(f, d)
                aa = skip(var["c"][0]) if var is not None and var.get("c") else aa
            if is_call(aa, "nano::solver_state_t::dg") and ref_decl(obj(aa)) == st and ref_decl(args(aa)[0]) == desc and literal_value(b) == 0:
                return not neg      # dg < 0
        return None

    guard = None
    for b in cfg.blocks.values():
        if b.cond is None or len(b.succ) != 2:
            continue
        pol = is_descent_test(b.cond)
        if pol is not None:
            guard = (b, not pol)
    inst = "lsearchk_t::get"
    if guard is None:
        R.bad("R-C07-2", inst, f.loc(), "get() does not refuse exactly the directions with !(dg(d) < 0): no has_descent(descent) / dg(descent) < 0 test "
              "on the given state and direction (a test such as dg > 0 lets dg == 0 and NaN through)")
        return
    b, neg = guard
    fail_succ = b.succ[0] if neg else b.succ[1]      # edge on which has_descent is false
    okay_succ = b.succ[1] if neg else b.succ[0]
    # every mutation of state must be dominated by the okay edge target
    nm = 0
    for e in cfg.elems():
        if e.kind != "node":
            continue
        for tgt, kind, site in writes_in(f, e.node) if e.node["k"] in ("call", "bin", "un") else ():
            if site is not e.node:
                continue
            if ref_decl(tgt) == st or (kind == "nonconst-call" and ref_decl(tgt) == st):
                nm += 1
                dom_ok = okay_succ in cfg.dom[e.block] and fail_succ not in cfg.dom[e.block] and b.id in cfg.dom[e.block]
                R.check(dom_ok, "R-C07-2", "%s mutation@%s" % (inst, f.loc(site)), f.loc(site),
                        "mutation of the state is dominated by the has_descent success edge",
                        "state may be modified before/without the descent test: " + pp(site))
    R.floor("R-C07-2", nm, 3, "state mutations in get()")
    # failing edge returns {false, _} without touching the state
    fb = cfg.blocks[fail_succ]
    rets = [e.node for e in fb.elems if e.kind == "node" and e.node["k"] == "return"]
    good = False
    if rets:
        val = skip(rets[0]["c"][0])
        good = val["k"] in ("construct", "initlist") and is_literal(val["c"][0], False)
    R.check(good, "R-C07-2", inst + " refusal", f.loc(fb.elems[0].node) if fb.elems and fb.elems[0].node else f.loc(),
            "non-descent direction returns {false, step} immediately", "non-descent branch does not return failure at once")
    # do_get receives (state0 copy made after the test, descent, step, state)
    for c in f.calls(lambda n: callee(n) == "nano::lsearchk_t::do_get"):
        a = args(c)
        R.check(len(a) >= 4 and ref_decl(a[1]) == desc and ref_decl(a[3]) == st, "R-C07-2", inst + " do_get call", f.loc(c),
                "do_get receives the caller's direction and state", "do_get called with other objects: " + pp(c))


_PF = frozenset(("nonan", "noinf", "pos"))          # abstract value of a real number: which of "not NaN", "not infinite", "> 0" are certain


def _pf_eval(F, f, n, stepd, facts, depth=0):
    """subset of _PF certain for the value of expression n (facts: what is certain for the step variable)"""
    n = skip(n)
    k = n["k"]
    if k in ("paren", "cast", "construct", "initlist") and len(n.get("c", ())) == 1:
        return _pf_eval(F, f, n["c"][0], stepd, facts, depth)
    if k in ("int", "float"):
        v = n["v"]
        return _PF if isinstance(v, (int, float)) and v > 0 and v == v and abs(v) != float("inf") else (_PF - {"pos"} if isinstance(v, (int, float)) and v == v else frozenset())
    if k == "ref":
        if n.get("d") == stepd:
            return frozenset(facts)
        var, _ = find_var(f, n.get("d"))
        if var is not None and var.get("c") and "const" in (var.get("t") or ""):
            return _pf_eval(F, f, var["c"][0], stepd, facts, depth)
        return frozenset()
    if k == "cond":
        c, a, b = n["c"]
        ta, tb = set(facts), set(facts)
        inner, neg = strip_not(c)
        if inner is not None and callee(inner) in ("std::isfinite", "isfinite") and ref_decl(args(inner)[0]) == stepd:
            (tb if neg else ta).update(("nonan", "noinf"))
        return _pf_eval(F, f, a, stepd, ta, depth) & _pf_eval(F, f, b, stepd, tb, depth)
    if k == "call":
        cal = callee(n)
        a = args(n)
        if cal == "std::clamp" and len(a) == 3:
            x, lo, hi = (_pf_eval(F, f, z, stepd, facts, depth) for z in a)
            out = set()
            if "nonan" in x and "nonan" in lo and "nonan" in hi:
                out.add("nonan")
            if {"noinf", "nonan"} <= lo and {"noinf", "nonan"} <= hi:
                out.add("noinf")
            if "pos" in lo and "nonan" in x:
                out.add("pos")
            return frozenset(out)
        if cal in ("std::min", "std::max") and len(a) == 2:
            x, y = (_pf_eval(F, f, z, stepd, facts, depth) for z in a)
            out = set()
            if "nonan" in x and "nonan" in y:
                out.add("nonan")
                if "noinf" in x and "noinf" in y:
                    out.add("noinf")
                if ("pos" in x and "pos" in y) or (cal == "std::max" and ("pos" in x or "pos" in y)):
                    out.add("pos")
                if cal == "std::min" and ("noinf" in x or "noinf" in y) and ("pos" in x and "pos" in y):
                    out.add("noinf")
            return frozenset(out)
        if cal in ("std::numeric_limits::epsilon", "std::numeric_limits::min", "std::numeric_limits::max") or \
                (cal.startswith("nano::epsilon") and not a):
            return _PF
        if cal in ("std::fabs", "std::abs", "fabs", "abs") and len(a) == 1:
            return _pf_eval(F, f, a[0], stepd, facts, depth) - {"pos"}
        if depth < 3 and not a:
            for g in F.resolve(n):
                rets = [x for x in g.nodes() if x["k"] == "return" and x.get("c")]
                if len(rets) == 1 and g.body is not None:
                    return _pf_eval(F, g, rets[0]["c"][0], None, (), depth + 1)
        return frozenset()
    if k == "bin" and n["op"] in ("*", "/", "+"):
        x, y = (_pf_eval(F, f, z, stepd, facts, depth) for z in n["c"])
        # finite positive operands give a positive product / quotient / sum; overflow to infinity after repeated scaling is out of scope (the
        # scaling loops are bounded by max_iterations and guarded by update(), which rejects a non-finite trial point)
        if _PF <= x and _PF <= y:
            return _PF
        return frozenset()
    return frozenset()


def rule_initial_step(F, R):
    """R-C07-7: whatever initial step the caller passes (the property includes NaN and +-infinity), every trial step that lsearchk_t::get
    hands to update() / do_get() is certainly a finite positive number: must-analysis of {not NaN, not infinite, > 0} for the step variable
    over the CFG (std::isfinite tests refine it on their edges and inside `?:`; clamp / min / max / literals / scaling by positive constants
    are evaluated; anything else loses the facts)."""
    f = F.one("nano::lsearchk_t::get", "src/lsearchk.cpp")
    steps = [p for p in f.params if (p.get("t") or "") in ("double", "nano::scalar_t", "const double")]
    if len(steps) != 1:
        R.incomplete("R-C07-7", "lsearchk_t::get initial step", f.loc(), "expected exactly one real-valued parameter (the initial step)")
        return
    stepd = steps[0]["d"]
    cfg = f.cfg

    def t_elem(facts, e):
        if e.kind != "node" or e.node is None:
            return None
        n = e.node
        a = assignment(n)
        if a is not None and ref_decl(a[0]) == stepd:
            lhs, rhs, op = a
            if op == "=":
                return set(_pf_eval(F, f, rhs, stepd, facts))
            if op in ("*=", "/=", "+="):
                y = _pf_eval(F, f, rhs, stepd, facts)
                return set(_PF) if _PF <= set(facts) and _PF <= y else set()
            return set()
        if n["k"] == "un" and n.get("op") in ("++", "--") and ref_decl(n["c"][0]) == stepd:
            return set()
        if n["k"] == "call" and n is not None:
            for i_, a_ in enumerate(args(n)):
                if ref_decl(a_) == stepd and n.get("pk", "")[i_:i_ + 1] in ("r", "p"):
                    return set()            # passed by non-const reference / pointer: may be rewritten
        return None

    def t_edge(facts, b, k):
        if b.cond is None or len(b.succ) != 2:
            return None
        inner, neg = strip_not(b.cond)
        if inner is not None and inner["k"] == "call" and callee(inner) in ("std::isfinite", "isfinite") and args(inner) and ref_decl(args(inner)[0]) == stepd:
            if (k == 0) != bool(neg):
                facts.update(("nonan", "noinf"))
        return None

    IN, before = must_dataflow(cfg, set(), t_elem, t_edge)
    nuse = 0
    for c in f.calls(lambda n: callee(n) in ("nano::lsearchk_t::update", "nano::lsearchk_t::do_get")):
        idx = [i_ for i_, a_ in enumerate(args(c)) if ref_decl(a_) == stepd]
        if not idx:
            exprs = [a_ for a_ in args(c) if (a_.get("t") or "").replace("const ", "") in ("double", "nano::scalar_t")]
        else:
            exprs = [args(c)[idx[0]]]
        if not exprs:
            R.incomplete("R-C07-7", "lsearchk_t::get %s@%d" % (callee(c).split("::")[-1], c["l"]), f.loc(c), "the step argument of the call was not found")
            continue
        nuse += 1
        w = cfg.where_enclosing(c)
        facts = before(*w) if w is not None else None
        if facts is None:
            continue
        got = _pf_eval(F, f, exprs[0], stepd, facts)
        miss = [m for m in ("nonan", "noinf", "pos") if m not in got]
        words = {"nonan": "NaN", "noinf": "infinite", "pos": "zero or negative"}
        R.check(not miss, "R-C07-7", "lsearchk_t::get %s@%d" % (callee(c).split("::")[-1], c["l"]), f.loc(c),
                "the trial step handed to %s is a finite positive number whatever initial step the caller passed" % callee(c).split("::")[-1],
                "the trial step `%s` handed to %s may be %s when the caller's initial step is not finite (or not positive): every trial point is then x0 + t d with "
                "a useless t, and the search fails or returns that step" % (pp(exprs[0]), callee(c).split("::")[-1], " / ".join(words[m] for m in miss)))
    R.floor("R-C07-7", nuse, 3, "calls of update / do_get in lsearchk_t::get")


def rule_cgdescent(F, R):
    """R-C07-3 for CG_DESCENT: interval_t::step_size and the trial state only change together in move()"""
    rule = "R-C07-3"
    fs = F.in_file("src/lsearchk/cgdescent.cpp")
    writers = []
    for f in fs:
        for n in f.inits:
            if n.get("n") == "step_size" and f.cls and f.cls.endswith("interval_t"):
                writers.append((f, n, "ctor-init"))
        for n in f.nodes():
            a = assignment(n) or incdec(n)
            if a:
                lhs = skip(a[0])
                if lhs["k"] == "mem" and lhs["n"] == "step_size" and lhs.get("cls", "").endswith("interval_t"):
                    writers.append((f, n, "assign"))
    nw = 0
    for f, n, kind in writers:
        inst = "interval_t::step_size write@%s" % f.loc(n)
        if kind == "ctor-init":
            # initialised from the constructor's step parameter, c bound to the state parameter
            nw += 1
            R.ok(rule, inst, f.loc(n), "initialised in the constructor from the step the state was evaluated at")
            continue
        nw += 1
        if f.qn != "nano::lsearchk_cgdescent_t::move":
            R.bad(rule, inst, f.loc(n), "interval_t::step_size written outside move(): in " + f.qn)
            continue
        # the write must be followed by update(interval.c, interval.state0, interval.descent, interval.step_size)
        cfg = f.cfg
        w = cfg.where_enclosing(n)
        ok = False
        for c in f.calls(lambda x: callee(x) == "nano::lsearchk_t::update"):
            a = args(c)
            pc = cfg.where_enclosing(c)
            names = [pp(x) for x in a[:4]]
            ivar = names[0].split(".")[0]
            if pc and w and cfg.postdominates(pc, w) and names == [ivar + ".c", ivar + ".state0", ivar + ".descent", ivar + ".step_size"]:
                ok = True
        R.check(ok, rule, inst, f.loc(n), "write is post-dominated by update(interval.c, state0, descent, interval.step_size)",
                "step written without re-evaluating the trial state at it")
    R.floor(rule + "/cgdescent-writers", nw, 2, "writes of interval_t::step_size")
    # do_get returns interval.step_size of the interval built on (state0, descent, step_size, state)
    f = F.one("nano::lsearchk_cgdescent_t::do_get", "src/lsearchk/cgdescent.cpp")
    st, st0, desc = roles(f)
    ivar = None
    for n in f.nodes():
        if n["k"] == "var" and "interval_t" in n.get("t", "") and n.get("c"):
            init = skip(n["c"][0])
            a = init.get("c", [])
            if len(a) == 4 and ref_decl(a[0]) == st0 and ref_decl(a[1]) == desc and ref_decl(a[3]) == st and f.param("step_size") and ref_decl(a[2]) == f.param("step_size")["d"]:
                ivar = n["d"]
    R.check(ivar is not None, rule, "cgdescent do_get interval", f.loc(), "interval built on (state0, descent, step_size, state)",
            "interval not built on the caller's (state0, descent, step_size, state)")
    # "the interval has not moved since it was built": killed by anything that may write it (by-reference argument, non-const method,
    # a lambda that captured it by reference being called); while it holds, the step_size parameter still equals interval.step_size
    from ..cfg import must_dataflow
    cfg7 = f.cfg
    lam_vars = {v["d"] for v in f.nodes() if v["k"] == "var" and v.get("c") and skip(v["c"][0])["k"] == "lambda" and
                any(c_.get("d") == ivar and c_.get("ref", True) for c_ in skip(v["c"][0]).get("caps", ()))}
    psz = f.param("step_size")["d"] if f.param("step_size") else None

    def telem7(facts, e):
        if e.kind == "init" and e.info.get("d") == ivar:
            facts.add("unmoved")
            return
        n_ = e.node
        if e.kind != "node" or n_ is None:
            return
        if (n_["k"] == "var" and n_.get("d") == ivar) or (n_["k"] == "declstmt" and any(v_ is not None and v_.get("k") == "var" and v_.get("d") == ivar for v_ in n_.get("c", ()))):
            facts.add("unmoved")
            return
        if n_["k"] == "call":
            pk = n_.get("pk", "")
            for j, a_ in enumerate(args(n_)):
                if j < len(pk) and pk[j] in "rp" and ref_decl(a_) == ivar:
                    facts.discard("unmoved")
            if n_.get("ck") == "mem" and not n_.get("cconst") and n_.get("c") and ref_decl(n_["c"][0]) == ivar:
                facts.discard("unmoved")
            if n_.get("op") == "()" and n_.get("c") and skip(n_["c"][0])["k"] == "ref" and skip(n_["c"][0]).get("d") in lam_vars:
                facts.discard("unmoved")
        a_ = assignment(n_)
        if a_ and (ref_decl(a_[0]) in (psz, ivar)):
            facts.discard("unmoved")
    IN7, before7 = must_dataflow(cfg7, set(), telem7)
    nret = 0
    for n in f.nodes():
        if n["k"] == "return" and f.parent_of(n) is not None:
            val = skip(n["c"][0]) if n.get("c") else None
            if val is None or val["k"] not in ("construct", "initlist") or len(val.get("c", ())) != 2:
                continue
            flag, step = val["c"]
            if is_literal(flag, False):
                continue
            nret += 1
            s = skip(step)
            good = s["k"] == "mem" and s["n"] == "step_size" and ref_decl(s["c"][0]) == ivar
            if not good and s["k"] == "ref" and s.get("d") == psz and psz is not None:
                w7 = cfg7.where_enclosing(n)
                fb = before7(*w7) if w7 else None
                good = fb is not None and "unmoved" in fb       # the parameter the untouched interval was built from
            R.check(good, rule, "cgdescent return@%s" % f.loc(n), f.loc(n), "returns interval.step_size",
                    "success return does not report the interval's evaluated step: " + pp(n))
    R.floor(rule + "/cgdescent-returns", nret, 6, "non-failure returns")
    # interval_t constructor binds c to the state and step_size to the step
    ctor = [g for g in fs if g.cls and g.cls.endswith("interval_t") and g.raw.get("ctor") == "other"]
    if not ctor:
        raise AnalysisBroken("interval_t constructor vanished")
    g = ctor[0]
    binds = {i.get("n"): pp(i["c"][0]) if i.get("c") else None for i in g.inits}
    pn = [p["n"] for p in g.params]
    R.check(len(pn) == 4 and binds.get("step_size") == pn[2] and binds.get("c") == pn[3] and binds.get("state0") == pn[0]
            and binds.get("descent") == pn[1], rule, "interval_t ctor", g.loc(),
            "members (state0, descent, step_size, c) bound to the matching constructor arguments",
            "interval_t constructor binds members to other arguments: %s" % binds)


def rule_cgdescent_bracket(F, R, rule="R-C07-5"):
    """the CG_DESCENT bracket [a, b] has phi'(b) >= 0 at rest. `interval.updateB()` (b = trial point) therefore needs either the must-fact
    "the trial point is not descending" (the false edge of `c.has_descent(descent)`), or - when the trial is still descending but too high
    (step U3 of Hager & Zhang) - the bisection `updateU(...)` that restores the invariant: it post-dominates the updateB call, or the call
    sits in updateU's own loop. Otherwise done() meets b.g < 0, takes the search for finished and the solver adopts a point that may lie far
    above the starting value."""
    from ..cfg import must_dataflow
    n = 0
    for f in F.functions.values():
        if f.body is None or f.relfile != "src/lsearchk/cgdescent.cpp" or not (f.cls or "").endswith("lsearchk_cgdescent_t"):
            continue
        ubs = [c for c in f.calls(lambda c: callee(c).endswith("interval_t::updateB"))]
        if not ubs:
            continue
        cfg = f.cfg

        def tedge(facts, b, k):
            if b.cond is None or len(b.succ) != 2:
                return
            c = skip(b.cond)
            if c["k"] == "call" and callee(c).endswith("::has_descent") and k == 1:
                facts.add("nodescent")

        def telem(facts, e):
            if e.kind == "node" and e.node["k"] == "call" and (callee(e.node).endswith("lsearchk_cgdescent_t::move") or callee(e.node).endswith("lsearchk_t::update")):
                facts.discard("nodescent")      # a new trial point
        IN, before = must_dataflow(cfg, set(), telem, tedge)
        uus = [c for c in f.calls(lambda c: callee(c).endswith("lsearchk_cgdescent_t::updateU"))]
        for c in ubs:
            n += 1
            w = cfg.where_enclosing(c)
            facts = before(*w) if w else None
            ok = facts is not None and "nodescent" in facts
            how = "the trial point is not descending"
            if not ok and f.name == "updateU" and any(a_["k"] in ("for", "while") for a_ in f.ancestors(c)):
                ok, how = True, "inside the bisection loop of updateU"
            if not ok and any(cfg.where_enclosing(u) and cfg.postdominates(cfg.where_enclosing(u), w) for u in uus):
                ok, how = True, "followed by updateU on every path"
            R.check(ok, rule, "%s updateB@%d" % (f.name, c["l"]), f.loc(c), how,
                    "`interval.updateB()` moves b to a trial point that may still be descending (phi'(b) < 0) and no updateU(...) follows on every path: the bracket invariant "
                    "phi'(b) >= 0 is not restored, done() takes `b.g < 0` for a finished search and the line search reports success at a point that can lie far above the "
                    "starting value")
    R.floor(rule, n, 5, "updateB() calls in CG_DESCENT")


def rule_backtrack_contracts(F, R):
    """R-C07-6: the backtracking search tries a strictly smaller step after every rejected one: the upper clamp of the interpolated step is
    below the current step for every safeguard in (0, 1) (evaluated symbolically: t - safeguard * (t - 0) < t). If the next trial may equal
    the current step the search can sit on the interpolated minimiser - which violates Armijo on a convex quadratic when c1 > 1/2 - until
    its iterations run out, although an acceptable step exists."""
    f = F.one("nano::lsearchk_backtrack_t::do_get", "src/lsearchk/backtrack.cpp")
    step = f.param("step_size")
    cl = [x for x in f.nodes() if assignment(x) and ref_decl(assignment(x)[0]) == (step or {}).get("d") and skip(assignment(x)[1])["k"] == "call" and
          callee(skip(assignment(x)[1])) == "std::clamp"]
    if len(cl) != 1:
        R.incomplete("R-C07-6", "backtrack contraction", f.loc(), "expected one `step_size = std::clamp(...)` in the loop")
        return
    a = args(skip(assignment(cl[0])[1]))
    t = sp.Symbol("t", positive=True)
    sg = sp.Symbol("sg", positive=True)
    try:
        cv = kalg.Conv(f, subst={step["d"]: t}, funcs={"std::min": lambda u, v: sp.Min(u, v), "std::max": lambda u, v: sp.Max(u, v)}, positive=("safeguard",))
        hi = cv.conv(a[2])
        lo = cv.conv(a[1])
    except kalg.OutOfFragment as e:
        R.incomplete("R-C07-6", "backtrack contraction", f.loc(cl[0]), str(e))
        return
    for s_ in list(hi.free_symbols | lo.free_symbols):
        if s_.name == "safeguard":
            hi, lo = hi.subs(s_, sg), lo.subs(s_, sg)
    d = sp.simplify(hi - t)
    ok = bool(d.is_negative) or all(sp.simplify(d.subs({sg: v, t: w})) < 0 for v in (sp.Rational(1, 100), sp.Rational(1, 2), sp.Rational(99, 100)) for w in (sp.Rational(1, 1000), 1, 1000)) \
        if not d.free_symbols - {sg, t} else False
    R.check(ok, "R-C07-6", "backtrack contraction", f.loc(cl[0]), "the next trial is at most %s, strictly below the current step t" % sp.simplify(hi),
            "the next trial step is clamped to at most `%s` = %s, which is not strictly below the current step t: the search can try the same (rejected) step again and again - "
            "on a convex quadratic the interpolated minimiser violates Armijo for c1 > 1/2 - and fails although an acceptable step exists" % (pp(a[2])[:40], sp.simplify(hi)))
    dl = sp.simplify(lo)
    R.check(bool(sp.simplify(lo).is_positive) or bool((dl - 0).is_nonnegative) or all(sp.simplify(dl.subs({sg: v, t: w})) > 0 for v in (sp.Rational(1, 100), sp.Rational(1, 2)) for w in (sp.Rational(1, 1000), 1000)),
            "R-C07-6", "backtrack lower clamp", f.loc(cl[0]), "the next trial stays positive (at least %s)" % dl, "the next trial step can be clamped to a non-positive value %s" % dl)


def run(ctx):
    R = ctx.report
    F = ctx.facts(TUS)
    table = [("nano::lsearchk_backtrack_t", "src/lsearchk/backtrack.cpp", ["do_get"]),
             ("nano::lsearchk_lemarechal_t", "src/lsearchk/lemarechal.cpp", ["do_get"]),
             ("nano::lsearchk_fletcher_t", "src/lsearchk/fletcher.cpp", ["do_get", "zoom"]),
             ("nano::lsearchk_morethuente_t", "src/lsearchk/morethuente.cpp", ["do_get"])]
    total = 0
    for cls, file, fns in table:
        adv_name = advertised_of(F, cls)
        if adv_name not in ADVERTISED:
            raise AnalysisBroken("unknown line-search type " + adv_name)
        adv = ADVERTISED[adv_name]
        for name in fns:
            f = F.one(cls + "::" + name, file)
            step = f.param("step_size")
            if cls.endswith("morethuente_t"):
                # More-Thuente tests the conditions through its own interval logic (dcstep); only step agreement
                total += analyse(f, R, "R-C07-3", None, step["d"] if step else None)
            else:
                total += analyse(f, R, "R-C07-1", adv, step["d"] if step else None)
    R.floor("R-C07-1+3", total, 9, "success returns")
    rule_get(F, R)
    rule_cgdescent(F, R)
    rule_cgdescent_bracket(F, R)
    rule_backtrack_contracts(F, R)
    rule_initial_step(F, R)
    rule_predicates(F, R)
