"""C09 - ML objectives equal their definitions for any thread count and batch size (DESIGN 3, C09)."""
import re
import sympy as sp

from ..facts import AnalysisBroken, walk, strip_targs
from ..pp import pp, skip, canon_text as CT
from ..util import (args, assignment, callee, incdec, is_call, obj, strip_not, literal_value, find_var, parameter_name, writes_in,
                    root_of, unwrap_view)
from ..util import ref_decl_v as ref_decl
from .. import kalg
from ..symexec import Interp
from ..kalg import sym, OutOfFragment

META = {
    "level": "other",
    "technique": "accumulator typestate (clear -> parallel accumulate -> reduce -> read) with ordering and dominance, member coverage, parallel-body write discipline, must-pass-through of the reduction, expression algebra for the regularisers",
    "explanation": "Decides the structure that makes the objectives independent of thread count and batch size: in the linear, "
                   "gboost-scale and gboost-bias objectives every per-thread accumulator is cleared before the parallel loop, the loop body "
                   "touches only the accumulator of its own worker id and slices of the shared buffers given by its own range, the "
                   "reduction that follows sums ALL per-thread accumulators into the first one on every path (no shortcut) and divides by "
                   "the number of samples of the very iterator that was looped, and results are read from the reduced accumulator only; "
                   "every member accumulated in a parallel body is cleared, summed and normalised; the iterator loops hand every chunk "
                   "[begin, end) of map(samples, batch) through unchanged; the L1/L2 regulariser gradients are the derivatives of the "
                   "regulariser values under the same guards; the gradient objective divides by the sample count.",
    "not_decided": "equality with a naive per-sample computation to 1e-9 (floating-point re-association); the loss values themselves (C06)",
    "assumptions": [],
}

TUS = ["src/linear/function.cpp", "src/linear/util.cpp", "src/linear/accumulator.cpp", "src/gboost/function.cpp", "src/gboost/accumulator.cpp", "src/dataset/iterator.cpp",
       "witness/pool_inst.cpp"]

OBJECTIVES = [("nano::linear::function_t", "src/linear/function.cpp", "nano::linear::accumulator_t"),
              ("nano::gboost::scale_function_t", "src/gboost/function.cpp", "nano::gboost::accumulator_t"),
              ("nano::gboost::bias_function_t", "src/gboost/function.cpp", "nano::gboost::accumulator_t")]


def stmt_index(block, node):
    for i, s in enumerate(block.get("c", ())):
        if any(y is node for y in walk(s)):
            return i
    return None


def _reduce_eval(F, g):
    """sum_reduce evaluated with K = 1..4 per-thread accumulators as symbols (their `+=` and `/=` read as the arithmetic they implement):
    the result is (a_0 + ... + a_{K-1}) / samples. Returns (ok, why)."""
    import sympy as sp
    from ..symexec import Interp
    from ..kalg import OutOfFragment

    class Ref:
        def __init__(self, lst, j):
            self.lst, self.j = lst, j

    class RI(Interp):
        spawn_same = True

        def ev(self, n):
            n2 = skip(n)
            if n2 is not None and n2["k"] == "ref" and isinstance(self.env.get(n2.get("d")), Ref):
                r = self.env[n2["d"]]
                return r.lst[r.j]
            if n2 is not None and n2["k"] == "call" and n2.get("op") == "[]" and len(n2.get("c", ())) == 2:
                base = self.ev(n2["c"][0])
                i = sp.sympify(self.ev(n2["c"][1]))
                if isinstance(base, list) and i.is_Integer and 0 <= int(i) < len(base):
                    return base[int(i)]
                raise OutOfFragment("subscript %s" % pp(n2)[:40])
            if n2 is not None and n2["k"] == "call" and n2.get("ck") == "mem" and callee(n2).split("::")[-1] == "size" and not args(n2):
                o = self.ev(obj(n2))
                if isinstance(o, list):
                    return sp.Integer(len(o))
            if n2 is not None and n2["k"] == "call" and n2.get("ck") == "mem" and callee(n2).split("::")[-1] in ("begin", "end", "front", "back") and not args(n2):
                o = self.ev(obj(n2))
                if isinstance(o, list) and callee(n2).split("::")[-1] in ("front", "back") and o:
                    return o[0] if callee(n2).endswith("front") else o[-1]
            return super().ev(n)

        def ex(self, st):
            s0 = skip(st)
            if s0 is not None and s0["k"] == "declstmt":
                for v in s0.get("c", ()):
                    if v["k"] == "var" and v.get("isref") and v.get("c"):
                        init = skip(v["c"][0])
                        if init["k"] == "call" and init.get("op") == "[]" and len(init["c"]) == 2:
                            base = self.ev(init["c"][0])
                            i = sp.sympify(self.ev(init["c"][1]))
                            if isinstance(base, list) and i.is_Integer:
                                self.env[v["d"]] = Ref(base, int(i))
                                continue
                        if init["k"] == "call" and init.get("ck") == "mem" and callee(init).split("::")[-1] in ("front", "back") and isinstance(self.ev(obj(init)), list):
                            base = self.ev(obj(init))
                            self.env[v["d"]] = Ref(base, 0 if callee(init).endswith("front") else len(base) - 1)
                            continue
                        self.env[v["d"]] = self.ev(v["c"][0])
                    else:
                        super().ex({"k": "declstmt", "c": [v], "i": s0.get("i"), "l": s0.get("l")})
                return
            if s0 is not None and s0["k"] == "rangefor":
                r = s0["r"]
                var, rng, body = (s0["c"][r.index(x)] for x in ("var", "range", "body"))
                lst = self.ev(rng)
                if not isinstance(lst, list):
                    raise OutOfFragment("range-for over " + pp(rng)[:30])
                for j in range(len(lst)):
                    self.env[var["d"]] = Ref(lst, j) if var.get("isref") else lst[j]
                    self.ex(body)
                return
            return super().ex(st)

        def lvalue_set(self, lhs, fn):
            l0 = skip(lhs)
            if l0["k"] == "ref" and isinstance(self.env.get(l0.get("d")), Ref):
                r = self.env[l0["d"]]
                r.lst[r.j] = fn(r.lst[r.j])
                return r.lst[r.j]
            if l0["k"] == "call" and l0.get("op") == "[]" and len(l0["c"]) == 2:
                base = self.ev(l0["c"][0])
                i = sp.sympify(self.ev(l0["c"][1]))
                if isinstance(base, list) and i.is_Integer:
                    base[int(i)] = fn(base[int(i)])
                    return base[int(i)]
            return super().lvalue_set(lhs, fn)

    import itertools
    nsym = sp.Symbol("samples", positive=True)
    extra = g.params[2:]
    grids = [dict(zip([p_["d"] for p_ in g.params[1:]], v)) for v in itertools.product((1, 7, 100), repeat=len(g.params) - 1)] if extra else [None]
    try:
        for K in (1, 2, 3, 4):
            for grid in grids:
                it = RI(F, g, n=1)
                acc = [sp.Symbol("a%d" % i, real=True) for i in range(K)]
                it.env[g.params[0]["d"]] = acc
                div = nsym
                if grid is None:
                    if len(g.params) > 1:
                        it.env[g.params[1]["d"]] = nsym
                else:
                    # further integer parameters (a batch size, say): concrete values, so that tests on them are decided
                    for d_, v_ in grid.items():
                        it.env[d_] = sp.Integer(v_)
                    div = sp.Integer(grid[g.params[1]["d"]])
                got = it.run()
                want = sum(sp.Symbol("a%d" % i, real=True) for i in range(K)) / div
                if got is None or sp.simplify(sp.sympify(got) - want) != 0:
                    miss = [i for i in range(K) if not sp.sympify(got if got is not None else 0).has(sp.Symbol("a%d" % i, real=True))]
                    return False, "with %d per-thread accumulators%s it returns %s%s, not their sum divided by the number of samples" % (
                        K, "" if grid is None else " and (%s)" % ", ".join("%s = %d" % (p_["n"], grid[p_["d"]]) for p_ in g.params[1:]), got,
                        (" (accumulator%s %s never added)" % ("s" if len(miss) > 1 else "", miss)) if miss else "")
    except OutOfFragment as e:
        return None, "cannot be evaluated: %s" % e
    return True, ""


def rule_protocol(F, R):
    n = 0
    for cls, file, acc_cls in OBJECTIVES:
        f = F.one(cls + "::do_vgrad", file)
        body = f.body
        inst = cls.split("::")[-1]
        loops = [c for c in f.calls(lambda x: callee(x).endswith("_iterator_t::loop") and pp(obj(x)) == "m_iterator")]
        reds = [c for c in f.calls(lambda x: callee(x) == "nano::sum_reduce")]
        clears = []
        for c in f.calls():
            if callee(c).endswith("::clear") and callee(c).startswith(acc_cls):
                clears.append(c)
            elif callee(c).endswith("::clear") and not callee(c).startswith("nano::") and pp(args(c)[0] if args(c) else c) == "m_accumulators":
                clears.append(c)
        if len(loops) != 1 or len(reds) != 1 or not clears:
            R.bad("R-C09-1", inst + " protocol", f.loc(), "expected one clear, one parallel loop and one reduction (found clear=%d loop=%d reduce=%d)" % (len(clears), len(loops), len(reds)))
            continue
        n += 1
        ic, il, ir = stmt_index(body, clears[0]), stmt_index(body, loops[0]), stmt_index(body, reds[0])
        # the clear covers all accumulators
        cover = False
        c0 = clears[0]
        if callee(c0).startswith(acc_cls):
            rf = [a for a in f.ancestors(c0) if a["k"] == "rangefor"]
            cover = bool(rf) and pp(rf[0]["c"][1]) == "m_accumulators"
        else:
            helper = F.resolve(c0)
            if helper:
                rf = [x for x in helper[0].nodes() if x["k"] == "rangefor"]
                cover = len(rf) == 1 and pp(rf[0]["c"][1]) == helper[0].params[0]["n"] and any(callee(y).endswith("::clear") for y in walk(rf[0]) if y["k"] == "call")
        R.check(cover and None not in (ic, il, ir) and ic < il < ir, "R-C09-1", inst + " clear/loop/reduce order", f.loc(),
                "all accumulators are cleared, then the parallel loop runs, then the reduction", "accumulators are not all cleared before the loop, or the reduction does not follow it")
        # reduction arguments
        a = args(reds[0])
        nexpr = pp(a[1]) if len(a) >= 2 else None
        d = ref_decl(a[1]) if len(a) >= 2 else None
        if d is not None:
            var, _ = find_var(f, d)
            if var is not None and var.get("c"):
                nexpr = pp(var["c"][0]) + ".size()" if not pp(var["c"][0]).endswith("size()") else pp(var["c"][0])
        if nexpr == "samples.size()":
            sv = [v for v in f.nodes() if v["k"] == "var" and v["n"] == "samples" and v.get("c")]
            nexpr = pp(sv[0]["c"][0]) + ".size()" if sv else nexpr
        R.check(pp(a[0]) == "m_accumulators" and nexpr == "m_iterator.samples().size()", "R-C09-1", inst + " normalisation", f.loc(reds[0]),
                "the sums are divided by the sample count of the looped iterator", "reduction is called with (%s, %s)" % (pp(a[0]), nexpr))
        tg = F.resolve(reds[0])
        if not tg:
            R.incomplete("R-C09-1", inst + " reduction body", f.loc(reds[0]), "definition of the called sum_reduce overload not available")
        else:
            ok, why = _reduce_eval(F, tg[0])
            if ok is None:
                R.incomplete("R-C09-1", inst + " reduction sums all workers", tg[0].loc(), "the reduction " + why)
            else:
                R.check(ok, "R-C09-1", inst + " reduction sums all workers", tg[0].loc(),
                        "the reduction returns the sum of all per-thread accumulators divided by the sample count (evaluated for 1..4 accumulators)",
                        "the reduction " + why + ": chunks processed by other workers are dropped or mis-scaled, the value depends on the schedule")
        # after the loop only the reduced accumulator is read
        after = [s for i, s in enumerate(body.get("c", ())) if il is not None and i > il]
        stray = [pp(x)[:50] for s in after for x in walk(s) if x["k"] == "call" and x.get("op") == "[]" and pp(x["c"][0]) == "m_accumulators"]
        R.check(not stray, "R-C09-1", inst + " reads reduced accumulator", f.loc(), "after the loop results are read from the reduced accumulator only",
                "a per-thread accumulator is read directly after the loop: %s" % stray)
        # worker indexing inside the body
        for lam, g in F.lambdas_in(f):
            if len(g.params) < 2 or g.params[1]["n"] != "tnum":
                continue
            acc = [v for v in g.nodes() if v["k"] == "var" and v.get("c") and pp(v["c"][0]).startswith("m_accumulators[")]
            oka = len(acc) == 1 and pp(acc[0]["c"][0]) == "m_accumulators[tnum]" and acc[0].get("isref")
            others = [pp(x)[:40] for x in g.nodes() if x["k"] == "call" and x.get("op") == "[]" and pp(x["c"][0]) == "m_accumulators" and pp(x) != "m_accumulators[tnum]"]
            R.check(oka and not others, "R-C09-3", inst + " worker slot", g.loc(), "the loop body uses m_accumulators[tnum] of its own worker only",
                    "the loop body indexes the per-thread accumulators with %s" % ([pp(acc[0]["c"][0])] if acc else others))
            # writes: accumulator, locals, range slices of shared buffers
            bad = []
            locals_ = {v["d"]: v for v in g.nodes() if v["k"] == "var"}
            rng = g.params[0]["n"]
            for tgt, kind, site in writes_in(g, g.body):
                k2, d = root_of(tgt)
                if k2 == "var" and d in locals_:
                    v = locals_[d]
                    init = pp(v["c"][0]) if v.get("c") else ""
                    if v is (acc[0] if acc else None) or not init or ".slice(%s)" % rng in init or not (v.get("isref") or "tensor_t<nano::tensor_marray" in (v.get("t") or "")):
                        continue
                    if acc and root_of(v["c"][0]) == ("var", acc[0]["d"]):
                        continue
                    bad.append("%s (local `%s = %s`)" % (pp(site)[:50], v["n"], init[:40]))
                elif k2 == "this" or k2 == "global":
                    bad.append(pp(site)[:60])
                elif k2 == "var" and d not in locals_ and d not in {p["d"] for p in g.params}:
                    bad.append("%s (captured variable)" % pp(site)[:50])
            # writable views of shared member buffers must be the slice of the body's own range
            for v in locals_.values():
                if v is (acc[0] if acc else None) or not v.get("c"):
                    continue
                init = v["c"][0]
                ty = v.get("t") or ""
                if root_of(init)[0] == "this" and ("tensor_marray" in ty or (v.get("isref") and not ty.startswith("const "))) and ".slice(%s)" % rng not in pp(init):
                    bad.append("local `%s = %s` is a writable view of shared storage not restricted to the body's range" % (v["n"], pp(init)[:50]))
            # writable maps passed by value to the loss: must be range slices / the accumulator
            for c in g.calls(lambda x: callee(x).startswith("nano::loss_t::")):
                for a_ in args(c):
                    t = pp(unwrap_view(a_))
                    if t.startswith("m_") and ".slice(%s)" % rng not in t:
                        bad.append("%s passed to %s" % (t, callee(c).split("::")[-1]))
            R.check(not bad, "R-C09-3", inst + " body writes", g.loc(), "the loop body writes its own accumulator, locals and range slices of the shared buffers only",
                    "the parallel body writes shared storage that is not partitioned by worker or by range: %s" % bad[:3])
    R.floor("R-C09-1", n, 3, "objectives with the accumulator protocol")


def rule_coverage(F, R):
    for acc_cls, file in (("nano::linear::accumulator_t", "src/linear/accumulator.cpp"), ("nano::gboost::accumulator_t", "src/gboost/accumulator.cpp")):
        fs = {f.name: f for f in F.in_file(file) if f.cls == acc_cls}
        # members accumulated with += anywhere outside operator+= itself
        accumulated = set()
        for f in F.functions.values():
            if f.name in ("operator+=", "operator/=", "clear") and f.cls == acc_cls:
                continue
            for x in f.nodes():
                a = assignment(x)
                if a and a[2] == "+=":
                    for y in walk(a[0]):
                        if y["k"] == "mem" and y.get("fd") and strip_targs(y.get("cls", "")) == acc_cls:
                            accumulated.add(y["n"])
                            break

        def members_of(f, ops):
            out = set()
            for x in f.nodes():
                a = assignment(x)
                if a and a[2] in ops:
                    l = skip(a[0])
                    for y in walk(l):
                        if y["k"] == "mem" and y.get("fd"):
                            out.add(y["n"])
                            break
                if x["k"] == "call" and x.get("ck") == "mem" and callee(x).split("::")[-1] in ("zero", "setZero") and "=" in ops:
                    o = skip(obj(x))
                    if o["k"] == "mem":
                        out.add(o["n"])
            return out
        for name, ops, what in (("clear", ("=",), "cleared"), ("operator+=", ("+=",), "summed in operator+="), ("operator/=", ("/=",), "normalised in operator/=")):
            f = fs.get(name)
            if f is None:
                R.bad("R-C09-2", "%s %s" % (acc_cls.split("::")[-2], name), file + ":1", "accumulator has no %s" % name)
                continue
            got = members_of(f, ops)
            missing = sorted(accumulated - got)
            R.check(bool(accumulated) and not missing, "R-C09-2", "%s::%s" % (acc_cls.split("::")[-2], name), f.loc(), "every accumulated member %s is %s" % (sorted(accumulated), what),
                    "accumulated member(s) %s are not %s: the result depends on the number of threads / previous calls" % (missing, what))
        # operator+= adds the matching member of `other`, operator/= divides by the sample count
        f = fs.get("operator+=")
        if f is not None:
            okp = all(pp(assignment(x)[1]) == "%s.%s" % (f.params[0]["n"], kalg.designator(assignment(x)[0])) for x in f.nodes() if assignment(x) and assignment(x)[2] == "+=")
            R.check(okp, "R-C09-2", "%s::operator+= pairing" % acc_cls.split("::")[-2], f.loc(), "each member is increased by the same member of the other accumulator", "operator+= mixes members")
        f = fs.get("operator/=")
        if f is not None:
            okd = all(pp(assignment(x)[1]) == "cast<double>(%s)" % f.params[0]["n"] for x in f.nodes() if assignment(x) and assignment(x)[2] == "/=")
            R.check(okd, "R-C09-2", "%s::operator/= divisor" % acc_cls.split("::")[-2], f.loc(), "each member is divided by the sample count", "operator/= divides by something else")


def rule_regularisers(F, R, rule="R-C09-4"):
    f = F.one("nano::linear::function_t::do_vgrad", "src/linear/function.cpp")
    n = 6                       # the weights as a 2 x 3 matrix (targets x inputs): size() = 6, rows() = 2, cols() = 3
    W = [sym("w%d" % i) for i in range(n)]
    terms = {}
    for x in f.nodes():
        a = assignment(x)
        if not a or a[2] != "+=":
            continue
        tgt = kalg.designator(a[0])
        if tgt not in ("fx", "gW"):
            continue
        guard = None
        for anc in f.ancestors(x):
            if anc["k"] == "if":
                c = pp(anc["c"][anc["r"].index("cond")])
                if "m_l1reg" in c or "m_l2reg" in c:
                    guard = c
                    break
        if guard is None:
            continue
        it = Interp(F, f, n=n)
        for v in f.nodes():
            if v["k"] == "var" and v["n"] == "W":
                it.env[v["d"]] = list(W)
        it.members["m_l1reg"], it.members["m_l2reg"] = sym("l1"), sym("l2")
        it.matrix_shape = (2, 3)
        try:
            val = it.ev(a[1])
        except OutOfFragment as e:
            R.incomplete(rule, "regulariser %s" % guard, f.loc(x), str(e))
            continue
        terms.setdefault(guard, {})[tgt] = (val, x)
    cnt = 0
    for guard, d in sorted(terms.items()):
        if "fx" not in d or "gW" not in d:
            R.bad(rule, "regulariser " + guard, f.loc(), "the regulariser under `%s` contributes to %s only (value and gradient no longer match)" % (guard, sorted(d)))
            continue
        cnt += 1
        V, G = d["fx"][0], d["gW"][0]
        ok = True
        wit = ""
        for j in range(n):
            z, w = kalg.is_zero(sp.diff(V, W[j]) - (G[j] if isinstance(G, list) else G), R.seed)
            if not z:
                ok, wit = False, "d value/d w%d = %s but the gradient adds %s %s" % (j, sp.diff(V, W[j]), G[j] if isinstance(G, list) else G, w)
                break
        R.check(ok, rule, "regulariser " + guard, f.loc(d["gW"][1]), "gradient term is the derivative of the value term %s" % V, "regulariser gradient mismatch: " + wit)
        lam = sym("l1") if "l1" in guard else sym("l2")
        want = lam * sum(sp.Abs(w) for w in W) / n if "l1" in guard else lam / 2 * sum(w ** 2 for w in W) / n
        z, w = kalg.is_zero(sp.simplify(V - want), R.seed)
        R.check(bool(z), rule, "regulariser value " + guard, f.loc(d["fx"][1]), "value term = %s" % want, "regulariser value is %s, the definition is %s" % (V, want))
    R.floor(rule, cnt, 2, "regulariser terms")
    # gradient objective of gboost: mean over samples
    g = F.one("nano::gboost::grads_function_t::do_vgrad", "src/gboost/function.cpp")
    asg = [x for x in g.nodes() if assignment(x) and kalg.designator(assignment(x)[0]) == "gx"]
    rets = [x for x in g.nodes() if x["k"] == "return"]
    def through_locals(n, depth=0):
        """text of an expression with (reference / const) locals replaced by their initialisers"""
        n = skip(n)
        while n is not None and n["k"] in ("cast", "paren") and n.get("c"):
            n = skip(n["c"][0])
        if n is None:
            return "?"
        if n["k"] == "ref" and n.get("dk") == "var" and depth < 4:
            v_, _ = find_var(g, n["d"])
            if v_ is not None and v_.get("c"):
                return through_locals(v_["c"][0], depth + 1)
        if n["k"] == "call" and n.get("ck") == "mem" and not args(n):
            return "%s.%s()" % (through_locals(obj(n), depth), callee(n).split("::")[-1])
        return pp(n)
    okv = len(rets) == 1 and through_locals(rets[0]["c"][0]) in ("m_values.vector().mean()", "m_values.mean()", "m_values.array().mean()")
    R.check(okv, rule, "gboost gradient objective value", g.loc(), "value = mean of the per-sample loss values", "the value returned is `%s`, not the mean of m_values" % (
        through_locals(rets[0]["c"][0]) if rets else "?"))
    if len(asg) != 1:
        R.bad(rule, "gboost gradient objective", g.loc(), "expected one assignment of the gradient")
    else:
        rhs = skip(assignment(asg[0])[1])
        while rhs is not None and rhs["k"] in ("cast", "paren") and rhs.get("c"):
            rhs = skip(rhs["c"][0])
        num = den = None
        if rhs is not None and ((rhs["k"] == "bin" and rhs["op"] == "/") or (rhs["k"] == "call" and rhs.get("op") == "/" and len(rhs.get("c", ())) == 2)):
            num, den = through_locals(rhs["c"][0]), through_locals(rhs["c"][1])
        okg = num is not None and re.match(r"^gradients\(.*\)(\.vector\(\)|\.array\(\))?$", num) is not None and den == "m_iterator.samples().size()"
        R.check(okg, rule, "gboost gradient objective", g.loc(asg[0]),
                "gradient = per-sample gradients / number of samples the mean is taken over (m_iterator.samples().size())",
                "the gradient is `%s` divided by `%s`; the value is the mean over the m_iterator.samples().size() selected samples, so its derivative divides by that count "
                "(on a strict subset of the dataset the two differ by the factor M / N)" % (num, den) if num is not None else "the gradient is `%s`" % pp(rhs)[:80])


def rule_iterator_chunks(F, R):
    n = 0
    for f in F.in_file("src/dataset/iterator.cpp"):
        if f.name != "loop" or not f.cls or f.cls.endswith("select_iterator_t"):
            continue
        maps = [c for c in f.calls(lambda x: callee(x).split("::")[-1] == "map")]
        if len(maps) != 1:
            continue
        n += 1
        a = [pp(x) for x in args(maps[0])[:2]]
        inst = "%s::loop@%s" % (f.cls.split("::")[-1], f.loc())
        okm = a == ["samples().size()", "batch()"]
        for lam, g in F.lambdas_in(f):
            if len(g.params) != 3:
                continue
            rv = [v for v in g.nodes() if v["k"] == "var" and v.get("c") and is_call(skip(v["c"][0]), "nano::make_range")]
            okr = len(rv) == 1 and [pp(x) for x in args(skip(rv[0]["c"][0]))] == [g.params[0]["n"], g.params[1]["n"]]
            cb = [c for c in g.calls(lambda x: x.get("op") == "()" and pp(x["c"][0]) == "callback")]
            okc = len(cb) == 1 and pp(cb[0]["c"][1]) == (rv[0]["n"] if rv else "?") and pp(cb[0]["c"][2]) == g.params[2]["n"]
            # the data handed to the callback is that of the same range and worker
            rest = [pp(x) for x in cb[0]["c"][3:]] if cb else []
            okd = all(("(%s, %s)" % (g.params[2]["n"], rv[0]["n"] if rv else "?")) in t for t in rest)
            okm = okm and okr and okc and okd
        R.check(okm, "R-C09-5", inst, f.loc(), "map(samples().size(), batch()) chunks are handed through as make_range(begin, end) with the worker id and that range's data",
                "the iterator loop does not forward (range, tnum, data of that range) of map(samples, batch) unchanged")
    R.floor("R-C09-5", n, 3, "iterator loops")


def inline_text(f, node, depth=0):
    """printed expression with const locals (initialised once, not lambdas) replaced by their initialisers"""
    t = pp(node)
    if depth > 4:
        return t
    for y in walk(node):
        if y["k"] == "ref" and y.get("dk") == "var":
            v, _ = find_var(f, y["d"])
            if v is not None and v.get("c") and skip(v["c"][0])["k"] != "lambda":
                t = re.sub(r"(?<![\w.])%s(?![\w(])" % re.escape(v["n"]), inline_text(f, v["c"][0], depth + 1), t)
    return t


def rule_cache(F, R):
    """R-C09-6: the cached and the uncached paths of the dataset iterators deliver the same data for a range"""
    n = 0
    for cls, acc, cache, member in (("nano::targets_iterator_t", "targets", "cache_targets", "m_targets"), ("nano::flatten_iterator_t", "flatten", "cache_flatten", "m_flatten")):
        fa = [f for f in F.in_file("src/dataset/iterator.cpp") if f.cls == cls and f.name == acc and len(f.params) == 2 and "tensor_range_t" in (f.params[1].get("t") or "")]
        fc = [f for f in F.in_file("src/dataset/iterator.cpp") if f.cls == cls and f.name == cache]
        if len(fa) != 1 or len(fc) != 1:
            raise AnalysisBroken("%s::%s / %s not found" % (cls, acc, cache))
        fa, fc = fa[0], fc[0]
        n += 1
        tn, rn = fa.params[0]["n"], fa.params[1]["n"]
        ifs = [x for x in fa.nodes() if x["k"] == "if"]
        rets = [x for x in fa.nodes() if x["k"] == "return" and x.get("c")]
        inst = cls.split("::")[-1]
        ok = len(ifs) == 1 and len(rets) == 2 and "else" in ifs[0]["r"]
        if not ok:
            R.bad("R-C09-6", inst + " accessor", fa.loc(), "expected `if (cached) return cache.slice(range); else return <computed>`")
            continue
        cond = inline_text(fa, ifs[0]["c"][ifs[0]["r"].index("cond")])
        then_ret = [r for r in rets if any(y is r for y in walk(ifs[0]["c"][ifs[0]["r"].index("then")]))]
        else_ret = [r for r in rets if any(y is r for y in walk(ifs[0]["c"][ifs[0]["r"].index("else")]))]
        cnd = cond.replace("this.", "this->").replace("this->", "").replace("samples()", "m_samples")
        cnd = re.sub(r"(?<![\w.])samples(?![\w(])", "m_samples", cnd)
        okg = cnd in (CT("(%s.size<0>() == m_samples.size())" % member), "(%s.size<0>() == m_samples.size())" % member, "(m_samples.size() == %s.size<0>())" % member)
        okt = len(then_ret) == 1 and pp(then_ret[0]["c"][0]) == "%s.slice(%s)" % (member, rn)
        R.check(okg and okt, "R-C09-6", inst + " cached path", fa.loc(), "when the cache covers all samples the accessor returns cache.slice(range)",
                "cached path is `%s -> %s`" % (cond, pp(then_ret[0]["c"][0]) if then_ret else "?"))
        unc = inline_text(fa, else_ret[0]["c"][0]) if len(else_ret) == 1 else None
        # the cache is filled, chunk by chunk, with the very expression of the uncached path
        lam = [g for _, g in F.lambdas_in(fc) if len(g.params) == 3]
        okc = len(lam) == 1
        why = "cache filler lambda not found"
        if okc:
            g = lam[0]
            b, e, t3 = (p["n"] for p in g.params)
            asg = [x for x in g.nodes() if assignment(x) and pp(assignment(x)[0]).startswith(member + ".slice(")]
            okc = len(asg) == 1
            why = "the cache is not written by one range slice assignment"
            if okc:
                lhs = inline_text(g, assignment(asg[0])[0])
                rhs = inline_text(g, assignment(asg[0])[1])
                want_rng = "make_range(%s, %s)" % (b, e)
                norm = lambda z: z.replace("this->", "").replace("dataset().", "dataset.").replace("samples()", "m_samples").replace(" ", "")
                u2 = norm(unc or "").replace(rn, want_rng).replace("[%s]" % tn, "[%s]" % t3)
                # local aliases: `samples` / `dataset` references in the flatten iterator
                c2 = norm(rhs)
                u2 = re.sub(r"(?<![\w.])samples(?![\w(])", "m_samples", u2)
                c2 = re.sub(r"(?<![\w.])samples(?![\w(])", "m_samples", c2)
                c2, u2 = c2.replace(" ", ""), u2.replace(" ", "")
                okc = lhs.replace(" ", "") == ("%s.slice(%s)" % (member, want_rng)).replace(" ", "") and c2 == u2
                why = "the cache is filled with `%s` for chunk %s while the uncached path computes `%s`" % (c2, lhs, u2)
            mp = [c for c in fc.calls(lambda c: callee(c).split("::")[-1] == "map")]
            rs = [c for c in fc.calls(lambda c: callee(c).split("::")[-1] == "resize" and pp(obj(c)) == member)]
            okm = len(mp) == 1 and inline_text(fc, args(mp[0])[0]).replace("this->", "").replace("samples()", "m_samples") == "m_samples.size()" and pp(args(mp[0])[1]) == "batch()"
            okc = okc and okm and bool(rs)
            if not okm:
                why = "the cache is not filled over map(samples.size(), batch())"
        R.check(bool(okc), "R-C09-6", inst + " cache content", fc.loc(), "the cache holds, range by range, exactly what the uncached accessor computes for that range",
                "cached and uncached data differ: " + why)
    R.floor("R-C09-6", n, 2, "cached accessors")


# ------------------------------------------------------------------------------------------------ R-C09-7 index spaces

S_SPACE = {
    # containers addressed by *dataset sample id* (reasons: confirmed by reading)
    "m_soutputs": "strong-learner outputs of every dataset sample (constructor asserts dims == (dataset.samples(), target dims))",
    "m_woutputs": "weak-learner outputs of every dataset sample (same assert)",
    "m_cluster": "cluster_t::group(sample) is defined per dataset sample (built with dataset.samples())",
}
G_SPACE = {"x": "one scale per cluster group (function size = cluster.groups())", "gx": "gradient w.r.t. the scales", "m_gb1": "accumulated gradient per group"}


def rule_index_spaces(F, R):
    """R-C09-7: the scale objective's parallel body mixes three index spaces - positions in the iterator's sample list (P; `i` in
    [range.begin(), range.end())), positions local to the range (L = P - begin; the `slice(range)` buffers and the range's targets) and dataset
    sample ids (S = samples(P); the strong / weak outputs and the cluster assignment), plus group ids (G = group(S)). Every subscript must be
    of its container's space: output(i - begin) = soutputs(samples(i)) + x(group(samples(i))) * woutputs(samples(i))."""
    fs = [f for f in F.functions.values() if f.qn == "nano::gboost::scale_function_t::do_vgrad"]
    if not fs:
        raise AnalysisBroken("gboost::scale_function_t::do_vgrad not found")
    f = fs[0]
    ctor = [g for g in F.functions.values() if g.raw.get("ctor") and (g.cls or "") == "nano::gboost::scale_function_t" and g.inits]
    p_members = set()
    for g in ctor:
        for i_ in g.inits:
            if i_.get("k") == "init" and i_.get("n") and "m_iterator.samples().size()" in pp(i_):
                p_members.add(i_["n"])
    outer_samples = {v["d"] for v in f.nodes() if v["k"] == "var" and v.get("c") and pp(v["c"][0]) == "m_iterator.samples()"}
    nsites = 0
    for lam, g in F.lambdas_in(f):
        rng = [p_ for p_ in g.params if "tensor_range_t" in (p_.get("t") or "")]
        if not rng:
            continue
        rd = rng[0]["d"]
        vars_ = {v["d"]: v for v in g.nodes() if v["k"] == "var"}
        begin = {d for d, v in vars_.items() if v.get("c") and pp(v["c"][0]) == "%s.begin()" % rng[0]["n"]}
        loopv = set()
        for lp in g.nodes():
            if lp["k"] == "for":
                init = lp["c"][lp["r"].index("init")]
                for v in walk(init):
                    if v["k"] == "var" and v.get("c") and (ref_decl(v["c"][0]) in begin or pp(v["c"][0]) == "%s.begin()" % rng[0]["n"]):
                        loopv.add(v["d"])
        local_L = {d for d, v in vars_.items() if v.get("c") and re.fullmatch(r"(\w+)\.slice\(%s\)" % re.escape(rng[0]["n"]), pp(v["c"][0]))}
        local_L |= {p_["d"] for p_ in g.params if "tensor_t<" in (p_.get("t") or "")}       # the range's own data handed in by the iterator

        def peel(n):
            n = skip(n)
            while n is not None and n["k"] in ("cast", "paren") and n.get("c"):
                n = skip(n["c"][0])
            return n

        def is_samples(n):
            n = peel(n)
            return (n["k"] == "ref" and n.get("d") in outer_samples) or pp(n) == "m_iterator.samples()"

        def space(n, depth=0):
            n = peel(n)
            if n is None or depth > 8:
                return None
            if n["k"] == "int":
                return "const"
            if n["k"] == "ref":
                d = n.get("d")
                if d in loopv:
                    return "P"
                if d in begin:
                    return "B"
                v = vars_.get(d)
                if v is not None and v.get("c") and (v.get("t") or "").startswith("const "):
                    return space(v["c"][0], depth + 1)
                return None
            if n["k"] == "bin" and n["op"] == "-":
                a, b = space(n["c"][0], depth + 1), space(n["c"][1], depth + 1)
                if a == "P" and b == "B":
                    return "L"
                return None
            if n["k"] == "call" and n.get("op") == "()" and len(n["c"]) == 2 and is_samples(n["c"][0]):
                return "S" if space(n["c"][1], depth + 1) == "P" else None
            if n["k"] == "call" and n.get("ck") == "mem" and callee(n) == "nano::cluster_t::group" and len(args(n)) == 1:
                return "G" if space(args(n)[0], depth + 1) == "S" else None
            if pp(n) == "%s.begin()" % rng[0]["n"]:
                return "B"
            return None

        def container(n):
            """(space, name) of an indexed container expression, None when it is not one of the tracked ones"""
            n = peel(n)
            if is_samples(n):
                return "P", "samples"
            if n["k"] == "ref":
                if n.get("d") in local_L:
                    return "L", n["n"]
                if n["n"] in G_SPACE and n.get("dk") in ("var", "parm", "bind"):
                    return "G", n["n"]
            if n["k"] == "mem":
                if n["n"] in S_SPACE:
                    return "S", n["n"]
                if n["n"] in G_SPACE:
                    return "G", n["n"]
                if n["n"] in p_members:
                    return "P", n["n"]
            return None
        for x in g.nodes():
            if x["k"] != "call":
                continue
            cont = idx = None
            if x.get("op") == "()" and len(x["c"]) == 2:
                cont, idx = x["c"][0], x["c"][1]
            elif x.get("ck") == "mem" and len(args(x)) == 1 and callee(x).split("::")[-1].split("<")[0] in ("vector", "tensor", "array", "matrix", "group"):
                cont, idx = x["c"][0], args(x)[0]
            if cont is None:
                continue
            c_ = container(cont)
            if c_ is None:
                continue
            nsites += 1
            sp_ = space(idx)
            inst = "%s(%s)@%d" % (c_[1], pp(idx)[:30], x["l"])
            if sp_ is None:
                R.incomplete("R-C09-7", inst, g.loc(x), "cannot tell the index space of `%s`" % pp(idx)[:60])
                continue
            names = {"P": "position in the iterator's sample list", "L": "position local to the range (i - begin)", "S": "dataset sample id (samples(i))", "G": "group id",
                     "const": "constant", "B": "range begin"}
            R.check(sp_ == c_[0], "R-C09-7", inst, g.loc(x), "`%s` is subscripted with a %s" % (c_[1], names[c_[0]]),
                    "`%s` holds one entry per %s but is subscripted with `%s`, a %s: the objective is no longer mean_i loss(t_i, s(sample_i) + x(group_i) * w(sample_i)) "
                    "(and depends on the batch / sample subset)" % (c_[1], names[c_[0]], pp(idx)[:50], names[sp_]))
    R.floor("R-C09-7", nsites, 10, "subscripts in the scale objective's parallel body")
    # the model output itself: s + x(group) * w for assigned samples, s alone for unassigned ones (group < 0)
    nout = 0
    for lam, g in F.lambdas_in(f):
        outs = [x for x in g.nodes() if assignment(x) and re.match(r"\w+\.vector\(", pp(assignment(x)[0])) and "outputs" in pp(assignment(x)[0]).split(".")[0]]
        for x in outs:
            rhs = assignment(x)[1]
            atoms = {}
            for y in walk(rhs):
                if y["k"] == "call" and y.get("ck") == "mem" and y.get("c") and skip(y["c"][0])["k"] == "mem" and skip(y["c"][0])["n"] in ("m_soutputs", "m_woutputs"):
                    atoms[pp(y)] = "so" if skip(y["c"][0])["n"] == "m_soutputs" else "wo"
                if y["k"] == "call" and y.get("op") == "()" and len(y["c"]) == 2 and skip(y["c"][0])["k"] == "ref" and skip(y["c"][0])["n"] == "x":
                    atoms[pp(y)] = "xg"
            # also through the const locals the right-hand side names
            for v in g.nodes():
                if v["k"] == "var" and v.get("c"):
                    for y in walk(v["c"][0]):
                        if y["k"] == "call" and y.get("op") == "()" and len(y["c"]) == 2 and skip(y["c"][0])["k"] == "ref" and skip(y["c"][0])["n"] == "x":
                            atoms[pp(y)] = "xg"
            try:
                got = kalg.Conv(g, atoms=atoms, scalar=True).conv(rhs)
            except OutOfFragment as e:
                R.incomplete("R-C09-7", "scale output@%d" % x["l"], g.loc(x), "cannot evaluate: %s" % e)
                continue
            grp = [s_ for s_ in got.free_symbols if s_.name == "group"]
            so, wo, xg = sym("so"), sym("wo"), sym("xg")
            # which cases reach this assignment (enclosing `if (group < 0)` branches)
            cases = {"unassigned": -1, "assigned": 1}
            for a_ in g.ancestors(x):
                if a_["k"] == "if":
                    c_ = pp(a_["c"][a_["r"].index("cond")])
                    in_then = any(z is x for z in walk(a_["c"][a_["r"].index("then")]))
                    if c_ == CT("(group < 0)"):
                        cases.pop("assigned" if in_then else "unassigned", None)
                    elif c_ in (CT("(group >= 0)"), CT("(0 <= group)")):
                        cases.pop("unassigned" if in_then else "assigned", None)
            ok, why = True, ""
            for name, gv in cases.items():
                val = got.subs({s_: gv for s_ in grp}) if grp else got
                val = sp.piecewise_fold(val) if hasattr(sp, "piecewise_fold") else val
                want = so if name == "unassigned" else so + xg * wo
                z, w = kalg.is_zero(sp.simplify(val - want), R.seed)
                if not z:
                    ok, why = False, "for an %s sample the output is %s, expected %s %s" % (name, sp.simplify(val), want, w)
                    break
            nout += 1
            R.check(ok, "R-C09-7", "scale output@%d" % x["l"], g.loc(x), "output = strong + x(group) * weak for assigned samples, strong alone for unassigned ones", why)
    R.floor("R-C09-7/output", nout, 1, "assignments of the scale objective's per-sample output")


def rule_linear_chain(F, R, rule="R-C09-8"):
    """the data term of the linear objective in its 1 x 1 instance: linear::predict computes o = w * x + b, and the accumulated gradient terms are
    g * do/db (= g) for the bias and g * do/dw (= g * x) for the weights, g being the loss gradient w.r.t. the output written by loss.vgrad"""
    ps = [f for f in F.functions.values() if f.qn == "nano::linear::predict" and f.body is not None and len(f.params) == 4 and "marray" in (f.params[3].get("t") or "")]
    f = F.one("nano::linear::function_t::do_vgrad", "src/linear/function.cpp")
    if not ps:
        raise AnalysisBroken("nano::linear::predict(inputs, weights, bias, outputs map) not found")
    p = ps[0]
    try:
        ex = kalg.SymExec(p, scalar=True)
        ex.run([s_ for s_ in p.body.get("c", ())])
    except OutOfFragment as e:
        R.incomplete(rule, "linear predict", p.loc(), str(e))
        return
    outs = [v for k, v in ex.state.items() if k.startswith(p.params[3]["n"])]
    x, w, b = (sym(p.params[i]["n"]) for i in range(3))
    ok = len(outs) == 1 and kalg.is_zero(outs[0] - (w * x + b), R.seed)[0]
    R.check(bool(ok), rule, "linear predict", p.loc(), "outputs = inputs * weights' + bias", "linear::predict computes %s" % (outs[0] if outs else "nothing"))
    n = 0
    for lam, g in F.lambdas_in(f):
        vg = [c for c in g.calls(lambda c: callee(c) == "nano::loss_t::vgrad")]
        pr = [c for c in g.calls(lambda c: callee(c) == "nano::linear::predict")]
        if len(vg) != 1 or len(pr) != 1:
            continue
        n += 1
        same_out = pp(args(vg[0])[1]) == pp(args(pr[0])[3])
        gbuf_member = pp(args(vg[0])[2]).split(".")[-1]
        xname = pp(args(pr[0])[0])
        # where the gradient sums are accumulated: the parallel body itself, or an accumulator method it calls (inputs bound to its parameter)
        sites = [(g, xname)]
        for c in g.calls(lambda c: c.get("ck") == "mem" and callee(c).startswith("nano::linear::accumulator_t::")):
            for h in F.functions.values():
                if h.qn == callee(c) and h.body is not None and len(h.params) == len(args(c)):
                    xn = next((h.params[j]["n"] for j, a_ in enumerate(args(c)) if pp(a_) == xname), None)
                    if xn:
                        sites.append((h, xn))
        found = None
        for h, xn in sites:
            adds = [y for y in h.nodes() if assignment(y) and assignment(y)[2] == "+=" and any(m_ in pp(assignment(y)[0]) for m_ in ("m_gb1", "m_gW1"))]
            if len(adds) < 2:
                continue
            blk = h.parent_of(adds[0])
            while blk is not None and blk["k"] != "block":
                blk = h.parent_of(blk)
            atoms = {}
            for v in walk(blk):
                if v["k"] == "call" and re.match(r"(\w+\.)?%s\.reshape\(" % re.escape(gbuf_member), pp(v)):
                    atoms[pp(v)] = "g"
                if v["k"] == "mem" and v.get("n") == gbuf_member:
                    atoms[pp(v)] = "g"
            try:
                ex = kalg.SymExec(h, scalar=True, atoms=atoms)
                ex.run([s_ for s_ in blk.get("c", ()) if not any(z is vg[0] for z in walk(s_))])
            except OutOfFragment as e:
                found = ("oof", str(e), h)
                continue
            inc = {}
            for k, v in ex.state.items():
                for m_ in ("m_gb1", "m_gW1"):
                    if k.split(".")[-1] == m_:
                        inc[m_] = sp.expand(v - sym(k.replace(".", "_")))
            found = ("ok", inc, h, xn)
            break
        if found is None:
            R.incomplete(rule, "linear data term", g.loc(), "the statements accumulating m_gb1 / m_gW1 were not found in the parallel body or the accumulator methods it calls")
            continue
        if found[0] == "oof":
            R.incomplete(rule, "linear data term", found[2].loc(), found[1])
            continue
        inc, h, xn = found[1], found[2], found[3]
        G, X = sym("g"), sym(xn)
        okb = "m_gb1" in inc and kalg.is_zero(inc["m_gb1"] - G, R.seed)[0]
        okw = "m_gW1" in inc and kalg.is_zero(inc["m_gW1"] - G * X, R.seed)[0]
        R.check(bool(same_out and okb and okw), rule, "linear data term", h.loc(), "per range: bias gradient += sum_i g_i, weight gradient += sum_i g_i x_i' with g = d loss / d output of the predicted outputs",
                "the accumulated gradient is not the chain rule of loss(w x + b): bias += %s, weights += %s%s" % (inc.get("m_gb1"), inc.get("m_gW1"), "" if same_out else "; loss.vgrad is not evaluated at the predicted outputs"))
    R.floor(rule, n, 1, "linear objective parallel bodies")


def rule_sample_axis(F, R, rule="R-C09-9"):
    """the rank-4 buffers of the objectives (targets, outputs, loss values / gradients) are sample-major: (samples, target dims...). A 2-d view of
    one of them keeps the sample axis first - `reshape(<number of samples>, ...)`; `reshape(<target size>, <samples>)` has the right extents but
    reinterprets the memory (it is not a transpose), mixing the components of different samples."""
    n = 0
    for f in F.functions.values():
        if f.body is None or not f.relfile.startswith(("src/linear/", "src/gboost/function.cpp", "src/gboost/accumulator.cpp", "include/nano/linear/", "include/nano/gboost/")):
            continue
        for c in f.calls(lambda c: c.get("ck") == "mem" and callee(c).split("::")[-1].split("<")[0] == "reshape" and "tensor_t" in callee(c) and len(args(c)) >= 2):
            ot = (skip(obj(c)).get("t") or "")
            if not re.search(r", 4>", ot):
                continue
            n += 1

            def klass(e, depth=0):
                e = skip(e)
                while e["k"] == "cast" and e.get("c"):
                    e = skip(e["c"][0])
                t = pp(e)
                if re.fullmatch(r"\w+\.size\(\)", t) and "tensor_range_t" in (skip(obj(e)).get("t") or ""):
                    return "samples"
                if e["k"] == "call" and callee(e).split("::")[-1].startswith("size<") and e.get("targs") == ["0"]:
                    return "samples"
                if re.fullmatch(r"[\w.()]+\.size<0>\(\)", t):
                    return "samples"
                if re.fullmatch(r"(\w+\.)?samples(\(\))?\.size\(\)", t):
                    return "samples"
                if e["k"] == "ref" and depth < 3:
                    v, _ = find_var(f, e.get("d"))
                    if v is not None and v.get("c"):
                        return klass(v["c"][0], depth + 1)
                if e["k"] in ("int",) or t in ("(-1)", "-1"):
                    return "inferred"
                if re.search(r"tsize|m_gb1|bias|\.rows\(\)|target", t):
                    return "targets"
                return None
            k0 = klass(args(c)[0])
            inst = "%s reshape@%d" % (f.name if not f.is_lambda else "lambda", c["l"])
            if k0 is None:
                R.incomplete(rule, inst, f.loc(c), "cannot tell whether `%s` is the number of samples" % pp(args(c)[0])[:50])
                continue
            R.check(k0 == "samples", rule, inst, f.loc(c), "the 2-d view keeps the sample axis first",
                    "`%s` views a sample-major buffer with `%s` (%s) as its first extent: the memory is laid out (samples, target dims), so this is a reinterpretation, not a "
                    "transpose - components of different samples and targets are mixed in whatever is summed over it" % (pp(c)[:70], pp(args(c)[0])[:40], "the target size" if k0 == "targets" else "an inferred extent"))
    R.floor(rule, n, 4, "2-d views of sample-major buffers")


def run(ctx):
    R = ctx.report
    F = ctx.facts(TUS)
    rule_protocol(F, R)
    rule_coverage(F, R)
    rule_regularisers(F, R)
    rule_iterator_chunks(F, R)
    rule_cache(F, R)
    rule_index_spaces(F, R)
    rule_linear_chain(F, R)
    rule_sample_axis(F, R)
    from . import c17
    # chunk tiling of pool_t::map itself (the rule of C17, run here too: every objective's value rests on it)
    maps = [f for f in F.functions.values() if f.qn == "nano::parallel::pool_t::map"]
    R.floor("R-C09-10", len(maps), 2, "pool_t::map instantiations")
    c17.rule_tiling(F, R, maps, "R-C09-10")
