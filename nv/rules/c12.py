"""C12 - splitters and samplers return index sets with the promised set structure (DESIGN 3, C12)."""
import re
import sympy as sp

from ..cfg import must_dataflow
from ..facts import AnalysisBroken, walk
from ..pp import pp, skip
from ..util import args, assignment, callee, is_call, obj, ref_decl, find_var, parameter_name, root_of, literal_value, writes_in, unwrap_view
from .. import kalg
from ..kalg import OutOfFragment, sym
from ..symexec import Interp

META = {
    "level": "other",
    "technique": "interval/affine algebra over the segment expressions (sympy), must-dataflow (sorted before publication), seed provenance dataflow, "
                 "sampler shape rules, index-alignment rule for sample weights, norm algebra for the ball sampler",
    "explanation": "Decides the structure from which the set properties follow for every n, fold count and seed: the three segments the k-fold "
                   "splitter copies tile [0, n) of ONE shuffled copy of the input (valid = [f*chunk, end_f), train = the rest, with matching "
                   "lengths and adjacent folds, the last fold ending at n, chunk = floor(n/k)); the random splitter cuts [0, train) and "
                   "[train, n) with train = idiv(p*n, 100) and idiv being round-half-up integer division; both parts are sorted after their "
                   "last write and before being stored; the only random source is make_rng(seed) with seed read from the "
                   "`splitter::seed` parameter; samplers draw from exactly the input range (uniform over [0, size-1], weights aligned "
                   "position-by-position with the samples, including the weights computed by the gboost sampler), sort before returning, "
                   "sampling without replacement slices a shuffled private copy; the ball sampler returns x0 + radius*z*u with |u| = 1 and z = U^(1/n) "
                   "for U in [0, 1).",
    "not_decided": "that std::shuffle produces a permutation, that std::discrete_distribution never returns an index of zero weight and that "
                   "std::uniform_*_distribution stays in range (standard library contracts); equal seeds give equal splits follows from the seed "
                   "provenance rule and the determinism of the standard engines",
    "assumptions": ["std::shuffle permutes its range", "std::discrete_distribution(w) returns i with probability w_i / sum w", "std::sort sorts"],
}

TUS = ["src/splitter/kfold.cpp", "src/splitter/random.cpp", "src/splitter.cpp", "src/core/sampling.cpp", "src/gboost/sampler.cpp"]

N = sp.Symbol("n", integer=True, positive=True)
IDIV = sp.Function("idiv")


Q = sp.Symbol("chunk", integer=True, nonnegative=True)
REM = sp.Symbol("rem", integer=True, nonnegative=True)


def conv_for(f, sizes):
    """converter for index expressions: X.size() -> the symbolic size of container X; the integer quotient `chunk` stays a symbol
    (n = folds*chunk + rem, 0 <= rem), it is NOT the rational n/folds"""
    atoms = {"%s.size()" % k: v for k, v in sizes.items()}
    subst = {v["d"]: Q for v in f.nodes() if v["k"] == "var" and v["n"] == "chunk"}
    return kalg.Conv(f, atoms=atoms, funcs={"nano::idiv": lambda a, b: IDIV(a, b)}, positive=("folds", "fold", "train_perc"), subst=subst)


def segment_of(n):
    """(container text, begin node, length node) for X.vector().segment(b, l) / X.vector() (whole)"""
    n = skip(n)
    if n["k"] == "call" and n.get("ck") == "mem" and callee(n).split("::")[-1] == "segment" and len(args(n)) == 2:
        base = pp(unwrap_view(obj(n))).replace(".vector()", "")
        return base, args(n)[0], args(n)[1]
    if n["k"] == "call" and n.get("ck") == "mem" and callee(n).split("::")[-1] in ("head", "tail") and len(args(n)) == 1:
        # head(k) = segment(0, k), tail(k) = segment(size - k, k)
        base = pp(unwrap_view(obj(n))).replace(".vector()", "")
        return base, (None if callee(n).split("::")[-1] == "head" else ("tail", args(n)[0])), args(n)[0]
    if n["k"] == "call" and n.get("ck") == "mem" and callee(n).split("::")[-1] == "vector" and not args(n):
        return pp(obj(n)), None, None
    return None


def seg_eval(cv, size, begin, length):
    """(begin, length) of a segment as sympy expressions; `size` is the element count of the container it is cut from"""
    ln = size if length is None else cv.conv(length)
    if begin is None:
        return sp.Integer(0), ln
    if isinstance(begin, tuple) and begin[0] == "tail":
        return size - cv.conv(begin[1]), ln
    return cv.conv(begin), ln


def branches(e):
    """expand the (single) Piecewise of e into [(condition, expression)]"""
    pws = list(e.atoms(sp.Piecewise)) if isinstance(e, sp.Basic) else []
    if not pws:
        return [(sp.true, e)]
    pw = pws[0]
    out = []
    for val, cond in pw.args:
        for c2, e2 in branches(e.subs(pw, val)):
            out.append((cond, e2))
    return out


def zero(e):
    return sp.simplify(sp.expand(e)) == 0


def ctor_size(f, name, cv):
    v = [x for x in f.nodes() if x["k"] == "var" and x["n"] == name and x.get("c")]
    if len(v) != 1:
        raise OutOfFragment("declaration of `%s` not found" % name)
    init = skip(v[0]["c"][0])
    if init["k"] != "construct" or len(init.get("c", ())) != 1:
        raise OutOfFragment("`%s` is not constructed from a single size" % name)
    return cv.conv(init["c"][0]), v[0]


def splitter_roles(F, f):
    """names of the variables playing each role in a splitter's split(): found by structure, not by spelling"""
    roles = {"samples": f.params[0]["n"]}
    for v in f.nodes():
        if v["k"] == "var" and v.get("c"):
            pn = parameter_name(v["c"][0])
            if pn == "splitter::folds":
                roles["folds"] = v["n"]
            elif pn == "splitter::seed":
                roles["seed"] = v["n"]
            elif pn == "splitter::random::train_per":
                roles["train_perc"] = v["n"]
    loops = [x for x in f.nodes() if x["k"] == "for"]
    if len(loops) == 1 and "init" in loops[0]["r"]:
        init = loops[0]["c"][loops[0]["r"].index("init")]
        lv = [x for x in walk(init) if x["k"] == "var"]
        if len(lv) == 1:
            roles["fold"] = lv[0]["n"]
        roles["loop"] = loops[0]
    em = [c for c in f.calls(lambda x: callee(x).endswith("::emplace_back"))]
    if len(em) == 1 and len(args(em[0])) == 2:
        names = []
        for a in args(em[0]):
            a0 = skip(a)
            inner = args(a0)[0] if a0["k"] == "call" and callee(a0) == "std::move" and args(a0) else a0
            d = ref_decl(inner)
            var, _ = find_var(f, d) if d is not None else (None, None)
            names.append(var["n"] if var is not None else None)
        roles["first"], roles["second"] = names
        roles["emplace"] = em[0]
    for v in f.nodes():
        if v["k"] == "var" and v.get("c") and pp(v["c"][0]) == "%s.vector()" % roles["samples"]:
            roles["world"] = v["n"]
    missing = [k for k in ("folds", "seed", "fold", "first", "second") if not roles.get(k)]
    if missing:
        raise AnalysisBroken("%s: cannot identify the variables playing the roles %s (the function no longer has the shape the rule was written for)" % (f.qn, missing))
    return roles


def rule_kfold(F, R):
    f = F.one("nano::kfold_splitter_t::split", "src/splitter/kfold.cpp")
    inst = "kfold"
    ro = splitter_roles(F, f)
    Sn, Kn, Fn = ro["samples"], ro["folds"], ro["fold"]
    try:
        # the integer quotient n / folds: the variable initialised with `samples.size() / folds`
        chunk = [x for x in f.nodes() if x["k"] == "var" and x.get("c") and pp(x["c"][0]) == "(%s.size() / %s)" % (Sn, Kn)]
        okc = len(chunk) == 1 and "long" in (chunk[0].get("t") or "")
        R.check(okc, "R-C12-1", inst + " chunk", f.loc(chunk[0]) if chunk else f.loc(), "the fold size is floor(n / folds) (integer division)",
                "no variable holds the integer quotient %s.size() / %s (the fold size is computed differently)" % (Sn, Kn))
        world_names = [Sn] + ([ro["world"]] if ro.get("world") else [])
        sizes = {Sn: N}
        if ro.get("world"):
            sizes[ro["world"]] = N
        subst = {chunk[0]["d"]: Q} if chunk else {}

        def mkconv():
            atoms = {"%s.size()" % k: v for k, v in sizes.items()}
            return kalg.Conv(f, atoms=atoms, funcs={"nano::idiv": lambda a, b: IDIV(a, b)}, positive=(Kn, Fn), subst=subst)
        # the two index sets, by the position they take in the stored pair
        A, B = ro["first"], ro["second"]
        for nm in (A, B):
            try:
                sizes[nm], _ = ctor_size(f, nm, mkconv())
            except OutOfFragment:
                pass
        # sizes may depend on each other (train(n - valid.size())): second pass
        for nm in (A, B):
            sizes[nm], _ = ctor_size(f, nm, mkconv())
        cv = mkconv()
        segs = []
        for x in f.nodes():
            a = assignment(x)
            if not a or a[2] != "=":
                continue
            l, r = segment_of(a[0]), segment_of(a[1])
            if l and r and l[0] in (A, B):
                segs.append((l, r, x))
        if len(segs) != 3:
            R.bad("R-C12-1", inst + " segments", f.loc(), "expected 3 segment copies (validation fold, training head, training tail), found %d" % len(segs))
            return
        fold, folds = cv.symbol(Fn), cv.symbol(Kn)

        pieces = []
        for (ln, lb, ll), (rn, rb, rl), x in segs:
            rn0 = rn.replace(".vector()", "")
            db, dl = seg_eval(cv, sizes[ln], lb, ll)
            sb, sl = seg_eval(cv, sizes.get(rn0, N), rb, rl)
            pieces.append(dict(dst=ln, db=db, dl=dl, src=rn0, sb=sb, sl=sl, node=x))
        # roles: the set written by one copy is the validation fold, the one written by two is the training set
        cnt = {nm: len([p_ for p_ in pieces if p_["dst"] == nm]) for nm in (A, B)}
        if sorted(cnt.values()) != [1, 2]:
            R.bad("R-C12-1", inst + " segments", f.loc(), "the two index sets are not filled by one and two segment copies: %s" % cnt)
            return
        VALID = [nm for nm in (A, B) if cnt[nm] == 1][0]
        TRAIN = [nm for nm in (A, B) if cnt[nm] == 2][0]
        nvalid, ntrain = sizes[VALID], sizes[TRAIN]
        v0 = [p_ for p_ in pieces if p_["dst"] == VALID][0]
        vb = v0["sb"]
        ve = v0["sb"] + v0["sl"]
        ok, why = True, ""
        t = sp.Symbol("t", integer=True, positive=True)
        for case, fval in (("last fold", folds - 1), ("fold f < k-1", folds - 1 - t)):
            def S(e):
                r_ = sp.simplify(sp.sympify(e).subs(fold, fval))
                if r_.atoms(sp.Piecewise):
                    r_ = sp.simplify(sp.piecewise_fold(r_))
                if r_.atoms(sp.Piecewise):
                    raise OutOfFragment("cannot decide which branch of the fold boundary is taken for the %s: %s" % (case, r_))
                return r_
            ve_b, vb_b = S(ve), S(vb)
            tr = sorted([p_ for p_ in pieces if p_["dst"] == TRAIN], key=lambda p_: 0 if zero(S(p_["db"])) else 1)
            checks = [
                (all(p_["src"] in world_names for p_ in pieces), "a segment is not cut from the shuffled input"),
                (zero(S(v0["sl"]) - S(v0["dl"])) and zero(S(v0["db"])) and zero(S(v0["dl"]) - S(nvalid)), "validation copy: source and destination lengths differ"),
                (zero(S(tr[0]["db"])) and zero(S(tr[0]["sb"])) and zero(S(tr[0]["dl"] - tr[0]["sl"])) and zero(S(tr[0]["sl"]) - vb_b), "training head is not [0, fold begin)"),
                (zero(S(tr[1]["db"]) - S(tr[0]["db"] + tr[0]["dl"])), "training tail does not start where the head ends"),
                (zero(S(tr[1]["dl"] - tr[1]["sl"])), "training tail: source and destination lengths differ"),
                (zero(S(tr[1]["sb"]) - ve_b), "training tail does not start at the end of the validation fold"),
                (zero(S(tr[1]["sb"] + tr[1]["sl"]) - N), "training tail does not end at n"),
                (zero(S(tr[1]["db"] + tr[1]["dl"]) - S(ntrain)), "training parts do not fill the training set"),
                (zero(S(ntrain) + S(nvalid) - N), "|train| + |valid| != n"),
            ]
            for c_, msg in checks:
                if not c_:
                    ok, why = False, "%s (%s)" % (msg, case)
                    break
            if not ok:
                break
            if case == "last fold":
                if not zero(ve_b - N):
                    ok, why = False, "the last fold ends at %s, not at n: the remaining samples are in no validation fold" % ve_b
                    break
            else:
                nxt = sp.simplify(sp.sympify(vb).subs(fold, fval + 1))
                if nxt.atoms(sp.Piecewise):
                    nxt = sp.simplify(sp.piecewise_fold(nxt))
                if not zero(nxt - ve_b):
                    ok, why = False, "fold f+1 does not start where fold f ends"
                    break
                slack = sp.simplify(sp.expand((N - ve_b).subs(N, folds * Q + REM)))
                if not (slack.is_nonnegative or sp.simplify(sp.expand(slack)).is_nonnegative):
                    ok, why = False, "the fold can end beyond n for a non-last fold (n - end = %s)" % slack
                    break
        if ok and not zero(sp.simplify(sp.sympify(vb).subs(fold, 0))):
            ok, why = False, "the first fold does not start at 0"
        R.check(ok, "R-C12-1", inst + " tiling", f.loc(segs[0][2]), "valid = [f*chunk, end_f), train = [0, f*chunk) ++ [end_f, n); folds adjacent, first at 0, last ends at n",
                "k-fold segments do not partition the input: " + why)
        R.check(TRAIN == A and VALID == B, "R-C12-1", inst + " pair order", f.loc(ro["emplace"]), "stored as (train, valid)", "the pair is stored as (validation, training)")
        lp = ro["loop"]
        okl = pp(lp["c"][lp["r"].index("cond")]) == "(%s < %s)" % (Fn, Kn) and pp(lp["c"][lp["r"].index("inc")]) in ("(++%s)" % Fn, "(%s++)" % Fn) and \
            pp(lp["c"][lp["r"].index("init")]).endswith("%s = 0" % Fn)
        R.check(okl, "R-C12-1", inst + " folds", f.loc(), "folds 0..k-1 are produced", "the fold loop is not fold = 0..folds-1")
    except OutOfFragment as e:
        R.incomplete("R-C12-1", inst, f.loc(), str(e))


def rule_random(F, R):
    f = F.one("nano::random_splitter_t::split", "src/splitter/random.cpp")
    inst = "random"
    ro = splitter_roles(F, f)
    Sn = ro["samples"]
    if not ro.get("train_perc"):
        raise AnalysisBroken("random splitter: no variable is read from the `splitter::random::train_per` parameter")
    try:
        sizes = {Sn: N}
        atoms = {"%s.size()" % Sn: N}
        cv = kalg.Conv(f, atoms=atoms, funcs={"nano::idiv": lambda a, b: IDIV(a, b)}, positive=(ro["train_perc"],))
        A, B = ro["first"], ro["second"]
        nA, _ = ctor_size(f, A, cv)
        nB, _ = ctor_size(f, B, cv)
        p = cv.symbol(ro["train_perc"])
        R.check(zero(nA - IDIV(p * N, 100)), "R-C12-2", inst + " train size", f.loc(), "the first set of the pair (training) has idiv(train_perc * n, 100) elements", "training size is %s" % nA)
        R.check(zero(nA + nB - N), "R-C12-2", inst + " sizes", f.loc(), "|train| + |valid| = n", "|train| + |valid| = %s" % sp.simplify(nA + nB))
        segs = {}
        for x in f.nodes():
            a = assignment(x)
            if a and a[2] == "=":
                l, r = segment_of(a[0]), segment_of(a[1])
                if l and r and l[0] in (A, B) and l[1] is None:
                    segs[l[0]] = (r, x)
        ok = set(segs) == {A, B}
        why = "expected one copy into each of the two index sets"
        if ok:
            (tn, tb, tl), _ = segs[A]
            (vn, vb, vl), _ = segs[B]
            (tb, tl), (vb, vl) = seg_eval(cv, N, tb, tl), seg_eval(cv, N, vb, vl)
            srcs = {Sn, Sn + ".vector()"} | ({ro["world"]} if ro.get("world") else set())
            checks = [(tn.replace(".vector()", "") in srcs and vn.replace(".vector()", "") in srcs, "segments are not cut from the shuffled input"),
                      (zero(tb), "training part does not start at 0"), (zero(tl - nA), "training segment length != |train|"),
                      (zero(vb - (tb + tl)), "validation part does not start where the training part ends"), (zero(vl - nB), "validation segment length != |valid|"),
                      (zero(vb + vl - N), "the two parts do not cover [0, n)")]
            for c_, msg in checks:
                if not c_:
                    ok, why = False, msg
                    break
        R.check(ok, "R-C12-2", inst + " tiling", f.loc(), "train = [0, t), valid = [t, n) of the same shuffled vector", "random split does not partition the input: " + why)
        # the shuffle happens inside the fold loop, before the copies
        sh = [c for c in f.calls(lambda x: callee(x) == "std::shuffle")]
        oks = len(sh) == 1 and any(y is sh[0] for y in walk(ro["loop"])) and [pp(a) for a in args(sh[0])[:2]] == ["begin(%s)" % Sn, "end(%s)" % Sn]
        R.check(oks, "R-C12-2", inst + " reshuffle", f.loc(), "the whole input is reshuffled for every fold", "the per-fold shuffle of the whole input is missing")
    except OutOfFragment as e:
        R.incomplete("R-C12-2", inst, f.loc(), str(e))
    # idiv is round-half-up integer division
    n = 0
    for g in F.functions.values():
        if g.qn == "nano::idiv":
            n += 1
            rets = [x for x in g.nodes() if x["k"] == "return"]
            a, b = g.params[0]["n"], g.params[1]["n"]
            try:
                e = kalg.Conv(g, inline=False).conv(rets[0]["c"][0])
                A_, B_ = sym(a), sym(b)
                ok = zero(e - sp.floor((A_ + sp.floor(B_ / 2)) / B_))      # integer arithmetic: both divisions truncate
            except (OutOfFragment, IndexError):
                ok = False
            R.check(ok, "R-C12-2", "idiv@" + g.key[:60], g.loc(), "idiv(a, b) = (a + b/2) / b (round half up for non-negative operands)", "idiv is no longer (a + b/2) / b")
    R.floor("R-C12-2/idiv", n, 1, "idiv instantiations")


def sorted_rule(F, R, f, names, sinks, inst):
    """facts: name sorted (std::sort over the whole container, not written afterwards); required at sinks"""
    cfg = f.cfg

    def telem(facts, e):
        if e.kind != "node":
            return
        n = e.node
        if n["k"] == "call" and callee(n) == "std::sort" and len(args(n)) == 2:
            a, b = pp(args(n)[0]), pp(args(n)[1])
            for nm in names:
                if a == "begin(%s)" % nm and b == "end(%s)" % nm:
                    facts.add(nm)
            return
        if n["k"] == "call" and callee(n) in ("std::shuffle", "std::generate"):
            for nm in names:
                if "begin(%s)" % nm in pp(n):
                    facts.discard(nm)
        a = assignment(n)
        if a:
            t = pp(a[0])
            for nm in names:
                if t == nm or t.startswith(nm + ".") or t.startswith(nm + "("):
                    facts.discard(nm)
    IN, before = must_dataflow(cfg, set(), telem)
    for s, needed in sinks:
        w = cfg.where_enclosing(s)
        facts = before(*w) if w else None
        if facts is None:
            R.incomplete("R-C12-3", inst, f.loc(s), "sink not found in the CFG")
            continue
        missing = [x for x in needed if x not in facts]
        R.check(not missing, "R-C12-3", inst, f.loc(s), "%s sorted after the last write" % ", ".join(needed), "%s can reach `%s` unsorted" % (", ".join(missing), pp(s)[:60]))


def returned_var(f):
    """the local variable every `return` of f hands back (None if the returns differ or return something else)"""
    rets = [x for x in f.nodes() if x["k"] == "return" and x.get("c")]
    ds = {ref_decl(r["c"][0]) for r in rets}
    if len(ds) != 1 or None in ds:
        return None, rets
    var, _ = find_var(f, ds.pop())
    return var, rets


def rule_sorted(F, R):
    n = 0
    for qn, file in (("nano::kfold_splitter_t::split", "src/splitter/kfold.cpp"), ("nano::random_splitter_t::split", "src/splitter/random.cpp")):
        f = F.one(qn, file)
        ro = splitter_roles(F, f)
        names = (ro["first"], ro["second"])
        sorted_rule(F, R, f, names, [(ro["emplace"], names)], qn.split("::")[1])
        n += 1
    for f in F.in_file("src/core/sampling.cpp"):
        if f.is_lambda or not f.name.startswith("sample_with") or not ("linear_congruential_engine" in (f.params[-1].get("t") or "")):
            continue
        var, rets = returned_var(f)
        inst = f.name + "/%d@" % len(f.params) + f.loc()
        if var is None:
            # some return does not hand back the one local selection: it must still be a sorted range
            R.check(False, "R-C12-3", inst, f.loc(), "", "not every return hands back the (sorted) selection: %s" % [pp(r)[:40] for r in rets])
            n += len(rets)
            continue
        sorted_rule(F, R, f, (var["n"],), [(r, (var["n"],)) for r in rets], inst)
        n += len(rets)
    R.floor("R-C12-3", n, 5, "publication points of index sets")


def rule_seed(F, R):
    n = 0
    for qn, file in (("nano::kfold_splitter_t::split", "src/splitter/kfold.cpp"), ("nano::random_splitter_t::split", "src/splitter/random.cpp")):
        f = F.one(qn, file)
        ro = splitter_roles(F, f)
        rngs = [c for c in f.calls(lambda x: callee(x) == "nano::make_rng")]
        inst = qn.split("::")[1]
        ok = len(rngs) == 1
        why = "expected exactly one make_rng"
        if ok:
            arg = skip(args(rngs[0])[0]) if args(rngs[0]) else None
            while arg is not None and arg["k"] in ("cast", "paren", "construct", "initlist", "temp", "bind") and len(arg.get("c", ())) == 1:
                arg = skip(arg["c"][0])
            a = [arg] if arg is not None and arg["k"] == "ref" and arg.get("dk") in ("var", "parm") else []
            ok = len(a) == 1
            why = "make_rng() is not seeded" if arg is None else \
                "make_rng is given `%s`, not the seed itself: for some seed values the engine is seeded with something else or not at all (an empty seed_t falls " \
                "back to std::random_device), so equal seeds no longer give equal splits" % pp(args(rngs[0])[0])[:80]
            if ok:
                var, _ = find_var(f, a[0]["d"])
                ok = var is not None and var.get("c") and parameter_name(var["c"][0]) == "splitter::seed"
                why = "the seed does not come from the `splitter::seed` parameter"
        R.check(ok, "R-C12-4", inst + " rng", f.loc(rngs[0]) if rngs else f.loc(), "the only random source is make_rng(parameter(splitter::seed))", why)
        n += 1
        for sh in f.calls(lambda x: callee(x) == "std::shuffle"):
            third = skip(args(sh)[2])
            oks = bool(rngs) and any(y is rngs[0] for y in walk(sh))
            if not oks and rngs:
                d = ref_decl(third)
                var, _ = find_var(f, d) if d is not None else (None, None)
                oks = var is not None and var.get("c") and any(y is rngs[0] for y in walk(var["c"][0]))
            R.check(bool(oks), "R-C12-4", inst + " shuffle", f.loc(sh), "shuffle draws from the seeded engine", "shuffle uses another random source")
        other = [c for c in f.calls(lambda x: callee(x) in ("std::rand", "std::random_device::operator()", "std::random_device::random_device"))]
        R.check(not other, "R-C12-4", inst + " no other randomness", f.loc(), "no unseeded random source", "unseeded random source used: %s" % [callee(c) for c in other])
    R.floor("R-C12-4", n, 2, "splitters")


def rule_samplers(F, R):
    fs = {f.key: f for f in F.in_file("src/core/sampling.cpp") if not f.is_lambda}
    n = 0
    for f in fs.values():
        if len(f.params) < 2 or not f.name.startswith("sample_with"):
            continue
        rng_param = f.params[-1]["n"] if "linear_congruential_engine" in (f.params[-1].get("t") or "") else None
        inst = "%s/%d@%s" % (f.name, len(f.params), f.loc())
        if rng_param is None:
            # convenience overload: forwards all its arguments in order plus a fresh engine
            rets = [x for x in f.nodes() if x["k"] == "return"]
            c = skip(rets[0]["c"][0]) if rets else None
            ok = c is not None and c["k"] == "call" and callee(c) == f.qn and [pp(a) for a in args(c)][:-1] == [p["n"] for p in f.params]
            R.check(bool(ok), "R-C12-5", inst, f.loc(), "forwards (%s) unchanged to the engine overload" % ", ".join(p["n"] for p in f.params), "arguments are not forwarded unchanged")
            n += 1
            continue
        samples = f.params[0]["n"]
        count = f.params[-2]["n"]
        var, rets = returned_var(f)
        if var is None:
            continue          # reported by R-C12-3
        sel = var["n"]
        if f.name == "sample_with_replacement":
            weighted = len(f.params) == 4
            gen = [c for c in f.calls(lambda x: callee(x) == "std::generate")]
            ok = len(gen) == 1 and var.get("c") and pp(var["c"][0]) == "tensor_t(%s)" % count and [pp(a) for a in args(gen[0])[:2]] == ["begin(%s)" % sel, "end(%s)" % sel]
            why = "the result is not `count` generated elements"
            if ok:
                lam = skip(args(gen[0])[2])
                g = F.by_lid.get(lam.get("lid"), [None])[0] if lam["k"] == "lambda" else None
                lrets = [x for x in g.nodes() if x["k"] == "return"] if g else []
                m = re.fullmatch(r"%s\((\w+)\(%s\)\)" % (re.escape(samples), re.escape(rng_param)), pp(lrets[0]["c"][0])) if len(lrets) == 1 else None
                ok = m is not None
                why = "a drawn element is not %s(dist(%s))" % (samples, rng_param)
                if ok:
                    dist = m.group(1)
                    dv = [v for v in f.nodes() if v["k"] == "var" and v["n"] == dist and v.get("c")]
                    if weighted:
                        w = f.params[1]["n"]
                        ok = len(dv) == 1 and pp(dv[0]["c"][0]) == "discrete_distribution(begin(%s), end(%s))" % (w, w)
                        why = "the distribution is not built from all the weights in order"
                    else:
                        ok = len(dv) == 1 and pp(dv[0]["c"][0]).startswith("make_udist") and [pp(a) for a in args(skip(dv[0]["c"][0]))] == ["0", "(%s.size() - 1)" % samples]
                        why = "positions are not uniform over [0, size-1]"
            R.check(bool(ok), "R-C12-5", inst, f.loc(), "count draws of samples(dist(rng)) over exactly the input positions", "sampling with replacement: " + why)
            n += 1
        elif f.name == "sample_without_replacement":
            cp = [v for v in f.nodes() if v["k"] == "var" and v.get("c") and "tensor_vector_storage_t" in (v.get("t") or "") and ref_decl(unwrap_view(v["c"][0])) == f.params[0]["d"]]
            sh = [c for c in f.calls(lambda x: callee(x) == "std::shuffle")]
            ok = len(cp) == 1 and len(sh) == 1 and bool(var.get("c"))
            why = "expected a private copy, one shuffle and one slice"
            if ok:
                c = cp[0]["n"]
                ok = [pp(a) for a in args(sh[0])] == ["begin(%s)" % c, "end(%s)" % c, rng_param] and pp(var["c"][0]) == "%s.slice(0, %s)" % (c, count)
                why = "the selection is not the first `count` elements of the shuffled private copy"
                if ok:
                    cfg = f.cfg
                    ws, wl = cfg.where_enclosing(sh[0]), cfg.where_enclosing(var)
                    ok = ws is not None and wl is not None and (ws[0] != wl[0] and cfg.dominates(ws, wl) or (ws[0] == wl[0] and ws[1] < wl[1]))
                    why = "the copy is shuffled after the selection has been taken"
            R.check(bool(ok), "R-C12-5", inst, f.loc(), "shuffle a private copy, take [0, count), sort", "sampling without replacement: " + why)
            n += 1
    R.floor("R-C12-5", n, 6, "sampler overloads")


def rule_gboost_sampler(F, R):
    f = F.one("nano::gboost::sampler_t::sample", "src/gboost/sampler.cpp")
    # the number of draws: the local handed to the samplers as `count`
    n = 0
    for x in f.nodes():
        a = assignment(x)
        if not a or a[2] != "=" or not pp(a[0]).startswith("m_weights("):
            continue
        n += 1
        lhs = skip(a[0])
        idx = lhs["c"][1] if lhs["k"] == "call" and len(lhs.get("c", ())) == 2 else None
        d = ref_decl(idx) if idx is not None else None
        inst = "weights@%s" % f.loc(x)
        if d is None:
            R.bad("R-C12-6", inst, f.loc(x), "weight position is not a plain loop index: %s" % pp(a[0]))
            continue
        iname = pp(idx)
        bad = []
        for y in walk(a[1]):
            if y["k"] == "ref" and y.get("d") == d:
                par = f.parent_of(y)
                while par is not None and par["k"] in ("cast", "construct", "defarg") and len(par.get("c", ())) == 1:
                    par = f.parent_of(par)
                if not (par is not None and par["k"] == "call" and par.get("op") == "()" and pp(par["c"][0]) == "m_samples"):
                    bad.append(pp(par)[:50] if par else "?")
        uses = [y for y in walk(a[1]) if y["k"] == "ref" and y.get("d") == d]
        R.check(bool(uses) and not bad, "R-C12-6", inst, f.loc(x), "the weight at position i is computed from sample m_samples(i)",
                "the weight at position i is computed from sample `i` rather than `m_samples(i)` (%s): weights and samples are misaligned for any subset of samples" % bad[:2])
        lp = [l for l in f.ancestors(x) if l["k"] == "for"]
        okl = False
        if lp:
            cond = pp(lp[0]["c"][lp[0]["r"].index("cond")])
            init = pp(lp[0]["c"][lp[0]["r"].index("init")])
            m = re.fullmatch(r"\(%s < (\w+)\)" % re.escape(iname), cond)
            okl = cond == "(%s < m_samples.size())" % iname or (m is not None and "%s = m_samples.size()" % m.group(1) in init)
            okl = okl and "%s = 0" % iname in init
        R.check(okl, "R-C12-6", inst + " coverage", f.loc(x), "weights are recomputed for every position", "the weight loop does not cover all positions: %s" % (pp(lp[0]["c"][lp[0]["r"].index("cond")]) if lp else "no loop"))
    R.floor("R-C12-6", n, 2, "weight assignments in the gboost sampler")
    counts = set()
    for c in f.calls(lambda x: callee(x).startswith("nano::sample_with")):
        a = [pp(z) for z in args(c)]
        counts.add(a[-2])
        ok = a[0] == "m_samples" and a[-1] == "m_rng" and ref_decl(args(c)[-2]) is not None and (len(a) == 3 or a[1] == "m_weights")
        R.check(ok, "R-C12-6", "call@%s" % f.loc(c), f.loc(c), "samples, (weights,) count and the seeded engine are passed together", "sampler call arguments changed: %s" % a)
    R.check(len(counts) == 1, "R-C12-6", "one count", f.loc(), "all sampling modes draw the same number of samples", "the sampling modes use different counts: %s" % sorted(counts))
    ctor = [g for g in F.in_file("src/gboost/sampler.cpp") if g.raw.get("ctor")]
    okr = False
    for g in ctor:
        sp_ = [p_["n"] for p_ in g.params if "unsigned long" in (p_.get("t") or "")]
        okr = okr or any(i.get("n") == "m_rng" and any(pp(i).replace(" ", "").find("make_rng(optional(%s))" % s_) >= 0 or "make_rng(%s)" % s_ in pp(i) for s_ in sp_) for i in g.inits)
    R.check(okr, "R-C12-6", "engine", ctor[0].loc() if ctor else f.loc(), "the engine is seeded from the constructor's seed", "m_rng is not make_rng(seed)")


def rule_ball(F, R):
    fs = [f for f in F.in_file("src/core/sampling.cpp") if f.name == "sample_from_ball" and len(f.params) == 4 and "tensor_marray" in (f.params[2].get("t") or "")]
    if len(fs) != 1:
        raise AnalysisBroken("sample_from_ball(x0, radius, x, rng) not found")
    f = fs[0]
    x0n, radn, xn, rngn = (p_["n"] for p_ in f.params)
    fin = [x for x in f.nodes() if assignment(x) and pp(assignment(x)[0]) == "%s.array()" % xn and assignment(x)[2] == "="]
    if len(fin) != 1:
        raise AnalysisBroken("sample_from_ball: the final assignment to the output array was not found")
    # the scale: the one local of the final expression that is drawn from a distribution
    zv = []
    for y in walk(assignment(fin[0])[1]):
        if y["k"] == "ref" and y.get("dk") == "var":
            v, _ = find_var(f, y["d"])
            if v is not None and v.get("c") and rngn in pp(v["c"][0]) and v not in zv:
                zv.append(v)
    if len(zv) != 1:
        raise AnalysisBroken("sample_from_ball: cannot identify the random scale in the final expression")
    k = 3
    it = Interp(F, f, n=k)
    X = [sym("x%d" % i) for i in range(k)]
    X0 = [sym("c%d" % i) for i in range(k)]
    rad, z = sym("radius", positive=True), sym("z", positive=True)
    it.env[f.params[0]["d"]] = list(X0)
    it.env[f.params[1]["d"]] = rad
    it.env[f.params[2]["d"]] = list(X)
    it.env[zv[0]["d"]] = z
    try:
        it.ev(fin[0])
        new = it.env[f.params[2]["d"]]
        dist2 = sum((a - b) ** 2 for a, b in zip(new, X0))
        ok, w = kalg.is_zero(sp.simplify(dist2 - (rad * z) ** 2), R.seed)
        if ok:
            R.ok("R-C12-7", "ball radius", f.loc(fin[0]), "|x - x0| = radius * z")
        else:
            import random
            rnd = random.Random(R.seed)
            ratio = sp.simplify(dist2 / (rad * z) ** 2)
            wit = None
            for _ in range(64):
                pt = {v: sp.Rational(rnd.randint(-40, 40), rnd.randint(1, 9)) for v in X}
                if all(x == 0 for x in pt.values()):
                    continue
                val = ratio.subs(pt).subs({rad: 1, z: 1})
                try:
                    if sp.N(val) > 1 + 1e-9:
                        wit = (pt, sp.N(val, 8))
                        break
                except TypeError:
                    pass
            if wit:
                R.bad("R-C12-7", "ball radius", f.loc(fin[0]), "for direction %s the result is at distance radius*z*%s from the centre: outside the ball for z close to 1" % (wit[0], sp.sqrt(wit[1])))
            else:
                R.incomplete("R-C12-7", "ball radius", f.loc(fin[0]), "|x - x0| is not radius*z and no direction leaving the ball was found: cannot decide (%s)" % ratio)
    except OutOfFragment as e:
        R.incomplete("R-C12-7", "ball radius", f.loc(fin[0]), str(e))
    init = skip(zv[0]["c"][0])
    okz = False
    detail = pp(init)
    if init["k"] == "call" and callee(init) in ("pow", "std::pow") and len(args(init)) == 2:
        base, expo = args(init)
        b0 = skip(base)
        dist = None
        if b0["k"] == "call" and b0.get("op") == "()" and pp(b0["c"][1]) == rngn:
            dv, _ = find_var(f, ref_decl(b0["c"][0])) if ref_decl(b0["c"][0]) is not None else (None, None)
            dist = pp(dv["c"][0]) if dv is not None and dv.get("c") else None
        e0 = pp(expo)
        m = re.fullmatch(r"\(1 / cast<double>\((\w+)\)\)", e0)
        nv, _ = (None, None)
        okn = False
        if m:
            for v in f.nodes():
                if v["k"] == "var" and v["n"] == m.group(1) and v.get("c") and pp(v["c"][0]) == "%s.size()" % x0n:
                    okn = True
        okz = dist == "uniform_real_distribution(0, 1)" and okn
    R.check(okz, "R-C12-7", "ball scale", f.loc(zv[0]), "z = U^(1/n) with U uniform in [0, 1): 0 <= z < 1", "the scale is no longer U(0,1)^(1/n): %s" % detail)
    for g in F.in_file("src/core/sampling.cpp"):
        if g.name == "sample_from_ball" and g is not f:
            c = [c for c in g.calls(lambda x: callee(x) == "nano::sample_from_ball")]
            ok = len(c) == 1 and [pp(a) for a in args(c[0])][:2] == [g.params[0]["n"], g.params[1]["n"]]
            R.check(ok, "R-C12-7", "ball wrapper@" + g.loc(), g.loc(), "forwards (x0, radius) unchanged", "wrapper changes the centre or radius")


def run(ctx):
    R = ctx.report
    F = ctx.facts(TUS)
    rule_kfold(F, R)
    rule_random(F, R)
    rule_sorted(F, R)
    rule_seed(F, R)
    rule_samplers(F, R)
    rule_gboost_sampler(F, R)
    rule_ball(F, R)
