"""C04 - LP/QP interior point: `converged` means feasible and optimal as stated (DESIGN 3, C04)."""
import re

import sympy as sp

from ..facts import AnalysisBroken, walk, strip_targs
from ..pp import pp, skip, canon_text as CT
from ..util import (args, assignment, callee, incdec, is_call, obj, strip_not, literal_value, find_var, parameter_name, writes_in,
                    root_of, unwrap_view)
from ..util import ref_decl_v as ref_decl
from .. import kalg

META = {
    "level": "other",
    "technique": "classification of every status assignment (who-may-write + guarding condition), pairing / post-dominance of the normalisation, scalarised KKT elimination (sympy), dominance of the strict-feasibility guard",
    "explanation": "Decides: the interior-point status is assigned `converged` at exactly two sites - in done() under "
                   "feasible && max(eta, |rdual|, |rprim|) < epsilon with epsilon passed unchanged from solver::epsilon at every call "
                   "site, and in the equality-only path under a finite residual and an accurate linear solve; the objective value "
                   "written to the state is multiplied back by the very factor the objective was normalised with, on every path; "
                   "normalize() divides both of its arguments by one denominator and is applied exactly to the pairs (Q,c), (A,b), "
                   "(G,h); [A|b] is reduced jointly and split back at the same column; the strict-feasibility test of x0 dominates the "
                   "main loop and its failing edge reports `unfeasible`; the residual definitions and the reduced Newton system "
                   "(including the recovery of du) are the Schur-complement elimination of the primal-dual KKT system in the 1x1 "
                   "instance; the initial multipliers are positive under the feasibility guard and the step bound never exceeds 1.",
    "not_decided": "numerical accuracy of the returned point (1e-6 / 1e-8 bounds); detection of infeasible / unbounded programs; invariance under restatement",
    "assumptions": ["1x1 instance of the matrix identities (necessary condition)"],
}

TUS = ["src/program/solver.cpp", "src/program/state.cpp", "src/program/util.cpp"]
FILE = "src/program/solver.cpp"


def rule_status(F, R):
    fs = F.in_file(FILE)
    n = 0
    for f in fs:
        for x in f.nodes():
            a = assignment(x)
            if not a:
                continue
            l = skip(a[0])
            if not (l["k"] == "mem" and l.get("fd") and l["n"] == "m_status" and "program" in strip_targs(l.get("cls", ""))):
                continue
            n += 1
            rhs = skip(a[1])
            vals = sorted({y["n"].split("::")[-1] for y in walk(rhs) if y["k"] == "ref" and y.get("dk") == "enum"})
            inst = "%s status@%s" % (f.name, f.loc(x))
            if "converged" not in vals:
                R.ok("R-C04-1", inst, f.loc(x), "assigns %s" % vals)
                continue
            if f.qn == "nano::program::solver_t::done":
                cond = None
                for anc in f.ancestors(x):
                    if anc["k"] == "if" and any(y is x for y in walk(anc["c"][anc["r"].index("then")])):
                        cond = anc["c"][anc["r"].index("cond")]
                        break
                ok = False
                detail = "unconditional"
                if cond is not None:
                    c = skip(cond)
                    detail = pp(c)
                    if c["k"] == "bin" and c["op"] == "&&":
                        feas, test = skip(c["c"][0]), skip(c["c"][1])
                        fd = ref_decl(feas)
                        var, _ = find_var(f, fd) if fd is not None else (None, None)
                        okf = var is not None and var.get("c") and pp(var["c"][0]) == "program.feasible(state)"
                        okt = False
                        if test["k"] == "bin" and test["op"] == "<":
                            lhs = pp(test["c"][0])
                            eps = f.param("epsilon")
                            okt = eps is not None and ref_decl(test["c"][1]) == eps["d"] and lhs.startswith("max") and \
                                all(s_ in lhs for s_ in ("state.m_eta", "state.m_rdual.lpNorm<2>()", "state.m_rprim.lpNorm<2>()"))
                        ok = bool(okf and okt)
                R.check(ok, "R-C04-1", inst, f.loc(x), "converged only under feasible && max(eta, |rdual|, |rprim|) < epsilon",
                        "converged is assigned under `%s`: the residual test is no longer max(eta, |rdual|, |rprim|) < epsilon (unscaled) together with feasibility" % detail)
            elif f.name == "solve_without_inequality":
                ok = rhs["k"] == "cond" and pp(rhs["c"][0]) == "(valid && aprox)" and pp(rhs["c"][1]).endswith("converged")
                vars_ = {v["n"]: pp(v["c"][0]) for v in f.nodes() if v["k"] == "var" and v.get("c")}
                ok = ok and vars_.get("valid") == "isfinite(state.residual())" and "isApprox(program.m_lvec.vector()" in vars_.get("aprox", "") and \
                    vars_.get("aprox", "").startswith("(program.m_lmat * program.m_lsol)")
                R.check(ok, "R-C04-1", inst, f.loc(x), "converged iff the residual is finite and the linear system is solved to tolerance",
                        "equality-only path reports converged under `%s`" % pp(rhs["c"][0] if rhs["k"] == "cond" else rhs))
            else:
                R.bad("R-C04-1", inst, f.loc(x), "converged is assigned outside done() / the exact-solve path, in " + f.qn)
    R.floor("R-C04-1", n, 5, "status assignments")
    # every call of done passes the solver's epsilon unchanged
    swi = [f for f in fs if f.name == "solve_with_inequality"]
    for f in swi:
        eps = {v["d"] for v in f.nodes() if v["k"] == "var" and v.get("c") and parameter_name(v["c"][0]) == "solver::epsilon"}
        dn = [c for c in f.calls(lambda x: callee(x) == "nano::program::solver_t::done")]
        R.floor("R-C04-1/done-calls", len(dn), 4, "done() call sites")
        for c in dn:
            a = args(c)
            R.check(len(a) >= 3 and ref_decl(a[2]) in eps and pp(a[1]) == "state", "R-C04-1", "done call@%s" % f.loc(c), f.loc(c),
                    "done() receives the state and solver::epsilon unchanged", "done() called with %s" % [pp(x) for x in a[1:3]])
    # the initial status of a fresh state is max_iters
    cls = F.cls("nano::program::solver_state_t")
    ctors = [g for g in F.functions.values() if g.cls == "nano::program::solver_state_t" and g.raw.get("ctor") == "other"]
    for g in ctors:
        for i in g.inits:
            if i.get("n") == "m_status":
                init = i["c"][0] if i.get("c") else None
                txt = pp(init) if init is not None else ""
                R.check("max_iters" in txt, "R-C04-1", "initial status %s" % g.key[:50], g.loc(), "a fresh interior-point state reports max_iters", "fresh state reports " + txt)


def rule_objective_scale(F, R):
    fs = F.in_file(FILE)
    up = [f for f in fs if f.name == "update" and f.cls and f.cls.endswith("program_t")]
    if not up:
        raise AnalysisBroken("program_t::update not found")
    seen = set()
    for f in up:
        if f.line in seen:
            continue
        seen.add(f.line)
        cfg = f.cfg
        writes = [x for x in f.nodes() if assignment(x) and pp(assignment(x)[0]) == "state.m_fx" and assignment(x)[2] == "="]
        scale = [x for x in f.nodes() if assignment(x) and pp(assignment(x)[0]) == "state.m_fx" and assignment(x)[2] == "*=" and pp(assignment(x)[1]) == "m_mufx"]
        ok = len(scale) == 1 and len(writes) >= 1 and all(cfg.postdominates(cfg.where_enclosing(scale[0]), cfg.where_enclosing(w)) for w in writes)
        R.check(ok, "R-C04-2", "objective rescaled", f.loc(), "every assignment of state.m_fx is followed on all paths by state.m_fx *= m_mufx",
                "the reported objective is not multiplied back by the normalisation factor on every path")
        # the objective itself: c.x  or  0.5 x'Qx + c.x (scalarised)
        for w in writes:
            z, det = kalg.compare_expr(f, assignment(w)[1], "x*m_c" if "Q()" not in pp(w) else "x*Q*x/2 + x*m_c", atoms={"Q()": "Q"}, scalar=True, seed=R.seed)
            R.check(bool(z), "R-C04-2", "objective formula@%s" % f.loc(w), f.loc(w), "objective = c.x (+ x'Qx/2)", "objective expression changed: " + det)
    ctor = [g for g in fs if g.cls and g.cls.endswith("program_t") and g.raw.get("ctor") == "other" and len(g.params) == 6]
    if not ctor:
        raise AnalysisBroken("program_t(Q, c, A, b, G, h) constructor not found")
    g = ctor[0]
    inits = {i.get("n"): pp(i["c"][0]) for i in g.inits if i.get("c")}
    R.check((inits.get("m_mufx") or "").startswith("normalize(m_Q, m_c"), "R-C04-2", "scale factor source", g.loc(), "m_mufx is the value returned by normalize(m_Q, m_c)",
            "m_mufx initialised from %s" % inits.get("m_mufx"))
    # R-C04-3 normalisation pairs
    pairs = sorted(tuple(pp(x) for x in args(c)[:2]) for c in g.calls(lambda x: callee(x).endswith("::normalize")))
    for i in g.inits:
        for c in walk(i):
            if c["k"] == "call" and callee(c).endswith("::normalize"):
                pairs.append(tuple(pp(x) for x in args(c)[:2]))
    pairs = sorted(set(pairs))
    R.check(pairs == [("m_A", "m_b"), ("m_G", "m_h"), ("m_Q", "m_c")], "R-C04-3", "normalised pairs", g.loc(), "normalize is applied to (Q,c), (A,b), (G,h)",
            "normalize is applied to %s" % pairs)
    # order: reducer before normalising (A, b); m_reducer initialised from (m_A, m_b)
    R.check(inits.get("m_reducer") == "reducer_t(m_A, m_b)" or inits.get("m_reducer") == "{m_A, m_b}" or "m_A, m_b" in (inits.get("m_reducer") or ""), "R-C04-4", "reducer pair", g.loc(),
            "the reducer receives (A, b) together", "reducer initialised from %s" % inits.get("m_reducer"))
    nz = [f for f in fs if f.name == "normalize" and not f.cls]
    for f in nz[:1]:
        divs = [x for x in f.nodes() if assignment(x) and assignment(x)[2] == "/="]
        targets = sorted(kalg.designator(assignment(x)[0]) for x in divs)
        dens = {pp(assignment(x)[1]) for x in divs}
        p = [q["n"] for q in f.params[:2]]
        vars_ = {v["n"]: pp(v["c"][0]) for v in f.nodes() if v["k"] == "var" and v.get("c")}
        okn = targets == sorted(p) and len(dens) == 1 and next(iter(dens)) in vars_ and \
            vars_[next(iter(dens))].replace("<double>", "") in ("max({min_norm, %s.lpNorm<2>(), %s.lpNorm<2>()})" % (p[0], p[1]),)
        rets = [x for x in f.nodes() if x["k"] == "return"]
        okn = okn and len(rets) == 1 and pp(rets[0]["c"][0]) in dens
        R.check(okn, "R-C04-3", "normalize", f.loc(), "both arguments are divided by one denominator max(min_norm, |A|, |b|), which is returned",
                "normalize divides %s by %s (denominator %s)" % (targets, sorted(dens), vars_))


def rule_reduce(F, R):
    f = F.one("nano::program::reduce", "src/program/util.cpp")
    vars_ = {v["n"]: pp(v["c"][0]) for v in f.nodes() if v["k"] == "var" and v.get("c")}
    asg = {kalg.designator(assignment(x)[0]): pp(assignment(x)[1]) for x in f.nodes() if assignment(x)}
    p = [q["n"] for q in f.params]
    ok = "stack" in vars_.get("Ab", "") and "%s.cols() + 1" % p[0] in vars_.get("Ab", "") and "%s.matrix(), %s.vector()" % (p[0], p[1]) in vars_.get("Ab", "")
    ok = ok and any(is_call(c, name="reduce") and pp(args(c)[0]) == "Ab" for c in f.calls())
    ok = ok and asg.get(p[0], "").replace("tensor_t(", "").startswith("Ab.block(0, 0, Ab.rows(), (Ab.cols() - 1))") and "col((Ab.cols() - 1))" in asg.get(p[1], "")
    R.check(ok, "R-C04-4", "joint reduction", f.loc(), "[A|b] is stacked, reduced as one matrix and split back at column cols-1",
            "reduce no longer treats [A|b] jointly: %s / %s" % (vars_.get("Ab"), asg))


def rule_guard(F, R):
    f = [g for g in F.in_file(FILE) if g.name == "solve_with_inequality"][0]
    cfg = f.cfg
    loops = [x for x in f.nodes() if x["k"] == "for" and "m_iters" in pp(x["c"][0])]
    guard = None
    for b in cfg.blocks.values():
        if b.cond is not None and pp(b.cond) in (CT("(mGxh >= 0)"), CT("(mGxh >= 0.0)")):
            guard = b
    ok = guard is not None and len(loops) == 1
    if ok:
        v = [x for x in f.nodes() if x["k"] == "var" and x["n"] == "mGxh"]
        ok = bool(v) and pp(v[0]["c"][0]) == "((G * x0) - h).maxCoeff()"
        lw = cfg.where_enclosing(loops[0]["c"][0])
        ok = ok and lw is not None and guard.succ[1] in cfg.dom[lw[0]] and guard.succ[0] not in cfg.dom[lw[0]]
        fb = cfg.blocks[guard.succ[0]]
        txt = " ".join(pp(e.node) for e in fb.elems if e.kind == "node" and e.node["k"] in ("bin", "return", "call"))
        ok = ok and "state.m_status = nano::solver_status::unfeasible" in txt and "return" in txt
    R.check(ok, "R-C04-5", "strict feasibility guard", f.loc(), "max(G x0 - h) >= 0 reports `unfeasible` and returns before the main loop",
            "the main loop can start from a point that is not strictly feasible")
    # R-C04-7 signs
    init_u = [x for x in f.nodes() if assignment(x) and pp(assignment(x)[0]) == "state.m_u" and assignment(x)[2] == "="]
    oku = len(init_u) == 1 and pp(assignment(init_u[0])[1]).replace(" ", "") in ("(-1/((G*x0)-h).array())", "((-1)/((G*x0)-h).array())", "(-1.0/((G*x0)-h).array())")
    if oku and guard is not None:
        w = cfg.where_enclosing(init_u[0])
        oku = guard.succ[1] in cfg.dom[w[0]]
    R.check(oku, "R-C04-7", "initial multipliers", f.loc(), "u0 = -1/(G x0 - h) > 0 under the strict-feasibility guard", "initial inequality multipliers are not -1/(G x0 - h) under the guard")
    sm = [g for g in F.in_file(FILE) if g.name == "make_smax"]
    for g in sm[:1]:
        rets = [x for x in g.nodes() if x["k"] == "return"]
        oks = len(rets) == 1 and pp(rets[0]["c"][0]).replace("<double>", "") in ("min(smax, 1)", "min(smax, 1.0)")
        upd = [x for x in g.nodes() if assignment(x) and pp(assignment(x)[0]) == "smax"]
        oks = oks and len(upd) == 1 and "min" in pp(assignment(upd[0])[1]) and "((-u(i)) / du(i))" in pp(assignment(upd[0])[1])
        guard_neg = any(x["k"] == "if" and pp(x["c"][x["r"].index("cond")]) in ("(du(i) < 0)", "(du(i) < 0.0)") for x in g.nodes())
        R.check(oks and guard_neg, "R-C04-7", "step bound", g.loc(), "smax = min(1, min_{du<0} -u/du)", "the step bound keeping u positive changed")


def rule_kkt(F, R):
    fs = F.in_file(FILE)
    swi = [g for g in fs if g.name == "solve_with_inequality"][0]
    solve = [g for g in fs if g.name == "solve" and g.cls and g.cls.endswith("program_t")]
    update = [g for g in fs if g.name == "update" and g.cls and g.cls.endswith("program_t")]
    if not solve or not update:
        raise AnalysisBroken("program_t::solve / update not found")
    Q, G, A, h, b, c_, x, u, v, miu = (kalg.sym(n) for n in ("Q", "G", "A", "h", "b", "c", "x", "u", "v", "miu"))
    # residuals from update() (QP branch), scalarised with m = p = 1
    up = update[0]
    ex = kalg.SymExec(up, scalar=True, atoms={"Q()": Q, "m_c": c_, "m_c.vector()": c_, "m_G": G, "m_h": h, "m_A": A, "m_b": b, "sm": sp.Integer(1), "m_mufx": sp.Integer(1)})
    # execute the else-branch of the objective and the three conditional blocks
    stmts = []
    for s in up.body.get("c", ()):
        if s["k"] == "if":
            cond = pp(s["c"][s["r"].index("cond")])
            if "m_Q.size()" in cond:
                # the quadratic branch is the one that mentions Q(), whichever way the test is written
                th, el = s["c"][s["r"].index("then")], s["c"][s["r"].index("else")]
                stmts.append(th if "Q()" in pp(th) else el)
            else:
                stmts.append(s["c"][s["r"].index("then")])
        elif s["k"] == "declstmt":
            continue
        else:
            stmts.append(s)
    try:
        ex.run(stmts)
    except kalg.OutOfFragment as e:
        R.incomplete("R-C04-6", "residual definitions", up.loc(), str(e))
        return
    rd, rp, rc, eta = (ex.state.get(k) for k in ("state.m_rdual", "state.m_rprim", "state.m_rcent", "state.m_eta"))
    f_ = G * x - h
    want = {"rdual": Q * x + c_ + A * v + G * u, "rprim": A * x - b, "eta": -u * f_, "rcent": -(-u * f_) / miu - u * f_}
    got = {"rdual": rd, "rprim": rp, "eta": eta, "rcent": rc}
    for k in want:
        if got[k] is None:
            R.bad("R-C04-6", "residual " + k, up.loc(), "residual is not assigned")
            continue
        z, wit = kalg.is_zero(sp.simplify(got[k].subs({kalg.sym("m"): 1, kalg.sym("p"): 1}) - want[k]), R.seed)
        R.check(bool(z), "R-C04-6", "residual " + k, up.loc(), "%s = %s (1x1 instance)" % (k, want[k]), "%s is %s, expected %s %s" % (k, got[k], want[k], wit))
    # reduced system: arguments of program.solve(...) and the recovery of du
    calls = [c for c in swi.calls(lambda q: callee(q).endswith("program_t::solve"))]
    if len(calls) != 1:
        R.incomplete("R-C04-6", "reduced system", swi.loc(), "expected one call of program.solve")
        return
    RD, RC, RP, U, F_ = (kalg.sym(n) for n in ("rdual", "rcent", "rprim", "u", "f"))
    atoms = {"state.m_u": U, "state.m_rcent": RC, "state.m_rdual": RD, "state.m_rprim": RP, "Gxh": F_, "G": G}
    try:
        cv = kalg.Conv(swi, scalar=True, atoms=atoms, inline=False)
        hess, rdual_arg, rprim_arg = (cv.conv(a) for a in args(calls[0])[:3])
        dus = [s for s in swi.nodes() if assignment(s) and pp(assignment(s)[0]) == "du" and assignment(s)[2] == "="]
        DX = kalg.sym("dx")
        du_expr = kalg.Conv(swi, scalar=True, atoms=dict(atoms, dx=DX), inline=False).conv(assignment(dus[0])[1])
    except (kalg.OutOfFragment, IndexError) as e:
        R.incomplete("R-C04-6", "reduced system", swi.loc(), str(e))
        return
    # program_t::solve: K = Q - hessvar, rhs = (-rdual, -rprim)
    sv = solve[0]
    txt = {kalg.designator(assignment(s)[0]): pp(assignment(s)[1]) for s in sv.nodes() if assignment(s)}
    allv = {pp(assignment(s_)[1]) for s_ in sv.nodes() if assignment(s_)}
    oksys = "(Q() - hessvar)" in allv and "(-rdual)" in allv and "(-rprim)" in allv
    R.check(oksys, "R-C04-6", "linear system assembly", sv.loc(), "K = Q - H, right-hand side (-rdual', -rprim)", "program_t::solve assembles %s" % txt)
    dx, dv, du = sp.symbols("dx dv du", real=True)
    sol = sp.solve([(Q - hess) * dx + A * dv + rdual_arg, A * dx + rprim_arg], [dx, dv], dict=True)
    if not sol:
        R.incomplete("R-C04-6", "reduced system", swi.loc(), "cannot solve the 1x1 reduced system symbolically")
        return
    dxs, dvs = sol[0][dx], sol[0][dv]
    dus_ = du_expr.subs(DX, dxs)
    full = [Q * dxs + G * dus_ + A * dvs + RD, -U * G * dxs - F_ * dus_ + RC, A * dxs + RP]
    okk = all(kalg.is_zero(sp.simplify(e), R.seed)[0] for e in full)
    R.check(bool(okk), "R-C04-6", "Schur complement", swi.loc(calls[0]),
            "(dx, du, dv) from the reduced system solve the full primal-dual Newton system (1x1 instance)",
            "the reduced system / recovery of du is not the elimination of the KKT system: residuals %s" % [sp.simplify(e) for e in full])


def rule_rows_before_reduction(F, R):
    """R-C04-8: equality rows are removed by the joint decomposition of [A|b] only. Anything that rewrites the caller's A or b before they are
    stacked has to select rows on A *and* b: a selection that compares rows of A alone discards `a.x = b2` next to `a.x = b1`, and an infeasible
    program is then solved as a feasible one (and reported converged)."""
    f = F.one("nano::program::reduce", "src/program/util.cpp")
    pA, pb = f.params[0], f.params[1]
    stacks = [v for v in f.nodes() if v["k"] == "var" and v.get("c") and "stack" in pp(v["c"][0])]
    if len(stacks) != 1:
        return      # R-C04-4 reports the missing joint reduction
    line = stacks[0]["l"]
    early = []
    for tgt, kind, site in writes_in(f, f.body):
        if site["l"] >= line or any(x is site for x in walk(stacks[0])):
            continue
        d_ = ref_decl(tgt)
        if d_ in (pA["d"], pb["d"]):
            early.append((d_, kind, site))
    if not early:
        R.ok("R-C04-8", "rows before the reduction", f.loc(), "the caller's A and b reach the joint [A|b] decomposition unmodified")
        return
    done = set()
    for d_, kind, site in early:
        if site["i"] in done:
            continue
        done.add(site["i"])
        inst = "pre-pass@%s" % f.loc(site)
        g = None
        bound = {}
        if kind == "byref-arg" and site["k"] == "call":
            cands = [h for h in F.functions.values() if h.qn == callee(site) and h.body is not None and len(h.params) == len(args(site))]
            if cands:
                g = cands[0]
                for j, a_ in enumerate(args(site)):
                    if ref_decl(a_) == pA["d"]:
                        bound["A"] = g.params[j]["d"]
                    if ref_decl(a_) == pb["d"]:
                        bound["b"] = g.params[j]["d"]
        if g is None or "A" not in bound:
            R.incomplete("R-C04-8", inst, f.loc(site), "`%s` rewrites the equality constraints before the joint reduction; cannot tell how rows are selected" % pp(site)[:70])
            continue
        bodies = [g] + [l for _, l in F.lambdas_in(g)]
        cmpA, cmpb = [], []
        for h in bodies:
            for x in h.nodes():
                iscmp = (x["k"] == "bin" and x["op"] in ("==", "!=", "<", "<=")) or (x["k"] == "call" and (x.get("op") in ("==", "!=", "<", "<=") or
                                                                                                            callee(x).split("::")[-1] in ("isApprox", "close", "isMuchSmallerThan", "isZero")))
                if not iscmp:
                    continue
                refs = {y.get("d") for y in walk(x) if y["k"] == "ref"} | {cp.get("d") for y in walk(x) if y["k"] == "ref" for cp in ()}
                # operands that are rows / entries (not merely the row counts used for sizing)
                txt = pp(x)
                if bound["A"] in refs and not re.fullmatch(r"\(?[\w.() ]*\.(rows|cols|size)\(\)[\w.() <=!]*\)?", txt):
                    if any(y["k"] == "call" and callee(y).split("::")[-1].split("<")[0] in ("row", "col", "operator()", "vector", "matrix", "block", "array") and bound["A"] in {z.get("d") for z in walk(y) if z["k"] == "ref"}
                           for y in walk(x)):
                        cmpA.append(x)
                if bound.get("b") in refs and any(y["k"] == "call" and callee(y).split("::")[-1].split("<")[0] in ("operator()", "vector", "array", "segment", "row") and bound.get("b") in {z.get("d") for z in walk(y) if z["k"] == "ref"}
                                                  for y in walk(x)):
                    cmpb.append(x)
        if cmpA and not cmpb:
            R.bad("R-C04-8", inst, f.loc(site), "`%s` rewrites A and b before the joint reduction and selects rows by `%s` - the right-hand side is never compared: of two rows with the same "
                  "coefficients and different right-hand sides one is dropped, the infeasible program is solved as if it were feasible and can be reported converged while the "
                  "caller's equality is violated" % (pp(site)[:60], pp(cmpA[0])[:80]))
        else:
            R.incomplete("R-C04-8", inst, f.loc(site), "`%s` rewrites the equality constraints before the joint reduction; the row selection (%d comparisons of A, %d of b) is not "
                         "interpretable" % (pp(site)[:60], len(cmpA), len(cmpb)))


def rule_stated_rows(F, R):
    """R-C04-9: program::stack(A, b, G, h, constraints...) makes the stored system exactly the stated one: before the rows are filled, each of the
    four buffers is resized *unconditionally* to the counts make_size() computed for this statement (A: eqs x dims, b: eqs, G: ineqs x dims,
    h: ineqs). A resize that happens only when the buffer is too small leaves the rows of an earlier, larger statement in force."""
    fs = [f for f in F.functions.values() if f.qn == "nano::program::stack" and f.relfile == "include/nano/program/stack.h" and f.body is not None and len(f.params) >= 4]
    seen = set()
    n = 0
    for f in sorted(fs, key=lambda f: f.key):
        ms = [c for c in f.calls(lambda c: callee(c) == "nano::program::detail::make_size")]
        fill = [c for c in f.calls(lambda c: callee(c) == "nano::program::detail::stack")]
        if len(ms) != 1 or len(fill) != 1:
            R.incomplete("R-C04-9", "stack@%s" % f.key[-40:], f.loc(), "expected one make_size and one detail::stack call")
            continue
        eqs, dims, ineqs = (ref_decl(a_) for a_ in args(ms[0])[:3])
        want = {0: [eqs, dims], 1: [eqs], 2: [ineqs, dims], 3: [ineqs]}
        bad = []
        for k in range(4):
            pd = f.params[k]["d"]

            def uncond(g, c):
                return not any(a_["k"] in ("if", "for", "while", "do", "cond", "switch") for a_ in g.ancestors(c))
            rs = [c for c in f.calls(lambda c: callee(c).split("::")[-1] == "resize" and c.get("ck") == "mem" and ref_decl(obj(c)) == pd)]
            good = [c for c in rs if uncond(f, c) and c["l"] <= fill[0]["l"] and [ref_decl(a_) for a_ in args(c)] == want[k]]
            if good:
                continue
            # delegated?
            why = "no unconditional %s.resize(%s) before the rows are filled" % (f.params[k]["n"], ", ".join("eqs" if w == eqs else "ineqs" if w == ineqs else "dims" for w in want[k]))
            for c in f.calls():
                if c is fill[0] or c is ms[0] or c["l"] > fill[0]["l"]:
                    continue
                for j, a_ in enumerate(args(c)):
                    if ref_decl(a_) == pd and c.get("pk", "")[j:j + 1] in ("r", "p"):
                        gs = [g for g in F.functions.values() if g.qn == callee(c) and g.body is not None and len(g.params) == len(args(c))]
                        for g in gs[:1]:
                            inner = [q for q in g.calls(lambda q: callee(q).split("::")[-1] == "resize" and q.get("ck") == "mem" and ref_decl(obj(q)) == g.params[j]["d"])]
                            conds = [pp(a2["c"][a2["r"].index("cond")])[:70] for q in inner for a2 in g.ancestors(q) if a2["k"] == "if"]
                            if inner and conds:
                                why = "`%s` resizes %s only under `%s`: a program re-stated in place with fewer constraints keeps the trailing rows of the previous statement " \
                                      "as live constraints (the solver then solves a different program and can report it converged)" % (pp(c)[:50], f.params[k]["n"], conds[0])
            bad.append(why)
        sig = (f.line, tuple(bad))
        n += 1
        if sig in seen and not bad:
            continue
        seen.add(sig)
        R.check(not bad, "R-C04-9", "stack@%s" % f.key[-48:], f.loc(), "A, b, G, h are resized unconditionally to the stated counts before the rows are filled", "; ".join(bad[:2]))
    R.floor("R-C04-9", n, 2, "program::stack instantiations")


def rule_rank_threshold(F, R):
    """R-C04-10: which equality rows are dependent is decided by the rank-revealing decomposition with its own, machine-precision threshold.
    Loosening it (`setThreshold(1e-8)` and the like) declares an independent row dependent as soon as its scale is that much below the largest
    entry of [A|b] - a legitimately restated (rescaled) constraint is then dropped and the relaxed program is solved and reported converged."""
    fs = [f for f in F.in_file("src/program/util.cpp") if f.name == "reduce" and f.body is not None]
    n = 0
    for f in fs:
        lus = [c for c in f.calls(lambda c: callee(c).split("::")[-1] in ("fullPivLu", "colPivHouseholderQr", "fullPivHouseholderQr", "completeOrthogonalDecomposition"))]
        for c in lus:
            n += 1
        for c in f.calls(lambda c: callee(c).split("::")[-1] == "setThreshold"):
            a = args(c)
            ok = bool(a) and pp(a[0]).endswith("Default")
            R.check(ok, "R-C04-10", "reduce setThreshold@%d" % c["l"], f.loc(c), "the decomposition keeps its default threshold",
                    "`%s` replaces the machine-precision rank threshold of the decomposition: an independent equality row whose scale is below that fraction of the "
                    "largest entry of [A|b] is judged dependent and removed - the solver then solves (and reports converged for) a relaxation of the stated program" % pp(c)[:60])
    R.floor("R-C04-10", n, 1, "rank-revealing decompositions in the equality reduction")
    if n:
        R.ok("R-C04-10", "rank decision", "src/program/util.cpp:1", "%d rank-revealing decomposition(s), default threshold" % n)


def rule_rows_kept(F, R):
    """R-C04-11: the equality reduction replaces [A|b] by a matrix with exactly rank([A|b]) rows. Shape inference on the right-hand side of the
    assignment to the reduced matrix in the file-local `reduce(matrix_t&)`: a product has the rows of its first factor, `X.block(i, j, p, q)`
    / `topRows(p)` has p rows, `transpose()` exchanges rows and columns; the row count, followed through const locals, must be `rank()` of the
    rank-revealing decomposition of the matrix (or of its transpose - same rank), and the early "nothing to reduce" return is taken exactly
    when that rank equals the number of rows. Keeping `dimensionOfKernel()` rows (the number of dependent ones) drops genuine equalities whenever
    fewer rows are redundant than independent."""
    fs = [f for f in F.in_file("src/program/util.cpp") if f.name == "reduce" and f.body is not None and len(f.params) == 1]
    if not fs:
        R.incomplete("R-C04-11", "rows kept", "src/program/util.cpp:1", "the one-matrix reduce() was not found")
        return
    f = fs[0]
    pA = f.params[0]
    decomp = {}
    for v in f.nodes():
        if v["k"] == "var" and v.get("c"):
            for c in walk(v["c"][0]):
                if c["k"] == "call" and callee(c).split("::")[-1] in ("fullPivLu", "colPivHouseholderQr", "fullPivHouseholderQr", "completeOrthogonalDecomposition"):
                    o = skip(obj(c))
                    base = o
                    while base is not None and base["k"] == "call" and callee(base).split("::")[-1] in ("transpose", "matrix", "eval") and base.get("c"):
                        base = skip(obj(base))
                    if base is not None and ref_decl(base) == pA["d"]:
                        decomp[v["d"]] = v["n"]
    if not decomp:
        R.incomplete("R-C04-11", "rows kept", f.loc(), "no rank-revealing decomposition of the matrix to reduce was found")
        return

    def peel(n):
        n = skip(n)
        while n is not None and n["k"] in ("cast", "paren", "construct") and len(n.get("c", ())) == 1:
            n = skip(n["c"][0])
        return n

    def through(n, depth=0):
        n = peel(n)
        if n is not None and n["k"] == "ref" and n.get("dk") == "var" and depth < 5 and n["d"] not in decomp:
            v_, _ = find_var(f, n["d"])
            if v_ is not None and v_.get("c"):
                return through(v_["c"][0], depth + 1)
        return n

    def is_rank(n):
        n = through(n)
        return n is not None and n["k"] == "call" and callee(n).split("::")[-1] == "rank" and ref_decl(obj(n)) in decomp

    def rows_of(n, transposed=False, depth=0):
        """the expression giving the number of rows (columns if transposed) of a matrix expression, or None"""
        n = through(n)
        if n is None or depth > 12:
            return None
        if (n["k"] == "bin" and n["op"] == "*") or (n["k"] == "call" and n.get("ck") == "op" and n.get("op") == "*" and len(n.get("c", ())) == 2):
            return rows_of(n["c"][1] if transposed else n["c"][0], transposed, depth + 1)
        if n["k"] == "call" and n.get("ck") == "mem":
            nm = callee(n).split("::")[-1]
            a = args(n)
            if nm == "transpose":
                return rows_of(obj(n), not transposed, depth + 1)
            if nm == "block" and len(a) == 4:
                return a[3] if transposed else a[2]
            if nm in ("topRows", "bottomRows") and len(a) == 1:
                return rows_of(obj(n), True, depth + 1) if transposed else a[0]
            if nm in ("leftCols", "rightCols") and len(a) == 1:
                return a[0] if transposed else rows_of(obj(n), False, depth + 1)
            if nm in ("matrix", "eval", "toDenseMatrix", "triangularView", "noalias"):
                return rows_of(obj(n), transposed, depth + 1)
        return None

    asg = [x for x in f.nodes() if assignment(x) and assignment(x)[2] == "=" and ref_decl(peel(assignment(x)[0])) == pA["d"]]
    if len(asg) != 1:
        R.incomplete("R-C04-11", "rows kept", f.loc(), "expected one assignment of the reduced matrix")
        return
    rows = rows_of(assignment(asg[0])[1])
    if rows is None:
        R.incomplete("R-C04-11", "rows kept", f.loc(asg[0]), "cannot infer the number of rows of `%s`" % pp(assignment(asg[0])[1])[:80])
    else:
        R.check(is_rank(rows), "R-C04-11", "rows kept", f.loc(asg[0]), "the reduced [A|b] keeps rank() rows of the decomposition of [A|b]",
                "the reduced [A|b] has `%s` rows, not the rank of [A|b]: whenever that differs from the rank, independent equality rows are dropped (or dependent ones kept) - "
                "the solver then solves, and reports converged for, a different program than the one stated" % pp(through(rows))[:60])
    # the early return: taken exactly when rank == rows
    ifs = [x for x in f.nodes() if x["k"] == "if" and any(y["k"] == "return" for y in walk(x["c"][x["r"].index("then")]))]
    oke = False
    for x in ifs:
        c = peel(x["c"][x["r"].index("cond")])
        if c is not None and c["k"] == "bin" and c["op"] == "==":
            l, r = c["c"]
            for a_, b_ in ((l, r), (r, l)):
                b2 = through(b_)
                if is_rank(a_) and b2 is not None and b2["k"] == "call" and callee(b2).split("::")[-1] == "rows" and ref_decl(peel(obj(b2))) == pA["d"]:
                    oke = True
    R.check(oke, "R-C04-11", "nothing to reduce", f.loc(), "the reduction is skipped exactly when rank == rows", "the early return of the reduction is not `rank() == rows()`")


def run(ctx):
    R = ctx.report
    F = ctx.facts(TUS)
    rule_status(F, R)
    rule_objective_scale(F, R)
    rule_reduce(F, R)
    rule_rows_before_reduction(F, R)
    rule_rank_threshold(F, R)
    rule_rows_kept(F, R)
    rule_stated_rows(ctx.facts(TUS + ["src/program/benchmark.cpp"]), R)
    rule_guard(F, R)
    rule_kkt(F, R)
