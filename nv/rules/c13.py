"""C13 - tuning evaluates grid points once and reports the true best trial (DESIGN 3, C13)."""
from ..facts import AnalysisBroken, walk, strip_targs
from ..pp import pp, skip
from ..util import args, assignment, callee, is_call, literal_value, ref_decl, find_var, obj, parameter_name, strip_not, writes_in
from .. import kalg

META = {
    "level": "other",
    "technique": "who-may-call, dominance / post-dominance on CFGs, budget-bound derivation rule (no wrapping arithmetic), index algebra",
    "explanation": "Decides: the user's evaluation callback is invoked only in nano::evaluate, only on map_to_grid(spaces, igrids) after the "
                   "already-evaluated filter (remove_if + erase) ran on that very list; the finite-value check dominates every push of a "
                   "step, the pushed (grid point, parameters, value) share one index, and the sort post-dominates the pushes; the "
                   "neighbourhood is clipped to the grid before use; every loop that evaluates is bounded by steps.size() < B with B "
                   "derived from tuner::max_evals only through operations that cannot exceed it (identity, division by a constant >= 1, "
                   "min) - unsigned subtraction is rejected; ml::tune decodes (trial, fold) as (index / folds, index % folds) over "
                   "folds * new_trials tasks, uses splits[fold], stores under old_trials + trial, grows the result before the parallel "
                   "section and only calls slot-disjoint store() inside it; the optimum trial is the arg-min of the mean "
                   "validation error.",
    "not_decided": "the numeric value of the 3^d overshoot; landscape-dependent behaviour of the tuners",
    "assumptions": [],
}

TUS = ["src/tuner.cpp", "src/tuner/util.cpp", "src/tuner/local.cpp", "src/tuner/surrogate.cpp", "src/machine/tune.cpp", "src/machine/result.cpp"]


def rule_callback_sites(F, R, fns):
    alias = F.aliases.get("nano::tuner_callback_t")
    if not alias:
        raise AnalysisBroken("alias nano::tuner_callback_t not found")
    t = alias["t"]
    n = 0
    for f in fns:
        for c in f.calls(lambda x: x.get("ck") == "op" and x.get("op") == "()"):
            o = skip(c["c"][0])
            norm = lambda z: (z or "").replace("const ", "").replace(" &", "").replace("&", "").strip()
            if norm(o.get("t")) == norm(t):
                n += 1
                R.check(f.qn == "nano::evaluate", "R-C13-1", "callback call@%s" % f.loc(c), f.loc(c), "the evaluation callback is invoked in nano::evaluate",
                        "the evaluation callback is invoked outside nano::evaluate (bypasses the already-evaluated filter and the finite check), in " + f.qn)
    R.floor("R-C13-1", n, 1, "callback invocations")


def rule_evaluate(F, R):
    f = F.one("nano::evaluate", "src/tuner/util.cpp")
    cfg = f.cfg
    ig = f.param("igrids")
    st = f.param("steps")
    if ig is None or st is None:
        raise AnalysisBroken("nano::evaluate: parameters igrids/steps not found")
    rem = [c for c in f.calls(lambda x: callee(x) == "std::remove_if")]
    era = [c for c in f.calls(lambda x: callee(x).split("::")[-1] == "erase" and ref_decl(obj(x)) == ig["d"])]
    m2g = [c for c in f.calls(lambda x: callee(x) == "nano::map_to_grid")]
    cb = [c for c in f.calls(lambda x: x.get("ck") == "op" and x.get("op") == "()" and ref_decl(x["c"][0]) == f.param("callback")["d"])]
    ok = len(rem) == 1 and len(era) == 1 and len(m2g) == 1 and len(cb) == 1
    if ok:
        # filter over the whole list, erase from its result to the end, then map and call
        a = [pp(x) for x in args(rem[0])[:2]]
        it = ref_decl(args(era[0])[0])
        var, _ = find_var(f, it) if it is not None else (None, None)
        ok = a == ["igrids.begin()", "igrids.end()"] and var is not None and any(y is rem[0] for y in walk(var)) and pp(args(era[0])[1]) == "igrids.end()"
        ok = ok and cfg.dominates(cfg.where_enclosing(era[0]), cfg.where_enclosing(m2g[0])) and ref_decl(args(m2g[0])[1]) == ig["d"]
        pv = ref_decl(args(cb[0])[0])
        pvar, _ = find_var(f, pv) if pv is not None else (None, None)
        ok = ok and pvar is not None and any(y is m2g[0] for y in walk(pvar))
        # no write to igrids between the erase and the mapping
        for e in cfg.elems():
            if e.kind == "node" and e.node["k"] == "call" and e.node is not era[0] and e.node is not rem[0]:
                for tgt, kind, site in writes_in(f, e.node):
                    if site is e.node and ref_decl(tgt) == ig["d"] and cfg.dominates(cfg.where_enclosing(era[0]), (e.block, e.pos)):
                        ok = False
    R.check(ok, "R-C13-2", "filter -> map -> callback", f.loc(), "callback(map_to_grid(spaces, igrids)) with igrids filtered by remove_if+erase over the whole list",
            "the callback does not receive exactly the grid-mapped, already-evaluated-filtered points")
    # the filter predicate compares with the grid points of the evaluated steps
    okp = False
    for lam, body in F.lambdas_in(f):
        for c in body.calls(lambda x: x.get("ck") == "op" and x.get("op") == "=="):
            t = pp(c)
            if "m_igrid" in t and "igrid" in t.replace("m_igrid", ""):
                okp = True
    R.check(okp, "R-C13-2", "filter predicate", f.loc(), "a point is dropped iff an evaluated step has the same grid point", "the already-evaluated predicate no longer compares grid points of steps")
    # pushes: finite check dominates, same index, sort post-dominates
    pushes = [c for c in f.calls(lambda x: callee(x).split("::")[-1] in ("emplace_back", "push_back") and ref_decl(obj(x)) == st["d"])]
    crit = [c for c in f.calls(lambda x: callee(x) == "nano::critical")]
    sorts = [c for c in f.calls(lambda x: callee(x) == "std::sort")]
    R.floor("R-C13-2/pushes", len(pushes), 1, "step pushes")
    for p in pushes:
        inst = "push@%s" % f.loc(p)
        fin = [c for c in crit if "isfinite" in pp(args(c)[0]) and pp(args(c)[0]).startswith("(!")]
        okf = any(cfg.dominates(cfg.where_enclosing(c), cfg.where_enclosing(p)) and cfg.where_enclosing(c)[0] == cfg.where_enclosing(p)[0] for c in fin)
        R.check(okf, "R-C13-2", inst + " finite check", f.loc(p), "the non-finite check is performed in the same iteration before the push",
                "a step is recorded before / without rejecting a non-finite value")
        txt = pp(p)
        loop = [anc for anc in f.ancestors(p) if anc["k"] == "for"]
        idx = loop[0]["c"][0]["c"][0]["n"] if loop and loop[0]["c"][0]["k"] == "declstmt" else None
        if fin and idx:
            chk = pp(args(fin[0])[0])
            oki = ("values(%s)" % idx) in chk and ("values(%s)" % idx) in txt and ("params.tensor(%s)" % idx) in txt
            ivar = [v for v in walk(loop[0]) if v["k"] == "var" and v["n"] == "igrid"]
            oki = oki and bool(ivar) and ("igrids[" in pp(ivar[0]["c"][0])) and (idx in pp(ivar[0]["c"][0])) and "igrid" in txt
            R.check(oki, "R-C13-2", inst + " one index", f.loc(p), "grid point, parameters, checked value and pushed value share index " + idx,
                    "the pushed step mixes indices: " + txt[:120])
        oks = any(cfg.postdominates(cfg.where_enclosing(s), cfg.where_enclosing(p)) and [pp(x) for x in args(s)[:2]] == ["steps.begin()", "steps.end()"] for s in sorts)
        R.check(oks, "R-C13-2", inst + " sorted", f.loc(p), "std::sort(steps) post-dominates the push", "steps can be returned unsorted after a push")


def rule_local_search(F, R):
    f = F.one("nano::local_search", "src/tuner/util.cpp")
    cfg = f.cfg
    pushes = [c for c in f.calls(lambda x: callee(x).split("::")[-1] in ("emplace_back", "push_back"))]
    want = {"((igrid.array() - min_igrid.array()).minCoeff() < 0)", "((max_igrid.array() - igrid.array()).minCoeff() < 0)"}

    def disj(n):
        n = skip(n)
        if n["k"] == "bin" and n["op"] == "||":
            return disj(n["c"][0]) | disj(n["c"][1])
        return {pp(n)}
    ok = bool(pushes)
    for p in pushes:
        blk = f.parent_of(p)
        while blk is not None and blk["k"] != "block":
            blk = f.parent_of(blk)
        stmts = blk.get("c", ()) if blk else ()
        ip = next((i for i, s_ in enumerate(stmts) if any(y is p for y in walk(s_))), None)
        guarded = False
        for i, s_ in enumerate(stmts[:ip] if ip is not None else ()):
            if s_["k"] == "if" and "else" not in s_["r"]:
                cond = s_["c"][s_["r"].index("cond")]
                then = s_["c"][s_["r"].index("then")]
                leaves_loop = any(y["k"] in ("continue", "return", "break") for y in walk(then))
                if want <= disj(cond) and leaves_loop:
                    guarded = True
        ok = ok and guarded
    R.check(ok, "R-C13-3", "neighbourhood clipped", f.loc(), "a neighbour is kept only if min_igrid <= igrid <= max_igrid component-wise",
            "local_search can return points outside the grid")
    # offsets {-1,0,1}*radius around the source point
    asg = [n for n in f.nodes() if assignment(n) and kalg.designator(assignment(n)[0]) == "igrid"]
    oka = False
    if len(asg) == 1:
        z, _ = kalg.compare_expr(f, assignment(asg[0])[1], "(igrid - 1)*radius + src_igrid", seed=R.seed, inline=False)
        oka = bool(z)
    tps = [v for v in f.nodes() if v["k"] == "var" and v["n"] == "trials_per_space"]
    oka = oka and bool(tps) and pp(tps[0]["c"][0]).rstrip(")").endswith(", 3")
    R.check(oka, "R-C13-3", "neighbourhood shape", f.loc(), "neighbours are src + {-1,0,1}*radius per dimension (3^d candidates)", "the neighbourhood is no longer src + {-1,0,1}*radius")


def bound_ok(f, e, max_evals_decls, depth=0):
    """(ok, reason): e is provably <= tuner::max_evals and cannot wrap"""
    e = skip(e)
    while e["k"] == "cast" and e.get("ck") in ("IntegralCast", "NoOp", "LValueToRValue"):
        e = skip(e["c"][0])
    if depth > 6:
        return False, "too deep"
    if e["k"] == "ref":
        if e["d"] in max_evals_decls:
            return True, ""
        var, _ = find_var(f, e["d"])
        if var is not None and var.get("c"):
            for x in f.nodes():
                a = assignment(x)
                if a and ref_decl(a[0]) == e["d"]:
                    return False, "bound variable %s is re-assigned" % e["n"]
            return bound_ok(f, var["c"][0], max_evals_decls, depth + 1)
        return False, "bound %s does not derive from tuner::max_evals" % e["n"]
    if e["k"] == "call" and parameter_name(e) == "tuner::max_evals" and any(is_call(y, name="value") for y in walk(e)):
        return True, ""
    if e["k"] == "bin" and e["op"] == "/":
        k = literal_value(e["c"][1])
        ok, why = bound_ok(f, e["c"][0], max_evals_decls, depth + 1)
        return (ok and k is not None and k >= 1), (why or "division by a non-constant / constant < 1")
    if e["k"] == "call" and callee(e) == "std::min":
        r = [bound_ok(f, a, max_evals_decls, depth + 1) for a in args(e)]
        return any(x[0] for x in r), "neither argument of min derives from tuner::max_evals"
    if e["k"] == "bin" and e["op"] == "-":
        t = e.get("t", "")
        if "unsigned" in t or "size_t" in t:
            return False, "unsigned subtraction `%s` wraps around when the subtrahend exceeds tuner::max_evals: the loop loses its budget" % pp(e)
        ok, why = bound_ok(f, e["c"][0], max_evals_decls, depth + 1)
        return False, "subtraction `%s` is not provably non-negative" % pp(e)
    return False, "bound `%s` is not derived from tuner::max_evals by identity / division / min" % pp(e)


def rule_budget(F, R):
    fns = [F.one("nano::tuner_t::optimize", "src/tuner.cpp"), F.one("nano::local_search_tuner_t::do_optimize", "src/tuner/local.cpp"),
           F.one("nano::surrogate_tuner_t::do_optimize", "src/tuner/surrogate.cpp")]
    n = 0
    for f in fns:
        me = set()
        for v in f.nodes():
            if v["k"] == "var" and v.get("c") and parameter_name(v["c"][0]) == "tuner::max_evals":
                me.add(v["d"])
        st = f.param("steps")
        sd = st["d"] if st else None
        if sd is None:
            sv = [v for v in f.nodes() if v["k"] == "var" and v["n"] == "steps"]
            sd = sv[0]["d"] if sv else None
        for lp in [x for x in f.nodes() if x["k"] in ("for", "while", "do")]:
            body = lp["c"][lp["r"].index("body")]
            if not any(is_call(c, "nano::evaluate") for c in walk(body)):
                continue
            n += 1
            inst = "%s loop@%s" % (f.qn.split("::")[-2] + "::" + f.name, f.loc(lp))
            cond = lp["c"][lp["r"].index("cond")] if "cond" in lp["r"] else None
            found, why = False, "the loop has no conjunct steps.size() < bound"
            if cond is not None:
                conj = []

                def split(x):
                    x = skip(x)
                    if x["k"] == "bin" and x["op"] == "&&":
                        split(x["c"][0])
                        split(x["c"][1])
                    else:
                        conj.append(x)
                split(cond)
                for c in conj:
                    if c["k"] == "bin" and c["op"] in ("<", "<=", ">", ">="):
                        a, b = c["c"]
                        if c["op"] in (">", ">="):
                            a, b = b, a
                        aa = skip(a)
                        if is_call(aa, name="size") and ref_decl(obj(aa)) == sd:
                            ok, w = bound_ok(f, b, me)
                            found, why = ok, w
                            if ok:
                                break
            R.check(found, "R-C13-4", inst, f.loc(lp), "evaluating loop is bounded by steps.size() < B with B <= tuner::max_evals",
                    "evaluating loop is not bounded by the evaluation budget: " + why)
    R.floor("R-C13-4", n, 3, "evaluating loops")


def rule_tune(F, R):
    f = F.one("nano::ml::tune", "src/machine/tune.cpp")
    lams = F.lambdas_in(f)
    task = [g for _, g in lams if len(g.params) == 2 and g.params[0]["n"] == "index"]
    cb = [g for _, g in lams if len(g.params) == 1 and "tensor_t" in g.params[0]["t"] and g not in task]
    if len(task) != 1 or not cb:
        raise AnalysisBroken("ml::tune: task / tuner callback lambdas not found")
    t, c = task[0], cb[0]
    vars_ = {v["n"]: v for v in t.nodes() if v["k"] == "var" and v.get("c")}
    idx = t.params[0]["n"]
    okd = pp(vars_["fold"]["c"][0]) == "(%s %% folds)" % idx and pp(vars_["trial"]["c"][0]) == "(%s / folds)" % idx if "fold" in vars_ and "trial" in vars_ else False
    R.check(okd, "R-C13-5", "decode (trial, fold)", t.loc(), "fold = index % folds, trial = index / folds", "task index decoded as %s" % {k: pp(v["c"][0]) for k, v in vars_.items() if k in ("fold", "trial")})
    maps = [x for x in c.calls(lambda x: callee(x) == "nano::parallel::pool_t::map")]
    okm = len(maps) == 1 and pp(args(maps[0])[0]) == "(folds * new_trials)"
    cv = {v["n"]: pp(v["c"][0]) for v in c.nodes() if v["k"] == "var" and v.get("c")}
    okm = okm and cv.get("new_trials") == "new_params.size<0>()".replace("<0>", "<0UL>") or (okm and cv.get("new_trials", "").startswith("new_params.size"))
    okm = okm and cv.get("old_trials") == "result.trials()"
    R.check(okm, "R-C13-5", "task count", c.loc(), "folds * new_trials tasks, new_trials = rows of the proposed parameters", "the task count is %s" % (pp(args(maps[0])[0]) if maps else None))
    # splits[fold], params = new_params.tensor(trial), store under old_trials + trial
    binds = [v for v in t.nodes() if v["k"] == "var" and v.get("bindings") and v.get("c")]
    oks = any(pp(v["c"][0]) == "splits[cast<unsigned long>(fold)]" for v in binds)
    call = [x for x in t.calls(lambda x: x.get("ck") == "op" and x.get("op") == "()" and pp(x["c"][0]) == "callback")]
    okc = len(call) == 1 and [pp(x) for x in call[0]["c"][1:4]] == ["tr_samples", "vd_samples", "params"] and pp(vars_["params"]["c"][0]).startswith("new_params.tensor(trial)") if "params" in vars_ else False
    stores = [x for x in t.calls(lambda x: callee(x) == "nano::ml::result_t::store")]
    okst = len(stores) == 1 and [pp(x) for x in args(stores[0])[:2]] == ["(old_trials + trial)", "fold"] and "tr_values" in pp(args(stores[0])[2]) and "vd_values" in pp(args(stores[0])[3])
    R.check(oks and okc and okst and len(call) == 1, "R-C13-5", "one model call per (trial, fold)", t.loc(),
            "callback(train, valid of splits[fold], params of trial) once, stored under (old_trials + trial, fold)",
            "the model callback / store are not tied to the task's own (trial, fold): splits ok=%s callback ok=%s store ok=%s" % (oks, okc, okst))
    # R-C13-6: add dominates map; inside the task only store mutates the result
    adds = [x for x in c.calls(lambda x: callee(x) == "nano::ml::result_t::add")]
    okadd = len(adds) == 1 and maps and c.cfg.dominates(c.cfg.where_enclosing(adds[0]), c.cfg.where_enclosing(maps[0])) and pp(args(adds[0])[0]) == c.params[0]["n"]
    R.check(okadd, "R-C13-6", "grow before parallel section", c.loc(), "result.add(new_params) dominates the parallel map", "the result is not grown (exactly once, with the proposed parameters) before the parallel section")
    bad = []
    for x in t.calls(lambda x: x.get("ck") == "mem" and pp(obj(x)) == "result"):
        if not x.get("cconst") and callee(x) != "nano::ml::result_t::store":
            bad.append(pp(x)[:60])
    R.check(not bad, "R-C13-6", "task mutates only its slot", t.loc(), "inside the task only result.store(trial, fold, ...) mutates the shared result",
            "the parallel task calls non-const %s on the shared result" % bad)
    st = [g for g in F.fn("nano::ml::result_t::store", "src/machine/result.cpp") if len(g.params) == 5]
    for g in st[:1]:
        resizing = [pp(x)[:50] for x in g.calls(lambda x: callee(x).split("::")[-1] in ("resize", "emplace_back", "push_back", "reserve", "clear", "erase"))]
        R.check(not resizing, "R-C13-6", "store is slot-disjoint", g.loc(), "store(trial, fold, ...) performs no container growth (only writes its own slot)",
                "store() resizes shared containers under the parallel section: %s" % resizing)


def _optimum_eval(F, R, f):
    """optimum_trial() evaluated for 1..4 trials and every assignment of values from {1, 2, 3} (ties included) to value(trial): the returned
    index is a trial of minimal value; value() is asked for the validation errors (its defaults, or those enumerators spelled out)"""
    import itertools
    import sympy as sp
    from ..symexec import Interp
    from ..kalg import OutOfFragment

    class OI(Interp):
        T = 1
        table = ()
        kinds = None

        def ev(self, n):
            n2 = skip(n)
            if n2 is not None and n2["k"] == "call":
                q = callee(n2)
                if q == "nano::ml::result_t::trials":
                    return sp.Integer(self.T)
                if q == "nano::ml::result_t::value":
                    a = args(n2)
                    i = self.ev(a[0])
                    if not sp.sympify(i).is_Integer or not 0 <= int(i) < self.T:
                        raise OutOfFragment("value(%s) with %d trials" % (i, self.T))
                    self.kinds.add(tuple(y["n"] for x in a[1:] for y in walk(x) if y["k"] == "ref" and y.get("dk") == "enum"))
                    return sp.Integer(self.table[int(i)])
                if q in ("std::numeric_limits::max", "std::numeric_limits::infinity"):
                    return sp.Integer(10 ** 9)
                if q in ("std::numeric_limits::lowest",):
                    return sp.Integer(-10 ** 9)
            return super().ev(n)

    bad = None
    n = 0
    kinds = set()
    try:
        for T in (1, 2, 3, 4):
            for table in itertools.product((1, 2, 3), repeat=T):
                it = OI(F, f, n=1)
                it.T, it.table, it.kinds = T, table, kinds
                got = it.run()
                n += 1
                if got is None or not sp.sympify(got).is_Integer or not 0 <= int(got) < T or table[int(got)] != min(table):
                    bad = "with the trial values %s optimum_trial() returns %s (the smallest value is at %s)" % (list(table), got, [i for i, v in enumerate(table) if v == min(table)])
                    break
            if bad:
                break
    except OutOfFragment as e:
        R.incomplete("R-C13-7", "optimum trial", f.loc(), "cannot evaluate optimum_trial(): %s" % e)
        return
    if bad is None and kinds != {("nano::ml::split_type::valid", "nano::ml::value_type::errors")}:
        bad = "the values compared are value(trial, %s), not the validation errors" % sorted(kinds)
    R.check(bad is None, "R-C13-7", "optimum trial", f.loc(), "arg-min over all trials of value(trial) = mean validation error (evaluated for %d value assignments, ties included)" % n,
            "optimum_trial is no longer an arg-min of the validation error: %s" % bad)


def _trial_value(F, R, g):
    """value(trial, split, value) evaluated symbolically for 1..4 folds, the statistics of fold f being free symbols (mean_f, count_f > 0, ...):
    the result is (mean_0 + ... + mean_{K-1}) / K, every fold's statistics being asked for with the caller's trial, split and value kind"""
    import sympy as sp
    from ..symexec import Interp
    from ..kalg import OutOfFragment

    class VI(Interp):
        K = 1
        asked = None

        def ev(self, n):
            n2 = skip(n)
            if n2 is not None and n2["k"] == "call" and callee(n2) == "nano::ml::result_t::folds":
                return sp.Integer(self.K)
            if n2 is not None and n2["k"] == "call" and callee(n2) == "nano::ml::result_t::trials":
                return sp.Symbol("trials", integer=True, positive=True)
            if n2 is not None and n2["k"] == "call" and callee(n2) == "nano::ml::result_t::stats":
                a = [self.ev(x) for x in args(n2)]
                self.asked.append(a)
                fold = a[1] if len(a) > 1 else None
                tag = str(fold)
                return {"m_mean": sp.Symbol("mean_" + tag, real=True), "m_count": sp.Symbol("count_" + tag, positive=True),
                        "m_stdev": sp.Symbol("stdev_" + tag, positive=True), "m_per01": sp.Symbol("p01_" + tag, real=True),
                        "m_per05": sp.Symbol("p05_" + tag, real=True), "m_per10": sp.Symbol("p10_" + tag, real=True),
                        "m_per20": sp.Symbol("p20_" + tag, real=True), "m_per50": sp.Symbol("p50_" + tag, real=True),
                        "m_per80": sp.Symbol("p80_" + tag, real=True), "m_per90": sp.Symbol("p90_" + tag, real=True),
                        "m_per95": sp.Symbol("p95_" + tag, real=True), "m_per99": sp.Symbol("p99_" + tag, real=True)}
            if n2 is not None and n2["k"] == "mem" and n2.get("c") and skip(n2["c"][0]) is not None and skip(n2["c"][0])["k"] != "this":
                b = self.ev(n2["c"][0])
                if isinstance(b, dict):
                    if n2["n"] not in b:
                        raise OutOfFragment("field %s of the fold statistics" % n2["n"])
                    return b[n2["n"]]
            if n2 is not None and n2["k"] == "cast" and n2.get("ck") == "ToVoid":
                return sp.Integer(0)
            return super().ev(n)

    bad = None
    n = 0
    try:
        for K in (1, 2, 3, 4):
            it = VI(F, g, n=1)
            it.K, it.asked = K, []
            ps = [sp.Symbol(p_["n"], integer=True, nonnegative=True) if i_ == 0 else sp.Symbol(p_["n"]) for i_, p_ in enumerate(g.params)]
            for p_, v_ in zip(g.params, ps):
                it.env[p_["d"]] = v_
            got = it.run()
            want = sum(sp.Symbol("mean_%d" % f_, real=True) for f_ in range(K)) / K
            n += 1
            if got is None or sp.simplify(got - want) != 0:
                bad = "with %d fold(s) value(trial) evaluates to %s, the mean over folds of the per-fold mean is %s" % (K, got, want)
                break
            folds = sorted(str(a[1]) for a in it.asked)
            if folds != [str(f_) for f_ in range(K)] or any(len(a) != 4 or a[0] != ps[0] or a[2] != ps[1] or a[3] != ps[2] for a in it.asked):
                bad = "with %d fold(s) the statistics asked for are %s, expected (trial, f, split, value) for f = 0..%d" % (K, it.asked[:4], K - 1)
                break
    except OutOfFragment as e:
        R.incomplete("R-C13-7", "trial value", g.loc(), "cannot evaluate value(trial): %s" % e)
        return
    R.check(bad is None, "R-C13-7", "trial value", g.loc(), "value(trial) is the mean over folds of the statistic's mean (evaluated symbolically for 1..%d folds)" % n,
            "value(trial) is no longer the fold-average of the mean: %s" % bad)


def rule_optimum(F, R):
    f = F.one("nano::ml::result_t::optimum_trial", "src/machine/result.cpp")
    _optimum_eval(F, R, f)
    v = [g for g in F.fn("nano::ml::result_t::value", "src/machine/result.cpp")]
    for g in v[:1]:
        _trial_value(F, R, g)


def rule_distinct_batches(F, R, fns):
    """R-C13-9: nano::evaluate drops the points already in `steps` but does not look for repeats inside the batch it is given, so "never the same
    point twice" rests on every caller handing it distinct points: the batch is the result of local_search (an injective image of the distinct
    offset tuples, R-C13-3) or a list of exactly one point. A list of several named points (minimum, centre, maximum, ...) is not provably
    duplicate-free - for a grid of two values the centre is the maximum."""
    n = 0
    for f in fns:
        for c in f.calls(lambda c: callee(c) == "nano::evaluate" and len(args(c)) >= 5):
            n += 1
            b = skip(args(c)[2])
            for _ in range(4):
                while b["k"] in ("cast", "construct", "materialize", "bind") and len([x for x in b.get("c", ()) if x is not None]) == 1 and b["k"] != "initlist":
                    inner = skip([x for x in b["c"] if x is not None][0])
                    if b["k"] == "construct" and inner["k"] not in ("ref", "call", "construct", "initlist", "cast"):
                        break
                    if b["k"] == "construct" and inner["k"] == "ref" and "vector" not in (inner.get("t") or "") and "igrids" not in (inner.get("t") or ""):
                        break       # a one-element list
                    b = inner
                if b["k"] == "ref":
                    v, _b = find_var(f, b.get("d"))
                    if v is not None and v.get("c"):
                        b = skip(v["c"][0])
                        continue
                break
            ok, why = False, "the batch `%s` is neither the result of local_search nor a single point" % pp(args(c)[2])[:70]
            if b["k"] == "call" and callee(b) == "nano::local_search":
                ok = True
            elif b["k"] in ("construct", "initlist"):
                elems = [x for x in b.get("c", ()) if x is not None and "allocator" not in pp(x)[:30] and x["k"] != "defarg"]
                if len(elems) == 1 and skip(elems[0])["k"] == "initlist":
                    elems = [x for x in skip(elems[0]).get("c", ()) if x is not None]
                ok = len(elems) == 1
                if not ok:
                    why = "the batch lists %d points (%s): nothing makes them distinct - evaluate() only drops points that are already in `steps`, so two coinciding entries " \
                          "are both handed to the callback and both recorded (e.g. centre == maximum for a grid of two values)" % (len(elems), ", ".join(pp(x)[:20] for x in elems))
            R.check(ok, "R-C13-9", "%s batch@%d" % (f.name, c["l"]), f.loc(c), "the batch handed to evaluate() holds distinct points (local_search, or one point)", why)
    R.floor("R-C13-9", n, 4, "callers of nano::evaluate")


def rule_step_order(F, R):
    """R-C13-10: the steps are sorted with tuner_step_t's operator<, so "sorted by value, the first is the minimum observed" holds only if that
    operator orders by value: whenever the two values differ (by however little) the result is `lhs.m_value < rhs.m_value`. A secondary key
    may decide only under *exact* equality of the values; under a tolerance (`close(...)`, |a - b| < eps) two distinct values are ordered by
    something else and the first step need not be the minimum."""
    fs = [f for f in F.functions.values() if f.name == "operator<" and len(f.params) == 2 and all("tuner_step_t" in (p_.get("t") or "") for p_ in f.params) and f.body is not None]
    if not fs:
        raise AnalysisBroken("operator<(tuner_step_t, tuner_step_t) not found")
    f = fs[0]
    lhs, rhs = f.params[0]["d"], f.params[1]["d"]

    def is_value_less(e):
        e = skip(e)
        if e["k"] == "bin" and e["op"] == "<":
            a_, b_ = skip(e["c"][0]), skip(e["c"][1])
            return a_["k"] == "mem" and b_["k"] == "mem" and a_["n"] == "m_value" and b_["n"] == "m_value" and ref_decl(a_["c"][0]) == lhs and ref_decl(b_["c"][0]) == rhs
        return False

    def exact_equal(c):
        c = skip(c)
        if c["k"] == "bin" and c["op"] == "==":
            a_, b_ = skip(c["c"][0]), skip(c["c"][1])
            return a_["k"] == "mem" and b_["k"] == "mem" and a_["n"] == "m_value" and b_["n"] == "m_value" and {ref_decl(a_["c"][0]), ref_decl(b_["c"][0])} == {lhs, rhs}
        return False
    ok, why = True, ""
    nret = 0
    for x in f.nodes():
        if x["k"] != "return" or not x.get("c"):
            continue
        nret += 1
        if is_value_less(x["c"][0]):
            continue
        # another key: only under exact equality of the values (an enclosing `if (lhs.m_value == rhs.m_value)`, then-branch)
        guarded = False
        child = x
        for a_ in f.ancestors(x):
            if a_["k"] == "if" and exact_equal(a_["c"][a_["r"].index("cond")]) and any(z is child for z in walk(a_["c"][a_["r"].index("then")])):
                guarded = True
            child = a_
        e = skip(x["c"][0])
        if e["k"] == "cond" and exact_equal(e["c"][0]) and is_value_less(e["c"][2]):
            guarded = True
        if not guarded:
            conds = [pp(a_["c"][a_["r"].index("cond")])[:70] for a_ in f.ancestors(x) if a_["k"] == "if"]
            ok, why = False, "`%s` is returned %s: two steps whose values differ can be ordered by something other than their values, the sorted steps are then not sorted " \
                "by value and the first is not the minimum observed" % (pp(x["c"][0])[:70], ("under `%s`, which is not exact equality of the values" % conds[0]) if conds else "unconditionally")
            break
    R.check(ok and nret >= 1, "R-C13-10", "tuner_step_t operator<", f.loc(), "steps with different values are ordered by their values", why)


def run(ctx):
    R = ctx.report
    tus = ctx.all_tus() if ctx.thorough else TUS
    F = ctx.facts(tus)
    fns = [f for f in F.functions.values() if not f.relfile.startswith("/")]
    rule_callback_sites(F, R, fns)
    rule_evaluate(F, R)
    rule_local_search(F, R)
    rule_budget(F, R)
    rule_tune(F, R)
    rule_optimum(F, R)
    rule_distinct_batches(F, R, fns)
    rule_step_order(F, R)
    from . import c11
    # what a (trial, fold) task stores is what the callback returned: (train|valid, errors|losses) -> its own slot and coordinates
    c11.rule_slots(F, R, rule="R-C13-8", with_evaluate=False)
