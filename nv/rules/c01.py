"""C01 - L-BFGS/BFGS and all line-search solvers: `converged` is truthful (DESIGN 3, C01)."""
import re
import sympy as sp

from ..cfg import must_dataflow
from ..facts import AnalysisBroken, walk, strip_targs
from ..pp import pp, skip
from ..util import (args, assignment, callee, incdec, is_call, obj, strip_not, literal_value, find_var, parameter_name, writes_in,
                    root_of, unwrap_view)
from ..util import ref_decl_v as ref_decl
from .. import kalg
from . import c02

META = {
    "level": "other",
    "technique": "must-dataflow for the provenance of the converged flag, dominance for the forced-descent guard, expression algebra (criterion formula, history index pairing, scalarised secant identity), decision table of solver_t::done",
    "explanation": "Decides the truthfulness clause structurally: in every line-search solver the converged flag given to done() is "
                   "exactly state.gradient_test() < epsilon, evaluated on the very state object passed to done() and returned, after the "
                   "line-search and with no mutation in between, with epsilon read from solver::epsilon; gradient_test is "
                   "max|g| / max(1, |f|); done() maps the flag to the status and nothing else writes the status, which starts as "
                   "max_iters; the returned object is that state (or its last valid copy). For the search directions: every line-search "
                   "call is preceded on all paths by the steepest-descent direction or by a has_descent test whose failing edge falls "
                   "back to it; the L-BFGS two-loop recursion pairs history entry hsize-1-j with coefficient slot j in the first loop "
                   "and entry j with slot hsize-1-j in the second, and (s, y) pairs are appended, dropped and cleared together; every "
                   "quasi-Newton update satisfies the secant equation H_new * dg = dx in its 1x1 instance.",
    "not_decided": "convergence within 1500 evaluations and the distance bound to the minimiser (numerical); the matrix form of the updates",
    "assumptions": ["1x1 instances of matrix identities are necessary conditions only"],
}

TUS = ["src/solver/lbfgs.cpp", "src/solver/quasi.cpp", "src/solver/cgd.cpp", "src/solver/gd.cpp", "src/solver.cpp", "src/solver/state.cpp",
       "src/solver/lsearch.cpp"]
LS_SOLVERS = [("nano::solver_gd_t", "src/solver/gd.cpp"), ("nano::solver_cgd_t", "src/solver/cgd.cpp"),
              ("nano::solver_lbfgs_t", "src/solver/lbfgs.cpp"), ("nano::solver_quasi_t", "src/solver/quasi.cpp")]


def rule_flag(F, R):
    n = 0
    for cls, file in LS_SOLVERS:
        f = F.one(cls + "::do_minimize", file)
        eps = {v["d"] for v in f.nodes() if v["k"] == "var" and v.get("c") and parameter_name(v["c"][0]) == "solver::epsilon"
               and any(is_call(y, name="value") for y in walk(v["c"][0]))}
        cfg = f.cfg

        # facts: ('crit', S) = "state S was not modified since S.gradient_test() was computed into the flag"
        def is_test(n_):
            """S if n is `S.gradient_test() < epsilon`"""
            n_ = skip(n_)
            if n_ is not None and n_["k"] == "bin" and n_["op"] == "<":
                a, b = skip(n_["c"][0]), skip(n_["c"][1])
                if is_call(a, "nano::solver_state_t::gradient_test") and not args(a) and ref_decl(b) in eps:
                    return ref_decl(obj(a))
            return None

        def telem(facts, e):
            if e.kind != "node":
                return
            n_ = e.node
            if n_["k"] in ("declstmt", "var"):
                for vn in ([n_] if n_["k"] == "var" else n_.get("c", ())):
                    if vn["k"] == "var" and vn.get("c"):
                        S = is_test(vn["c"][0])
                        if S is not None:
                            facts.add(("flag", vn["d"], S))
                return
            if n_["k"] == "call":
                q = callee(n_)
                if q == "nano::solver_t::done":
                    return
                for tgt, kind, site in writes_in(f, n_):
                    if site is not n_:
                        continue
                    d = ref_decl(tgt)
                    if d is None:
                        kk, rd = root_of(tgt)
                        d = rd if kk == "var" else None
                    if d is not None:
                        for x in [x for x in facts if x[0] == "flag" and (x[2] == d or x[1] == d)]:
                            facts.discard(x)
            a = assignment(n_)
            if a:
                d = ref_decl(a[0])
                for x in [x for x in facts if x[0] == "flag" and (x[2] == d or x[1] == d)]:
                    facts.discard(x)

        IN, before = must_dataflow(cfg, set(), telem)
        for e in cfg.elems():
            if e.kind != "node" or not is_call(e.node, "nano::solver_t::done"):
                continue
            c = e.node
            a = args(c)
            S = ref_decl(a[0])
            n += 1
            inst = "%s done@%s" % (cls.split("::")[-1], f.loc(c))
            facts = before(e.block, e.pos)
            if facts is None:
                continue
            flag = skip(a[2])
            ok = False
            if is_test(flag) is not None:
                ok = is_test(flag) == S
                detail = "flag computed inline on another state" if not ok else ""
            else:
                d = ref_decl(flag)
                ok = d is not None and ("flag", d, S) in facts
                detail = "`%s` is not (on every path) `state.gradient_test() < epsilon` of the state passed to done(), computed after its last modification" % pp(flag)
            R.check(ok, "R-C01-1", inst, f.loc(c), "converged flag is %s.gradient_test() < solver::epsilon on the state given to done()" % pp(a[0]),
                    "the converged flag given to done() is not truthful: " + detail)
        R.check(bool(eps), "R-C01-1", "%s epsilon source" % cls.split("::")[-1], f.loc(), "epsilon is read from solver::epsilon", "epsilon no longer comes from parameter solver::epsilon")
        # the test after the line-search: the line-search call dominates the flag of the in-loop done()
        gets = [c for c in f.calls(lambda x: callee(x) == "nano::lsearch_t::get")]
        R.check(len(gets) >= 1, "R-C01-1", "%s line-search present" % cls.split("::")[-1], f.loc(), "solver performs a line-search per iteration", "no line-search call")
    R.floor("R-C01-1", n, 8, "done() call sites of the line-search solvers")


def rule_criterion(F, R):
    fs = [f for f in F.fn("nano::solver_state_t::gradient_test", "src/solver/state.cpp")]
    n = 0
    for f in fs:
        rets = [x for x in f.nodes() if x["k"] == "return"]
        if len(rets) != 1:
            R.incomplete("R-C01-2", "gradient_test@%d" % f.line, f.loc(), "expected one return")
            continue
        if not f.params:
            c = skip(rets[0]["c"][0])
            R.check(is_call(c, "nano::solver_state_t::gradient_test") and pp(unwrap_view(args(c)[0])) == "m_gx", "R-C01-2", "gradient_test()", f.loc(),
                    "the no-argument form tests the state's own gradient", "gradient_test() no longer uses m_gx: " + pp(c))
            n += 1
            continue
        gp = f.params[0]["n"]

        def lpnorm(cv, o, a_):
            return kalg.sym("maxabs_g")
        def maxcoeff(cv, o, a_):
            e = cv.conv(o)
            if e == sp.Abs(kalg.sym(gp)):
                return kalg.sym("maxabs_g")
            raise kalg.OutOfFragment("maxCoeff of " + str(e))
        z, det = kalg.compare_expr(f, rets[0]["c"][0], "maxabs_g / Max(1, Abs(m_fx))", methods={"lpNorm": lpnorm, "maxCoeff": maxcoeff}, seed=R.seed)
        n += 1
        inf_norm = any(x["k"] == "call" and callee(x).endswith("lpNorm") and any("-1" in t or "Infinity" in t for t in x.get("targs", [])) and pp(x["c"][0]) == gp
                       for x in walk(rets[0]))
        alt = any(x["k"] == "call" and callee(x).endswith("maxCoeff") for x in walk(rets[0]))
        if z is None:
            R.incomplete("R-C01-2", "gradient_test(g)", f.loc(), det)
        else:
            R.check(bool(z) and (inf_norm or alt), "R-C01-2", "gradient_test(g)", f.loc(), "criterion = max|g| / max(1, |f(x)|)",
                    "convergence criterion is `%s`, not max|g|/max(1,|f|) %s" % (pp(rets[0]["c"][0]), det))
    R.floor("R-C01-2", n, 2, "gradient_test overloads")


def rule_descent(F, R):
    """R-C01-5: forced descent before every line-search"""
    n = 0
    for cls, file in LS_SOLVERS:
        f = F.one(cls + "::do_minimize", file)
        cfg = f.cfg
        for c in f.calls(lambda x: callee(x) == "nano::lsearch_t::get"):
            a = args(c)
            S, D = ref_decl(a[0]), ref_decl(a[1])
            n += 1
            inst = "%s lsearch.get@%s" % (cls.split("::")[-1], f.loc(c))
            # facts: 'steepest' = D holds -S.gx(); 'tested' = has_descent(D) was true
            def is_neg_grad(rhs):
                r = skip(rhs)
                while r is not None and r["k"] in ("construct", "cast") and len(r.get("c", ())) == 1:
                    r = skip(r["c"][0])
                if r is not None and r["k"] == "call" and r.get("op") == "-" and len(r["c"]) == 1:
                    g = skip(r["c"][0])
                    return is_call(g, "nano::solver_state_t::gx") and ref_decl(obj(g)) == S
                return False

            def resolves(d):
                """reference variables aliasing D (auto& descent = r)"""
                if d == D:
                    return True
                var, _ = find_var(f, D)
                return var is not None and var.get("isref") and var.get("c") and ref_decl(var["c"][0]) == d

            def telem(facts, e):
                if e.kind != "node":
                    return
                n_ = e.node
                a_ = assignment(n_)
                if a_:
                    d = ref_decl(a_[0])
                    if d is not None and resolves(d):
                        facts.discard("ok")
                        if a_[2] == "=" and is_neg_grad(a_[1]):
                            facts.add("ok")
                    elif d == S:
                        facts.discard("ok")
                    return
                if n_["k"] == "call" and callee(n_) not in ("nano::solver_t::done",):
                    for tgt, kind, site in writes_in(f, n_):
                        if site is n_ and (ref_decl(tgt) == S or (ref_decl(tgt) is not None and resolves(ref_decl(tgt)))):
                            facts.discard("ok")

            def tedge(facts, b, k):
                if b.cond is None or len(b.succ) != 2:
                    return
                inner, neg = strip_not(b.cond)
                d = ref_decl(inner)
                if d is not None:
                    var, _ = find_var(f, d)
                    if var is not None and var.get("c"):
                        inner2, neg2 = strip_not(var["c"][0])
                        inner, neg = inner2, neg != neg2
                if is_call(inner, "nano::solver_state_t::has_descent") and ref_decl(obj(inner)) == S and resolves(ref_decl(args(inner)[0])):
                    holds_on = 1 if neg else 0
                    if k == holds_on:
                        facts.add("ok")
            IN, before = must_dataflow(cfg, set(), telem, tedge)
            w = cfg.where_enclosing(c)
            facts = before(*w)
            R.check(facts is not None and "ok" in facts, "R-C01-5", inst, f.loc(c),
                    "the direction given to the line-search is -gradient or passed has_descent() on every path",
                    "a path reaches the line-search with a direction that was neither reset to -g nor tested by has_descent (the forced-descent fallback is missing)")
    R.floor("R-C01-5", n, 4, "line-search calls")


def rule_lbfgs_retention(F, R, f):
    """the number of curvature pairs kept is the `solver::lbfgs::history` parameter, whatever containers hold them: a container that
    receives p vectors per accepted step must be trimmed (by p) only beyond p * history"""
    hv = [v for v in f.nodes() if v["k"] == "var" and v.get("c") and parameter_name(v["c"][0]) == "solver::lbfgs::history"]
    if len(hv) != 1:
        raise AnalysisBroken("lbfgs: no local is read from the parameter solver::lbfgs::history")
    HIST = kalg.sym("history")
    pushes = {}
    for c in f.calls(lambda x: x.get("ck") == "mem" and callee(x).split("::")[-1] in ("emplace_back", "push_back") and callee(x).startswith("std::deque")):
        pushes.setdefault(pp(obj(c)), []).append(c)
    if not pushes:
        raise AnalysisBroken("lbfgs: no history container (std::deque) receives curvature pairs")
    pops = {}
    for c in f.calls(lambda x: x.get("ck") == "mem" and callee(x).split("::")[-1] == "pop_front"):
        pops.setdefault(pp(obj(c)), []).append(c)
    total = sum(len(v) for v in pushes.values())
    R.check(total == 2, "R-C01-6", "history pair", f.loc(), "each accepted step stores one (s, y) pair", "each accepted step stores %d vectors, not one (s, y) pair" % total)
    for name, pu in sorted(pushes.items()):
        p_ = len(pu)
        po = pops.get(name, [])
        inst = "history retention `%s`" % name
        if not po:
            R.bad("R-C01-6", inst, f.loc(pu[0]), "`%s` grows without bound: it is never trimmed" % name)
            continue
        guards = [a for a in f.ancestors(po[0]) if a["k"] == "if"]
        bound = None
        cnt = None
        if guards:
            cnd = skip(guards[0]["c"][guards[0]["r"].index("cond")])
            if cnd["k"] == "bin" and cnd["op"] in (">", ">=", "<", "<="):
                sized = [nm for nm in pushes if "%s.size()" % nm in pp(cnd)]
                if len(sized) == 1:
                    Z = kalg.sym("zsize")
                    try:
                        cv = kalg.Conv(f, subst={hv[0]["d"]: HIST}, atoms={"%s.size()" % sized[0]: Z}, inline=True)
                        cv.rational_int_div = True
                        L_, R_ = cv.conv(cnd["c"][0]), cv.conv(cnd["c"][1])
                        d_ = sp.expand(L_ - R_) if cnd["op"] in (">", ">=") else sp.expand(R_ - L_)
                        co = d_.coeff(Z, 1)
                        if d_.is_polynomial(Z) and sp.degree(d_, Z) == 1 and co.is_positive:
                            bound = sp.simplify(-d_.coeff(Z, 0) / co) + (0 if cnd["op"] in (">", "<") else -1)
                            cnt = len(pushes[sized[0]])
                    except (kalg.OutOfFragment, Exception):
                        bound = None
        if bound is None:
            R.incomplete("R-C01-6", inst, f.loc(po[0]), "cannot read the trim condition guarding pop_front")
            continue
        okb = sp.simplify(bound - cnt * HIST) == 0
        R.check(okb and len(po) == p_, "R-C01-6", inst, f.loc(po[0]), "trimmed by %d beyond %d * history: exactly `history` pairs are kept" % (p_, cnt),
                "the container receives %d vector(s) per step but is trimmed (by %d) beyond %s: it keeps %s pairs instead of `history` (solver::lbfgs::history)" % (
                    cnt, len(po), bound, sp.simplify(bound / cnt)))


def rule_lbfgs(F, R):
    f = F.one("nano::solver_lbfgs_t::do_minimize", "src/solver/lbfgs.cpp")
    rule_lbfgs_retention(F, R, f)
    names = {pp(obj(c)) for c in f.calls(lambda x: x.get("ck") == "mem" and callee(x).startswith("std::deque"))}
    if not {"ss", "ys"} <= names:
        R.incomplete("R-C01-6", "lbfgs two-loop recursion", f.loc(), "the curvature pairs are no longer kept in the two deques `ss` and `ys`: the index-pairing rule cannot follow this representation")
        return
    loops = [x for x in f.nodes() if x["k"] == "for"]
    hs = [v for v in f.nodes() if v["k"] == "var" and v["n"] == "hsize"]
    if len(loops) != 2 or not hs:
        R.incomplete("R-C01-6", "lbfgs two-loop recursion", f.loc(), "expected two for-loops over the history and a local hsize")
        return
    ok_h = pp(hs[0]["c"][0]) == "ss.size()"
    R.check(ok_h, "R-C01-6", "history size", f.loc(hs[0]), "hsize = ss.size()", "hsize is %s" % pp(hs[0]["c"][0]))
    H = sp.Symbol("hsize")
    for which, lp in enumerate(loops):
        init, cond, inc, body = (lp["c"][lp["r"].index(r)] for r in ("init", "cond", "inc", "body"))
        jv = init["c"][0]
        J = kalg.sym(jv["n"])
        shape = pp(jv["c"][0]) == "0" and pp(cond) == "(%s < hsize)" % jv["n"] and pp(inc) == "(++%s)" % jv["n"]
        # history indices and alpha slot used in the body
        sidx, yidx, aidx = [], [], []
        for x in walk(body):
            if x["k"] == "call" and x.get("op") == "[]":
                base = pp(x["c"][0])
                if base in ("ss", "ys", "alphas"):
                    try:
                        e = kalg.Conv(f, inline=False).conv(x["c"][1])
                    except kalg.OutOfFragment:
                        e = None
                    {"ss": sidx, "ys": yidx, "alphas": aidx}[base].append(e)
        inst = "lbfgs loop %d" % (which + 1)
        okp = shape and len(sidx) == 1 and len(yidx) == 1 and len(aidx) == 1 and None not in (sidx[0], yidx[0], aidx[0])
        if okp:
            same = sp.simplify(sidx[0] - yidx[0]) == 0
            pairing = sp.simplify(sidx[0] + aidx[0] - (H - 1)).subs({kalg.sym("hsize"): H}) == 0
            order = sp.simplify(sidx[0] - ((H - 1 - J) if which == 0 else J)).subs({kalg.sym("hsize"): H}) == 0
            okp = same and pairing and order
        R.check(okp, "R-C01-6", inst, f.loc(lp),
                "pair index = %s, coefficient slot = %s (pair + slot = hsize - 1), same index for s and y" % (("hsize-1-j", "j") if which == 0 else ("j", "hsize-1-j")),
                "two-loop recursion indices are s[%s], y[%s], alphas[%s]" % (sidx, yidx, aidx))
    # (s, y) appended, dropped and cleared together
    def calls_on(name, method):
        return [c for c in f.calls(lambda x: x.get("ck") == "mem" and callee(x).split("::")[-1] == method and pp(obj(x)) == name)]
    for method in ("emplace_back", "pop_front", "clear"):
        a, b = calls_on("ss", method), calls_on("ys", method)
        same_block = len(a) == len(b) == 1 and f.cfg.where_enclosing(a[0])[0] == f.cfg.where_enclosing(b[0])[0]
        R.check(same_block, "R-C01-6", "history %s" % method, f.loc(), "ss and ys are %s together" % method, "ss/ys %s calls: %d/%d or in different branches" % (method, len(a), len(b)))
    eb = calls_on("ss", "emplace_back") + calls_on("ys", "emplace_back")
    if len(eb) == 2:
        t = [pp(args(c)[0]) for c in eb]
        R.check(t == ["(cstate.x() - pstate.x())", "(cstate.gx() - pstate.gx())"], "R-C01-6", "history content", f.loc(eb[0]),
                "s = x_new - x_old, y = g_new - g_old", "history stores %s" % t)


def rule_secant(F, R):
    """R-C01-7: H_new * dg == dx in the 1x1 instance"""
    fs = {f.name: f for f in F.in_file("src/solver/quasi.cpp") if f.name in ("SR1", "DFP_", "BFGS_", "HOSHINO", "DFP", "BFGS") and not f.cls}
    H, dx, dg = kalg.sym("H"), kalg.sym("dx"), kalg.sym("dg")
    funcs = {}

    def result_of(name):
        f = fs.get(name)
        if f is None:
            raise AnalysisBroken("quasi-Newton update %s not found" % name)
        inner = {"(anonymous namespace)::DFP_": lambda *a: result_of("DFP_"), "(anonymous namespace)::BFGS_": lambda *a: result_of("BFGS_"),
                 "nano::matrix_t::identity": lambda *a: sp.Integer(1), "nano::tensor_t::identity": lambda *a: sp.Integer(1)}
        rets = [x for x in f.nodes() if x["k"] == "return" and x.get("c")]
        cv = kalg.Conv(f, scalar=True, funcs=inner, atoms={"tensor_t::identity(H.rows(), H.cols())": sp.Integer(1)})
        cv.methods["identity"] = lambda c_, o, a_: sp.Integer(1)
        if rets:
            return cv.conv(rets[0]["c"][0])
        asg = [x for x in f.nodes() if assignment(x) and pp(assignment(x)[0]) == "H"]
        if len(asg) != 1:
            raise kalg.OutOfFragment("%s: expected a single assignment of H" % name)
        return cv.conv(assignment(asg[0])[1])
    n = 0
    for name in ("SR1", "DFP_", "BFGS_", "HOSHINO"):
        f = fs.get(name)
        if f is None:
            R.bad("R-C01-7", name, "src/solver/quasi.cpp:1", "update formula vanished")
            continue
        if name == "SR1" and len(f.params) != 3:
            f3 = [g for g in F.in_file("src/solver/quasi.cpp") if g.name == "SR1" and len(g.params) == 3]
            if f3:
                fs["SR1"] = f3[0]
                f = f3[0]
        try:
            e = result_of(name)
        except kalg.OutOfFragment as ex:
            R.incomplete("R-C01-7", name, f.loc(), str(ex))
            continue
        n += 1
        res = sp.simplify(e * dg - dx)
        z, wit = kalg.is_zero(res, R.seed)
        R.check(bool(z), "R-C01-7", name, f.loc(), "H_new * dg == dx (1x1 instance of the secant equation)",
                "1x1 instance: H_new*dg - dx = %s, the update no longer satisfies the secant equation" % res)
    R.floor("R-C01-7", n, 4, "quasi-Newton update formulas")
    # the solver feeds (dx, dg) = (x_new - x_old, g_new - g_old)
    ups = [g for g in F.in_file("src/solver/quasi.cpp") if g.name == "update" and g.cls and g.cls.startswith("nano::solver_quasi_")]
    for g in ups:
        c = [c for c in g.calls(lambda x: callee(x).split("::")[-1] in ("SR1", "DFP", "BFGS", "HOSHINO", "FLETCHER"))]
        if not c:
            continue
        a = [pp(x) for x in args(c[0])[1:3]]
        prev, curr = g.params[0]["n"], g.params[1]["n"]
        R.check(a == ["(%s.x() - %s.x())" % (curr, prev), "(%s.gx() - %s.gx())" % (curr, prev)], "R-C01-7", "%s arguments" % g.cls.split("::")[-1], g.loc(),
                "update receives dx = x_new - x_old and dg = g_new - g_old", "update receives %s" % a)


def _top_targs(t):
    """(template name, [top-level template arguments]) of a type string"""
    t = (t or "").replace("const ", "", 1).strip() if (t or "").startswith("const ") else (t or "").strip()
    i = t.find("<")
    if i < 0:
        return t, []
    name, depth, cur, out = t[:i], 0, "", []
    for ch in t[i + 1:]:
        if ch == "<":
            depth += 1
        elif ch == ">":
            if depth == 0:
                out.append(cur.strip())
                break
            depth -= 1
        if ch == "," and depth == 0:
            out.append(cur.strip())
            cur = ""
        else:
            cur += ch
    return name, out


def rule_noalias(F, R, rule="R-C01-8", files=("src/solver/",)):
    """`dst.noalias() = A * B` lets Eigen write the product straight into dst: if dst is one of the factors the result is garbage once the
    matrices are large enough for the GEMM path (dst is zeroed first) - small instances still come out right, which is what the tests see. The
    same holds for `dst.noalias() = X +- A * B` (evaluated as dst = X; dst +-= A * B). Decided on the C++ types clang computed: the right-hand
    side is an Eigen::Product, or a sum / difference with an Eigen::Product as a direct operand, and the destination object occurs among the
    product's factors. Products nested deeper in coefficient-wise expressions are evaluated into temporaries and are fine."""
    n = 0
    for f in F.functions.values():
        if f.body is None or not f.relfile.startswith(tuple(files)):
            continue
        for c in f.calls(lambda c: callee(c).split("::")[-1] == "noalias"):
            par = f.parent_of(c)
            if par is None or par["k"] != "call" or par.get("op") not in ("=", "+=", "-=") or not any(z is c for z in walk(par["c"][0])):
                continue
            n += 1
            dst = skip(obj(c))
            while dst["k"] == "call" and dst.get("ck") == "mem" and not args(dst):
                dst = skip(obj(dst))        # H.matrix().noalias() -> H
            dkey = ("ref", dst.get("d")) if dst["k"] == "ref" else ("mem", dst.get("n")) if dst["k"] == "mem" else None
            rhs = skip(par["c"][1])
            prods = []
            name, targs = _top_targs(rhs.get("t"))
            if name.endswith("Eigen::Product"):
                prods.append(rhs)
            elif name.endswith("Eigen::CwiseBinaryOp") and targs and re.search(r"scalar_(sum|difference)_op", targs[0]) and rhs.get("c"):
                for ch in rhs["c"][-2:]:
                    ch = skip(ch)
                    if _top_targs(ch.get("t"))[0].endswith("Eigen::Product"):
                        prods.append(ch)
            bad = None
            for p_ in prods:
                for y in walk(p_):
                    if dkey and ((dkey[0] == "ref" and y["k"] == "ref" and y.get("d") == dkey[1]) or (dkey[0] == "mem" and y["k"] == "mem" and y.get("n") == dkey[1])):
                        bad = p_
                        break
            R.check(bad is None, rule, "%s noalias@%d" % (f.name, c["l"]), f.loc(c), "the destination is not a factor of a product written in place",
                    "`%s` writes the product `%s` straight into `%s`, which is one of its factors: for matrices beyond Eigen's small-product threshold the destination is "
                    "zeroed before the product is formed - the update degenerates (for the BFGS matrix: to the rank-one term), although small instances still come out right" % (
                        pp(par)[:70], pp(bad)[:50] if bad else "", pp(dst)[:20]))
    return n


def rule_lsearch0_history(F, R):
    """R-C01-9: the initial-step rules carry values of the previous iteration in members (m_prevf, m_prevdg) and are called once per iteration:
    every such member that get() reads must be refreshed on *every* path through get(), with a value of the current iterate. A member
    refreshed on the first-iteration path only keeps the slope of the first direction for the whole run: the initial step collapses as the
    decrease shrinks and every line search pays for it - the evaluation budget of the quasi-Newton solvers is exceeded on long runs."""
    from .c15 import must_written_members
    n = 0
    for f in F.functions.values():
        if f.body is None or f.name != "get" or not f.relfile.startswith("src/lsearch0/") or not (f.cls or "").startswith("nano::lsearch0_"):
            continue
        read = set()
        lhs = set()
        for x in f.nodes():
            a_ = assignment(x)
            if a_:
                for y in walk(a_[0]):
                    lhs.add(y["i"])
        for x in f.nodes():
            if x["k"] == "mem" and (x.get("n") or "").startswith("m_prev") and x["i"] not in lhs and (not x.get("c") or skip(x["c"][0])["k"] == "this"):
                read.add(x["n"])
        if not read:
            continue
        written = must_written_members(F, f, f.cls)
        for m_ in sorted(read):
            n += 1
            R.check(m_ in written, "R-C01-9", "%s %s" % (f.cls.split("::")[-1], m_), f.loc(), "%s is refreshed on every path through get()" % m_,
                    "`%s` is read by get() but not written on every path through it: on the other paths it keeps the value of an earlier iteration (e.g. the slope along "
                    "the very first direction), the interpolated initial step is then computed from unrelated quantities and shrinks towards its lower clamp" % m_)
    R.floor("R-C01-9", n, 3, "history members of the initial-step rules")


def run(ctx):
    R = ctx.report
    tus = ctx.all_tus() if ctx.thorough else sorted(set(TUS) | set(c02.SOLVER_TUS))
    F = ctx.facts(tus)
    fns = [f for f in F.functions.values() if not f.relfile.startswith("/")]
    rule_flag(F, R)
    rule_criterion(F, R)
    c02.rule_done_and_status(F, R, fns)
    ls = [f for f in fns if f.cls in {c for c, _ in LS_SOLVERS}]
    c02.rule_returned_state(F, R, ls, floor=4)
    rule_descent(F, R)
    rule_lbfgs(F, R)
    rule_secant(F, R)
    rule_lsearch0_history(ctx.facts(tus + ["src/lsearch0/quadratic.cpp", "src/lsearch0/linear.cpp"]) if not ctx.thorough else F, R)
    nn = rule_noalias(F, R)
    R.ok("R-C01-8", "noalias sites", "src/solver:1", "%d in-place product assignments inspected in the solvers" % nn)
