"""C15 - serialisation round-trips; truncated / corrupted streams are rejected (DESIGN 3, C15)."""
import re

from ..cfg import must_dataflow
from ..facts import AnalysisBroken, walk, strip_targs
from ..pp import pp, skip, canon_text as CT
from ..util import (args, assignment, callee, incdec, is_call, is_literal, obj, ref_decl, strip_not, literal_value,
                    find_var, root_of)

META = {
    "level": "other",
    "technique": "reader/writer sequence agreement (sibling rule), member coverage, checked-read and stream-count taint rules, dominance on the tensor header",
    "explanation": "Decides: for every class with read/write and every free read/write pair, the ordered sequence of stream "
                   "operations agrees between reader and writer in length, base-class delegation, target member and wire type "
                   "(including the per-alternative tag and field order of parameter_t); every data member of a serialisable class "
                   "is written and read; no result of a stream read is discarded outside the primitive helpers; a count or size "
                   "passed to a raw pointer read is never a value that came from the stream; in the tensor reader version, rank "
                   "and scalar size are compared with their expected values and the failure edge sets failbit and returns before "
                   "resize, and the payload hash is compared before success; model readers return only after throwing checks.",
    "not_decided": "bit-identical predictions of the re-read object (values), behaviour of the standard stream classes",
    "assumptions": ["std::istream::read sets failbit on short reads and failbit is sticky"],
}

QUICK_TUS = ["witness/stream_inst.cpp", "src/parameter.cpp", "src/configurable.cpp", "src/feature.cpp", "src/learner.cpp", "src/linear.cpp",
             "src/gboost/model.cpp", "src/wlearner/single.cpp", "src/wlearner/stump.cpp", "src/wlearner/hinge.cpp",
             "src/wlearner/table.cpp", "src/wlearner/dtree.cpp", "src/wlearner.cpp", "src/wlearner/affine.cpp"]

IO_READ = {"nano::read", "nano::read_cast"}
IO_WRITE = {"nano::write", "nano::write_cast"}
GLOBAL_ALIASES = {"nano::major_version": "m_major_version", "nano::minor_version": "m_minor_version",
                  "nano::patch_version": "m_patch_version"}
# members deliberately not serialised (one line of reason each)
COVERAGE_ALLOW = {
    ("nano::configurable_t", "write", "m_major_version"): "the writer stamps the running library's version constant",
    ("nano::configurable_t", "write", "m_minor_version"): "the writer stamps the running library's version constant",
    ("nano::configurable_t", "write", "m_patch_version"): "the writer stamps the running library's version constant",
}


def norm_type(t):
    t = (t or "").replace("const ", "").replace(" &", "").replace("&", "").strip()
    t = t.replace("std::basic_string_view<char>", "std::string").replace("std::basic_string<char>", "std::string")
    return t


def first_field(n):
    """name of the first data member (of this or of a parameter object) mentioned in the expression"""
    for x in walk(n):
        if x["k"] == "mem" and x.get("fd"):
            return x["n"]
        if x["k"] == "ref" and x.get("dk") == "gvar" and x["n"] in GLOBAL_ALIASES:
            return GLOBAL_ALIASES[x["n"]]
    return None


def peel_casts(n):
    n = skip(n)
    while n is not None and n["k"] == "cast":
        n = skip(n["c"][0])
    return n


def is_base_io(f, n, name):
    """X::read(stream) / X::write(stream) on this, X another class"""
    if n["k"] != "call" or n.get("ck") != "mem":
        return False
    q = callee(n)
    if q.split("::")[-1] != name or not n.get("c") or skip(n["c"][0])["k"] != "this":
        return False
    return q.rsplit("::", 1)[0] != f.cls


def ordered_nodes(F, f, seen=None):
    """pre-order nodes of f, descending into lambda bodies where the lambda appears"""
    seen = seen or set()
    for n in walk(f.body):
        yield f, n
        if n["k"] == "lambda":
            for g in F.by_lid.get(n.get("lid"), [])[:1]:
                if g.key not in seen:
                    seen.add(g.key)
                    yield from ordered_nodes(F, g, seen)


def local_to_field(f, d):
    """field assigned from local d later in the function (m_type = from_string<...>(type))"""
    for x in walk(f.body):
        a = assignment(x)
        if a and any(y["k"] == "ref" and y.get("d") == d for y in walk(a[1])):
            l = skip(a[0])
            if l["k"] == "mem" and l.get("fd"):
                return l["n"]
    return None


def tokens(F, f, mode):
    """ordered list of (kind, field, wire, where, count) for a reader ('read') or writer ('write')"""
    out = []
    io = IO_READ if mode == "read" else IO_WRITE
    for g, n in ordered_nodes(F, f):
        if n["k"] != "call":
            continue
        if is_base_io(g, n, mode):
            out.append(("base", callee(n).rsplit("::", 1)[0], None, g.loc(n), None))
            continue
        q = callee(n)
        if q not in io:
            continue
        a = args(n)
        if len(a) < 2:
            continue
        val = a[1]
        count = pp(a[2]) if len(a) >= 3 else None
        if mode == "write":
            wire = norm_type(skip(val).get("t"))
            if q == "nano::write_cast":
                wire = norm_type(n["targs"][0]) + "[]"
            elif count is not None:
                wire = wire.replace(" *", "").replace("*", "") + "[]"
            field = first_field(val)
        else:
            inner = skip(val)
            wire = norm_type(inner.get("t"))
            if q == "nano::read_cast":
                wire = norm_type(n["targs"][0])
                if count is not None:
                    wire += "[]"
            elif count is not None:
                wire = wire.replace(" *", "").replace("*", "") + "[]"
            field = first_field(val)
            if field is None:
                d = ref_decl(val)
                if d is not None:
                    field = local_to_field(g, d)
        many = wire.endswith("[]") or g is not f
        if not many:
            for anc in g.ancestors(n):
                if anc["k"] in ("for", "rangefor", "while", "do"):
                    many = True
        wire = (wire[:-2] if wire.endswith("[]") else wire) + ("[]" if many else "")
        out.append(("io", field, wire, g.loc(n), count))
    return out


CANON = {"int32_t": "int", "uint32_t": "unsigned int", "int64_t": "long", "uint64_t": "unsigned long", "uint8_t": "unsigned char",
         "int8_t": "signed char", "int16_t": "short", "uint16_t": "unsigned short", "size_t": "unsigned long"}


def canon(t):
    if t is None:
        return None
    b = t[:-2] if t.endswith("[]") else t
    b = CANON.get(b, b)
    return b + ("[]" if t.endswith("[]") else "")


def compare_sequences(R, rule, inst, where, rd, wr):
    if len(rd) != len(wr):
        R.bad(rule, inst, where, "reader performs %d stream operations, writer %d: reader %s / writer %s" % (
            len(rd), len(wr), [(t[0], t[1], t[2]) for t in rd], [(t[0], t[1], t[2]) for t in wr]))
        return False
    for i, (a, b) in enumerate(zip(rd, wr)):
        if a[0] != b[0]:
            R.bad(rule, inst, a[3], "operation #%d: reader does %s, writer does %s" % (i, a[0], b[0]))
            return False
        if a[0] == "base":
            if a[1] != b[1]:
                R.bad(rule, inst, a[3], "operation #%d: reader delegates to %s, writer to %s" % (i, a[1], b[1]))
                return False
            continue
        if a[1] is not None and b[1] is not None and a[1] != b[1]:
            R.bad(rule, inst, a[3], "operation #%d: reader fills %s where the writer stored %s (%s)" % (i, a[1], b[1], b[3]))
            return False
        if canon(a[2]) != canon(b[2]):
            R.bad(rule, inst, a[3], "operation #%d (%s): reader expects wire type %s, writer emits %s (%s)" % (
                i, a[1] or b[1], a[2], b[2], b[3]))
            return False
    R.ok(rule, inst, where, "reader and writer agree on %d operations: %s" % (len(rd), [(t[1], canon(t[2])) if t[0] == "io" else ("base", t[1]) for t in wr]))
    return True


def must_written_members(F, f, cls, depth=0, memo=None):
    """data members of `cls` assigned (or cleared / moved into) on every path through f, following calls of the class's own member functions
    on *this"""
    from ..cfg import must_dataflow
    memo = {} if memo is None else memo
    if f.key in memo:
        return memo[f.key]
    memo[f.key] = set()
    if f.body is None or depth > 4 or not f.cfg.blocks:
        return set()

    def telem(facts, e):
        n_ = e.node if e.kind == "node" else None
        if n_ is None:
            return
        a_ = assignment(n_)
        if a_:
            l = skip(a_[0])
            if l["k"] == "mem" and (not l.get("c") or skip(l["c"][0])["k"] == "this") and a_[2] == "=":
                facts.add(l["n"])
            return
        if n_["k"] == "call":
            if n_.get("ck") == "op" and n_.get("op") == "=" and n_.get("c"):
                l = skip(n_["c"][0])
                if l["k"] == "mem" and (not l.get("c") or skip(l["c"][0])["k"] == "this"):
                    facts.add(l["n"])
                return
            if n_.get("ck") == "mem" and n_.get("c") and callee(n_).split("::")[-1] in ("clear", "assign") and skip(n_["c"][0])["k"] == "mem" and \
                    (not skip(n_["c"][0]).get("c") or skip(skip(n_["c"][0])["c"][0])["k"] == "this"):
                facts.add(skip(n_["c"][0])["n"])
                return
            if n_.get("ck") == "mem" and n_.get("c") and skip(n_["c"][0])["k"] == "this":
                for g in F.functions.values():
                    if g.qn == callee(n_) and g.cls == cls and g.body is not None and len(g.params) == len(args(n_)) and not g.is_const:
                        facts.update(must_written_members(F, g, cls, depth + 1, memo))
                        break
    IN, before = must_dataflow(f.cfg, set(), telem)
    outs = []
    for b in f.cfg.blocks:
        if IN[b] is None or [s_ for s_ in f.cfg.blocks[b].succ if s_ >= 0]:
            continue
        outs.append(set(before(b, 10 ** 9)))
    res = set.intersection(*outs) if outs else set()
    memo[f.key] = res
    return res


def rule_class_pairs(F, R, thorough):
    classes = {}
    for f in F.functions.values():
        if f.cls and f.name in ("read", "write") and len(f.params) == 1 and not f.is_lambda and not f.relfile.startswith("/"):
            pt = f.params[0]["t"]
            if (f.name == "read" and "istream" in pt) or (f.name == "write" and "ostream" in pt):
                classes.setdefault(f.cls, {})[f.name] = f
    n = 0
    for cls, d in sorted(classes.items()):
        if "read" not in d or "write" not in d:
            continue
        if cls == "nano::parameter_t":
            continue
        n += 1
        rd, wr = tokens(F, d["read"], "read"), tokens(F, d["write"], "write")
        compare_sequences(R, "R-C15-1", "class " + cls, d["read"].loc(), rd, wr)
        # R-C15-2 coverage
        cl = F.cls(cls)
        if not cl:
            R.incomplete("R-C15-2", "class " + cls, d["read"].loc(), "class definition not found")
            continue
        fields = [fl["n"] for fl in cl[0]["fields"]]
        restored = must_written_members(F, d["read"], cls)
        for mode, toks in (("read", rd), ("write", wr)):
            got = {t[1] for t in toks if t[0] == "io"}
            if mode == "read":
                got |= restored        # members (re)built on *every* path of read(), also through the class's own member functions
            missing = [x for x in fields if x not in got and (cls, mode, x) not in COVERAGE_ALLOW]
            R.check(not missing, "R-C15-2", "class %s %s" % (cls, mode), d[mode].loc(),
                    "every data member %s is %s" % (fields, "read" if mode == "read" else "written"),
                    "data member(s) %s of %s are not %s (configuration lost on a round trip)" % (
                        missing, cls, "restored by read() on every path (a member the reader fills on some paths only keeps what the destination object held before)"
                        if mode == "read" else "stored by write()"))
        # R-C15-5 the reader returns the stream only after its throwing checks
        f = d["read"]
        rets = [x for x in f.nodes() if x["k"] == "return"]
        crit = [c for c in f.calls(lambda x: callee(x) == "nano::critical")]
        ios = [c for c in f.calls(lambda x: callee(x) in IO_READ)]
        ok = len(rets) == 1 and bool(crit) and all(any(y is c for y in walk(args(k)[0])) for c in ios for k in crit if any(y is c for y in walk(k))) \
            and all(any(any(y is c for y in walk(args(k)[0])) for k in crit) for c in ios)
        if ok:
            ok = all(f.cfg.dominates(f.cfg.where_enclosing(k), f.cfg.where_enclosing(rets[0])) for k in crit)
        R.check(ok, "R-C15-5", "class %s read" % cls, f.loc(), "every stream read is inside a throwing check that dominates the return",
                "reader of %s can return success without having checked a read" % cls)
    R.floor("R-C15-1/classes", n, 10, "classes with read+write")


def rule_free_pairs(F, R):
    reads, writes = {}, {}
    for f in F.functions.values():
        if f.cls or f.is_lambda or len(f.params) != 2:
            continue
        if f.qn == "nano::read" and "istream" in f.params[0]["t"]:
            reads.setdefault(norm_type(f.params[1]["t"]), f)
        if f.qn == "nano::write" and "ostream" in f.params[0]["t"]:
            writes.setdefault(norm_type(f.params[1]["t"]), f)
    n = 0
    for t, rf in sorted(reads.items()):
        wf = writes.get(t)
        if wf is None:
            continue
        body_calls_member = any(is_call(x, name=("read",)) and x.get("ck") == "mem" and skip(x["c"][0])["k"] == "ref" for x in walk(rf.body))
        if rf.line == 150 and body_calls_member:
            pass
        rd, wr = tokens(F, rf, "read"), tokens(F, wf, "write")
        if not rd and not wr:
            continue      # primitive or forwarding overload (object.read(stream))
        n += 1
        compare_sequences(R, "R-C15-1", "free pair " + t[:90], rf.loc(), rd, wr)
    R.floor("R-C15-1/free", n, 6, "free read/write pairs")
    # primitive scalar / array helpers: same byte count expression
    prim_r = [f for f in F.fn("nano::read") if f.relfile == "include/nano/core/stream.h" and any(is_call(x, "std::basic_istream::read") for x in walk(f.body))]
    prim_w = [f for f in F.fn("nano::write") if f.relfile == "include/nano/core/stream.h" and any(is_call(x, "std::basic_ostream::write") for x in walk(f.body))]
    def sig(f, callee_name):
        c = [x for x in walk(f.body) if is_call(x, callee_name)][0]
        return re.sub(r"sizeof=\d+", "sizeof", pp(args(c)[1])), len(f.params)
    rs = {sig(f, "std::basic_istream::read") for f in prim_r}
    ws = {sig(f, "std::basic_ostream::write") for f in prim_w}
    R.check(rs == ws and len(rs) >= 2, "R-C15-1", "primitive byte counts", "include/nano/core/stream.h:1",
            "scalar and array primitives read exactly the byte counts they write: %s" % sorted(rs), "primitive readers %s vs writers %s" % (sorted(rs), sorted(ws)))


def rule_parameter(F, R):
    """R-C15-1 for parameter_t: tag <-> alternative and per-alternative field order"""
    wr = F.one("nano::parameter_t::write", "src/parameter.cpp")
    rd = F.one("nano::parameter_t::read", "src/parameter.cpp")
    fns = F.in_file("src/parameter.cpp")
    # writer: alternative type -> (tag, [fields])
    wmap = {}
    for lam, body in F.lambdas_in(wr):
        if not body.params:
            continue
        alt = norm_type(body.params[0]["t"])
        tag, seq = None, []
        for n in walk(body.body):
            if n["k"] == "var" and n["n"] == "type" and n.get("c"):
                tag = literal_value(n["c"][0])
            if n["k"] == "call" and callee(n).endswith("::write") and not callee(n).startswith("nano::") and len(args(n)) == 4:
                tag = literal_value(args(n)[2])
                helper = F.resolve(n)
                if helper:
                    seq = [t for t in tokens(F, helper[0], "write")]
        if not seq:
            seq = tokens(F, body, "write")
        wmap[alt] = (tag, [(t[1], canon(t[2])) for t in seq])
    # reader: case label -> alternative + fields (through the aggregate initialiser order)
    sw = [n for n in rd.nodes() if n["k"] == "switch"]
    if len(sw) != 1:
        R.incomplete("R-C15-1", "parameter_t", rd.loc(), "expected one switch over the type tag")
        return
    prefix = [t for t in tokens(F, rd, "read")][:2]
    rmap = {}
    cur = None
    body = sw[0]["c"][1]

    def class_fields(tname):
        for c in F.classes.values():
            if norm_type(c["key"]) == tname or norm_type(c["qn"]) == tname:
                return [fl["n"] for fl in c["fields"]]
        return None

    def case_nodes(n):
        """flatten `case K: stmt` chains"""
        for ch in n.get("c", ()):
            if ch is None:
                continue
            if ch["k"] in ("case", "default"):
                yield ch
                sub = ch["c"][-1]
                while sub is not None and sub["k"] in ("case", "default"):
                    yield sub
                    sub = sub["c"][-1]
            else:
                yield ch

    label = None
    cases = {}
    for ch in case_nodes(body):
        if ch["k"] == "case":
            label = literal_value(ch["c"][0])
            cases[label] = [ch["c"][-1]]
        elif ch["k"] == "default":
            label = "default"
            cases[label] = [ch["c"][-1]]
        elif label is not None:
            cases[label].append(ch)
    for label, stmts in cases.items():
        if label == "default":
            continue
        alt, seq = None, []
        for s in stmts:
            for n in walk(s):
                a = assignment(n)
                if a and pp(a[0]) == "m_storage":
                    rhs = skip(a[1])
                    while rhs["k"] in ("construct", "cast") and len(rhs.get("c", ())) == 1:
                        rhs = skip(rhs["c"][0])
                    if rhs["k"] == "call" and callee(rhs).endswith("::read") and not callee(rhs).startswith("nano::"):
                        helper = F.resolve(rhs)
                        if helper:
                            h = helper[0]
                            alt = norm_type(h.params[2]["t"])
                            reads = tokens(F, h, "read")
                            # map locals to fields through the returned aggregate
                            ret = [x for x in h.nodes() if x["k"] == "return"][0]
                            agg = skip(ret["c"][0])
                            while agg["k"] in ("construct", "cast") and len(agg.get("c", ())) == 1:
                                agg = skip(agg["c"][0])
                            fields = class_fields(alt)
                            pos = {}
                            if fields and agg["k"] == "initlist":
                                for i, el in enumerate(agg["c"]):
                                    for y in walk(el):
                                        if y["k"] == "ref" and y.get("dk") == "var":
                                            pos[y["d"]] = fields[i] if i < len(fields) else "?"
                            io_calls = [x for x in walk(h.body) if x["k"] == "call" and callee(x) in IO_READ]
                            seq = []
                            for c, t in zip(io_calls, reads):
                                d = ref_decl(args(c)[1])
                                seq.append((pos.get(d), canon(t[2])))
                    else:
                        alt = norm_type(rhs.get("t"))
                        while rhs["k"] in ("construct", "cast") and len(rhs.get("c", ())) == 1:
                            rhs = skip(rhs["c"][0])
                        fields = class_fields(alt)
                        pos = {}
                        if rhs["k"] == "initlist" and fields:
                            for i, el in enumerate(rhs["c"]):
                                for y in walk(el):
                                    if y["k"] == "ref" and y.get("dk") == "var":
                                        pos[y["d"]] = fields[i] if i < len(fields) else "?"
                        elif rhs["k"] == "ref":
                            pos[rhs["d"]] = None
                        for ss in stmts:
                            for c in walk(ss):
                                if c["k"] == "call" and callee(c) in IO_READ:
                                    d = ref_decl(args(c)[1])
                                    seq.append((pos.get(d), canon(norm_type(skip(args(c)[1]).get("t")))))
        rmap[label] = (alt, seq)
    n = 0
    for alt, (tag, wseq) in sorted(wmap.items(), key=lambda kv: str(kv[1][0])):
        inst = "parameter_t alternative %s tag %s" % (alt.replace("nano::parameter_t::", ""), tag)
        n += 1
        if tag not in rmap:
            R.bad("R-C15-1", inst, wr.loc(), "writer emits tag %s for %s but the reader has no such case" % (tag, alt))
            continue
        ralt, rseq = rmap[tag]
        if (ralt or "std::monostate") != alt and not (alt == "std::monostate" and ralt in (None, "nano::parameter_t::storage_t", "std::variant")) \
                and not (ralt is not None and ralt.startswith("std::variant") and alt == "std::monostate"):
            R.bad("R-C15-1", inst, rd.loc(), "tag %s is written for %s but read back as %s" % (tag, alt, ralt))
            continue
        body = wseq[2:]            # after (tag, name)
        named = sum(1 for a in rseq if a[0] is not None)
        if alt.startswith("nano::parameter_t::") and named != len(rseq):
            R.incomplete("R-C15-1", inst, rd.loc(), "cannot map the values read for %s to its fields: %s" % (alt, rseq))
            continue
        okseq = len(body) == len(rseq) and all((a[0] is None or b[0] is None or a[0] == b[0]) and a[1] == b[1] for a, b in zip(rseq, body))
        R.check(okseq and [t[1] for t in wseq[:2]] == ["int", "std::string"], "R-C15-1", inst, wr.loc(),
                "tag %s: reader restores %s in the order written" % (tag, body), "tag %s: writer emits %s, reader consumes %s" % (tag, wseq, rseq))
    R.floor("R-C15-1/parameter", n, 7, "parameter alternatives")
    R.check([canon(t[2]) for t in prefix] == ["int", "std::string"], "R-C15-1", "parameter_t header", rd.loc(),
            "reader starts with (tag:int32, name:string)", "reader header is %s" % [(t[1], t[2]) for t in prefix])


def rule_checked_reads(F, R, fns):
    """R-C15-3: results of stream reads are never discarded outside the primitive helpers; raw counts are not stream-defined"""
    PRIMITIVE_OK = {"nano::read_cast", }   # loops whose callers test the (sticky) stream state
    nsites = ncount = 0
    for f in fns:
        for n in f.calls(lambda x: callee(x) in IO_READ):
            nsites += 1
            par = f.parent_of(n)
            discarded = par is not None and par["k"] in ("block", "for", "rangefor", "while", "if", "do") and not (
                par["k"] in ("if", "while", "for", "do") and par.get("r") and par["c"][par["r"].index("cond")] is n)
            inst = "%s read@%s" % (f.qn, f.loc(n))
            if discarded:
                helper = f.qn in PRIMITIVE_OK or (f.qn == "nano::read" and f.relfile == "include/nano/core/stream.h" and
                                                  norm_type(f.params[1]["t"]) == "std::string")
                R.check(helper, "R-C15-3", inst, f.loc(n), "unchecked read inside a primitive helper whose callers test the sticky stream state",
                        "result of a stream read is discarded: a truncated stream goes unnoticed (%s)" % pp(n))
            else:
                R.ok("R-C15-3", inst, f.loc(n), "read result is tested", nontrivial=True)
            # raw pointer reads: the count must not come from the stream
            a = args(n)
            if len(a) >= 3:
                ncount += 1
                stream_defined = set()
                for m in f.calls(lambda x: callee(x) in IO_READ):
                    am = args(m)
                    if len(am) >= 2:
                        d = ref_decl(am[1])
                        if d is not None:
                            stream_defined.add(d)
                used = {y["d"] for y in walk(a[2]) if y["k"] == "ref" and y.get("dk") in ("var", "parm", "bind")}
                tainted = used & stream_defined
                # follow simple const locals
                for d in list(used):
                    var, _ = find_var(f, d)
                    if var is not None and var.get("c"):
                        tainted |= {y["d"] for y in walk(var["c"][0]) if y["k"] == "ref" and y.get("d") in stream_defined}
                if tainted:
                    # a stream-defined count is fine when the destination buffer was just sized with that very count: X.resize(n); read(stream, X.data(), n)
                    dst = skip(a[1])
                    while dst is not None and dst["k"] == "cast":
                        dst = skip(dst["c"][0])
                    if dst is not None and dst["k"] == "call" and callee(dst).split("::")[-1] == "data" and not args(dst):
                        owner_txt = pp(obj(dst))
                        sized = [c for c in f.calls(lambda c: callee(c).split("::")[-1] == "resize" and pp(obj(c)) == owner_txt and len(args(c)) == 1 and pp(args(c)[0]) == pp(a[2]))]
                        cfg = f.cfg
                        wn = cfg.where_enclosing(n)
                        if any((lambda ws: ws is not None and wn is not None and (cfg.dominates(ws, wn) or (ws[0] == wn[0] and ws[1] < wn[1])))(cfg.where_enclosing(c)) for c in sized):
                            tainted = set()
                R.check(not tainted, "R-C15-3", inst + " count", f.loc(n), "element count of the raw read (%s) is not taken from the stream (or the buffer was sized with it)" % pp(a[2]),
                        "raw read into %s uses a count read from the stream itself (%s): a corrupted header overruns the buffer" % (pp(a[1]), pp(a[2])))
    R.floor("R-C15-3", nsites, 30, "stream read call sites")
    R.floor("R-C15-3/counts", ncount, 2, "raw pointer reads")
    # container sizes read from the stream are used only after the read was tested
    for f in fns:
        if f.qn != "nano::read" or f.relfile != "include/nano/core/stream.h":
            continue
        for n in f.calls(lambda x: callee(x).split("::")[-1] == "resize"):
            a = args(n)
            d = ref_decl(a[0]) if a else None
            if d is None:
                continue
            # the read defining d must be a branch condition whose failure edge returns before the resize
            ok = False
            for b in f.cfg.blocks.values():
                if b.cond is None:
                    continue
                inner, neg = strip_not(b.cond)
                while inner is not None and inner["k"] == "call" and callee(inner).split("::")[-1].startswith("operator"):
                    inner = skip(inner["c"][0])
                if inner is not None and inner["k"] == "call" and callee(inner) in IO_READ and ref_decl(args(inner)[1]) == d:
                    good_succ = b.succ[1] if neg else b.succ[0]
                    w = f.cfg.where_enclosing(n)
                    ok = w is not None and good_succ in f.cfg.dom[w[0]]
            R.check(ok, "R-C15-3", "%s resize@%s" % (f.key[:80], f.loc(n)), f.loc(n), "container is sized only on the success edge of the read of its size",
                    "container resized with a size whose read was not checked")


def rule_tensor_header(F, R):
    """R-C15-4"""
    rds = [f for f in F.fn("nano::read") if f.relfile == "include/nano/tensor/stream.h"]
    wrs = [f for f in F.fn("nano::write") if f.relfile == "include/nano/tensor/stream.h"]
    R.floor("R-C15-4", len(rds), 2, "tensor reader instantiations")
    if not rds or not wrs:
        raise AnalysisBroken("tensor stream functions not instantiated")
    done = set()
    for f in rds:
        inst = "tensor read %s" % ",".join(f.raw.get("targs", [])[1:])
        cfg = f.cfg
        resize = [c for c in f.calls(lambda x: callee(x).split("::")[-1] == "resize")]
        if len(resize) != 1:
            R.incomplete("R-C15-4", inst, f.loc(), "expected one resize")
            continue
        rw = cfg.where_enclosing(resize[0])
        # every header local must be compared on a path condition whose failing edge does not reach resize
        header = {}
        for n in f.nodes():
            if n["k"] == "var" and n["n"] in ("iversion", "irank", "iscalar", "ihash"):
                header[n["n"]] = n["d"]
        if set(header) != {"iversion", "irank", "iscalar", "ihash"}:
            # locals renamed: fall back to "every integer local read from the stream"
            header = {}
            for c in f.calls(lambda x: callee(x) in IO_READ):
                d = ref_decl(args(c)[1])
                if d is not None:
                    var, _ = find_var(f, d)
                    header[var["n"]] = d
        compared = {}
        for b in cfg.blocks.values():
            if b.cond is None or len(b.succ) != 2:
                continue
            c = skip(b.cond)
            if c["k"] == "bin" and c["op"] in ("!=", "=="):
                for name, d in header.items():
                    if any(y["k"] == "ref" and y.get("d") == d for y in walk(c)):
                        fail = b.succ[0] if c["op"] == "!=" else b.succ[1]
                        okk = b.succ[1] if c["op"] == "!=" else b.succ[0]
                        compared[name] = (b, fail, okk, pp(c))
        want = {"iversion": "hash_version()", "irank": "trank", "iscalar": "sizeof"}
        names = list(header)
        for name in names:
            if name not in compared:
                R.bad("R-C15-4", inst + " " + name, f.loc(), "header field %s is read but never compared with its expected value" % name)
                continue
            b, fail, okk, text = compared[name]
            is_hash = "hash" in text and "hash_version" not in text
            if is_hash:
                # hash comparison: the failure edge must set failbit before the function exits
                sets = any(is_call(e.node, name="setstate") for e in cfg.blocks[fail].elems if e.kind == "node")
                R.check(sets, "R-C15-4", inst + " " + name, f.loc(b.cond), "payload hash mismatch sets failbit", "hash mismatch does not set failbit: " + text)
                continue
            # failing edge must not reach resize and must set failbit
            reach, st = set(), [fail]
            while st:
                x = st.pop()
                if x in reach:
                    continue
                reach.add(x)
                st.extend(s for s in cfg.blocks[x].succ if s >= 0)
            sets = any(is_call(e.node, name="setstate") for bb in reach for e in cfg.blocks[bb].elems if e.kind == "node" and bb == fail)
            R.check(rw[0] not in reach and sets, "R-C15-4", inst + " " + name, f.loc(b.cond),
                    "%s mismatch sets failbit and returns before resize (%s)" % (name, text),
                    "%s mismatch can still reach tensor.resize / does not set failbit (%s)" % (name, text))
        # payload read checked and hash compared after it
        payload = [c for c in f.calls(lambda x: callee(x) in IO_READ and len(args(x)) == 3 and "data()" in pp(args(x)[1]) and ".data()" in pp(args(x)[1]) and "dims" not in pp(args(x)[1]))]
        okp = len(payload) == 1 and cfg.dominates(rw, cfg.where_enclosing(payload[0])) and pp(args(payload[0])[2]).endswith(".size()")
        R.check(okp, "R-C15-4", inst + " payload", f.loc(), "payload of tensor.size() elements is read after the checked resize", "payload read is not sized by the resized tensor")
    # writer/reader header fields agree (free pair rule covers sequence); here: same set of header constants
    for f in wrs[:1]:
        toks = tokens(F, f, "write")
        R.check(len(toks) == 6, "R-C15-4", "tensor writer fields", f.loc(), "writer emits version, rank, dims, scalar size, hash, payload",
                "writer emits %d fields" % len(toks))


def rule_version(F, R):
    f = F.one("nano::configurable_t::read", "src/configurable.cpp")
    crit = [c for c in f.calls(lambda x: callee(x) == "nano::critical")]
    ver = [c for c in crit if any(y["k"] == "bin" and y["op"] in ("<", ">") and pp(y) == CT("(m_major_version > nano::major_version)") for y in walk(args(c)[0]))]
    par = [c for c in crit if "m_parameters" in pp(args(c)[0])]
    ok = len(ver) == 1 and len(par) == 1 and f.cfg.dominates(f.cfg.where_enclosing(ver[0]), f.cfg.where_enclosing(par[0]))
    R.check(ok, "R-C15-5", "configurable version gate", f.loc(), "version comparison dominates reading the parameters", "parameters are read before / without the version check")


SIZEOF = {"bool": 1, "char": 1, "signed char": 1, "unsigned char": 1, "short": 2, "unsigned short": 2, "int": 4, "unsigned int": 4, "long": 8, "unsigned long": 8,
          "long long": 8, "unsigned long long": 8, "float": 4, "double": 8}


def rule_hash_coverage(F, R):
    """R-C15-6: the content hash that protects tensor payloads covers every byte of every element"""
    fs = [f for f in F.functions.values() if f.qn == "nano::detail::hash" and len(f.params) == 2 and f.relfile == "include/nano/core/hash.h"]
    R.floor("R-C15-6", len(fs), 2, "detail::hash instantiations")

    def size_of(t):
        return SIZEOF.get((t or "").replace("const ", "").replace("&", "").replace("*", "").strip())
    for f in sorted(fs, key=lambda f: f.key):
        tsc = (f.params[0].get("t") or "").replace("const ", "").replace("*", "").strip()
        S = size_of(tsc)
        inst = "hash<%s>" % tsc
        if S is None:
            R.incomplete("R-C15-6", inst, f.loc(), "unknown element type")
            continue
        dn, sn = f.params[0]["n"], f.params[1]["n"]
        loops = [x for x in f.nodes() if x["k"] == "for"]
        okl = len(loops) == 1
        iv = None
        if okl:
            lp = loops[0]
            ivs = [v for v in walk(lp["c"][lp["r"].index("init")]) if v["k"] == "var"]
            iv = ivs[0]["n"] if ivs else None
            okl = iv is not None and pp(lp["c"][lp["r"].index("cond")]) == "(%s < %s)" % (iv, sn) and pp(lp["c"][lp["r"].index("inc")]) in ("(++%s)" % iv, "(%s++)" % iv) and \
                literal_value(ivs[0]["c"][0]) == 0
        R.check(bool(okl), "R-C15-6", inst + " range", f.loc(), "every element 0..size-1 is hashed", "the hash loop does not visit every element")
        hc = [c for c in f.calls(lambda c: callee(c) == "nano::detail::hash_combine")]
        if len(hc) != 1:
            R.incomplete("R-C15-6", inst, f.loc(), "expected one hash_combine per element")
            continue
        x = args(hc[0])[1]
        covered, how = None, ""
        n = skip(x)
        while n is not None and n["k"] == "cast" and not n.get("ex"):
            n = skip(n["c"][0])
        elem = "%s[%s]" % (dn, iv)
        if n is not None and n["k"] == "cast" and n.get("ck") == "LValueBitCast" and pp(n["c"][0]) == elem:
            covered, how = size_of(n.get("t")), "reinterpreted as %s" % n.get("t")
        elif n is not None and n["k"] == "cast" and n.get("ex") and pp(n["c"][0]) == elem and size_of(n.get("t")) is not None and size_of(tsc) is not None and tsc not in ("float", "double"):
            covered, how = min(size_of(n.get("t")), S) if size_of(n.get("t")) >= S else size_of(n.get("t")), "converted to %s" % n.get("t")
        elif n is not None and n["k"] == "ref" and n.get("dk") == "var":
            v, _ = find_var(f, n["d"])
            def addr_of(z):
                z = skip(z)
                while z is not None and z["k"] == "cast":
                    z = skip(z["c"][0])
                if z is not None and z["k"] == "un" and z["op"] == "&":
                    return skip(z["c"][0])
                return None
            mc = [c for c in f.calls(lambda c: callee(c) in ("memcpy", "std::memcpy")) if v is not None and (addr_of(args(c)[0]) or {}).get("d") == v["d"]]
            if v is not None and len(mc) == 1:
                a = args(mc[0])
                cnt = skip(a[2])
                while cnt is not None and cnt["k"] == "cast":
                    cnt = skip(cnt["c"][0])
                nbytes = cnt.get("cv") if cnt is not None and cnt["k"] == "traits" else literal_value(cnt) if cnt is not None else None
                src = addr_of(a[1])
                src_ok = src is not None and pp(src) == elem
                if src_ok and nbytes is not None and size_of(v.get("t")) is not None:
                    covered, how = min(int(nbytes), size_of(v.get("t"))), "memcpy of %s bytes into a %s" % (nbytes, v.get("t"))
        if covered is None:
            R.incomplete("R-C15-6", inst, f.loc(hc[0]), "cannot tell how many bytes of an element reach hash_combine: %s" % pp(x)[:60])
            continue
        R.check(covered == S, "R-C15-6", inst, f.loc(hc[0]), "all %d bytes of an element reach the hash (%s)" % (S, how),
                "only %d of the %d bytes of a %s element reach the content hash (%s): alterations of the remaining payload bytes go undetected" % (covered, S, tsc, how))


def rule_overwrite(F, R):
    """R-C15-7: a reader leaves nothing of the destination's previous contents behind: on every path to a return that is not a failed-read
    exit, a string / vector destination has been resized (or assigned) from the stream"""
    from ..cfg import must_dataflow
    n = 0
    for f in sorted(F.functions.values(), key=lambda f: f.key):
        if f.qn != "nano::read" or f.relfile != "include/nano/core/stream.h" or len(f.params) != 2 or f.body is None:
            continue
        t = norm_type(f.params[1]["t"])
        if not (t == "std::string" or t.startswith("std::vector") or t.startswith("std::basic_string")):
            continue
        n += 1
        out = f.params[1]
        cfg = f.cfg

        def telem(facts, e, out=out):
            if e.kind != "node":
                return
            x = e.node
            if x["k"] == "call" and x.get("ck") == "mem" and callee(x).split("::")[-1] in ("resize", "assign", "clear") and ref_decl(obj(x)) == out["d"]:
                facts.add("set")
            a = assignment(x)
            if a and ref_decl(a[0]) == out["d"] and a[2] == "=":
                facts.add("set")
        IN, before = must_dataflow(cfg, set(), telem)
        bad = []
        for r in [x for x in f.nodes() if x["k"] == "return"]:
            # failure exits: inside `if (!read(...))`
            fail = False
            for anc in f.ancestors(r):
                if anc["k"] == "if":
                    c, neg = strip_not(anc["c"][anc["r"].index("cond")])
                    c = skip(c)
                    if neg and c is not None and c["k"] == "call" and callee(c) in IO_READ and any(y is r for y in walk(anc["c"][anc["r"].index("then")])):
                        fail = True
            if fail:
                continue
            w = cfg.where_enclosing(r)
            facts = before(*w) if w else None
            if facts is None or "set" not in facts:
                bad.append(f.loc(r))
        inst = "read(%s)@%s" % (t[:30], f.loc())
        R.check(not bad, "R-C15-7", inst, f.loc(), "the destination is re-sized from the stream on every successful path",
                "a successful return (%s) can be reached without re-sizing the destination: an empty serialized value leaves the previous contents in place, "
                "the object read is not the object written" % ", ".join(bad))
    R.floor("R-C15-7", n, 2, "string / vector readers")


def rule_nonnull_deref(F, R, fns):
    """R-C15-8: a reader never dereferences an owning pointer it has not made non-null on that path. In every function that reads from a stream,
    for each std::unique_ptr that is a non-const reference parameter or a local: must-analysis of "is non-null" over the CFG (established by a
    null test's success edge or an assignment from make_unique / clone; lost at any other assignment, reset, move or by-reference escape);
    at every `*p` / `p->` the fact holds. A container reader resizes its vector first, so the elements it hands down are null pointers: a path
    that skips the factory lookup (a failed read of the type id, say) crashes instead of reporting failure."""
    from ..cfg import must_dataflow
    nsites = 0
    for f in fns:
        if f.body is None or f.cfg is None:
            continue
        if not any(True for _ in f.calls(lambda x: callee(x) in IO_READ)) and not (f.qn.split("::")[-1] == "read"):
            continue
        tracked = {}
        for p_ in f.params:
            t = p_.get("t") or ""
            if "std::unique_ptr<" in t and t.rstrip().endswith("&") and not t.startswith("const "):
                tracked[p_["d"]] = p_.get("n")
        for v in f.nodes():
            if v["k"] == "var" and "std::unique_ptr<" in (v.get("t") or "") and not v.get("isref"):
                tracked[v["d"]] = v.get("n")
        if not tracked:
            continue
        derefs = [c for c in f.calls(lambda x: x.get("ck") == "op" and x.get("op") in ("*", "->") and x.get("cls") == "std::unique_ptr" and x.get("c") and
                                     ref_decl(x["c"][0]) in tracked)]
        if not derefs:
            continue

        def t_elem(facts, e):
            if e.kind != "node" or e.node is None:
                return None
            n = e.node
            if n["k"] == "var" and n.get("d") in tracked:
                init = skip(n["c"][0]) if n.get("c") else None
                facts.discard(n["d"])
                if init is not None and any(x["k"] == "call" and callee(x).split("::")[-1].split("<")[0] in ("make_unique", "clone") for x in walk(init)):
                    facts.add(n["d"])
                return None
            if n["k"] != "call":
                return None
            if n.get("ck") == "op" and n.get("op") == "=" and n.get("cls") == "std::unique_ptr" and ref_decl(n["c"][0]) in tracked:
                d = ref_decl(n["c"][0])
                rhs = skip(n["c"][1])
                facts.discard(d)
                if rhs is not None and rhs["k"] == "call" and callee(rhs).split("::")[-1].split("<")[0] in ("make_unique", "clone"):
                    facts.add(d)
                return None
            if n.get("ck") == "mem" and n.get("cls") == "std::unique_ptr" and callee(n).split("::")[-1] in ("reset", "release", "swap") and ref_decl(obj(n)) in tracked:
                facts.discard(ref_decl(obj(n)))
                return None
            for i_, a_ in enumerate(args(n)):
                d = ref_decl(a_)
                if d in tracked and n.get("pk", "")[i_:i_ + 1] in ("r", "p", "m") and not (n.get("ck") == "op" and n.get("cls") == "std::unique_ptr"):
                    facts.discard(d)
            if callee(n) == "std::move" and args(n) and ref_decl(args(n)[0]) in tracked:
                facts.discard(ref_decl(args(n)[0]))
            return None

        def t_edge(facts, b, k):
            if b.cond is None or len(b.succ) != 2:
                return None
            inner, neg = strip_not(b.cond)
            d = None
            if inner is not None:
                x = skip(inner)
                if x["k"] == "call" and callee(x).endswith("operator bool") and x.get("c"):
                    d = ref_decl(x["c"][0])
                elif x["k"] == "ref":
                    d = x.get("d")
                elif x["k"] in ("bin", "call") and x.get("op") in ("!=", "==") and len(x.get("c", ())) == 2 and \
                        any("nullptr" in pp(c_) or (skip(c_) or {}).get("k") in ("nullptr", "null") for c_ in x["c"]):
                    for c_ in x["c"]:
                        if ref_decl(c_) in tracked:
                            d = ref_decl(c_)
                    if x["op"] == "==":
                        neg = not neg
            if d in tracked and (k == 0) != bool(neg):
                facts.add(d)
            return None

        IN, before = must_dataflow(f.cfg, set(), t_elem, t_edge)
        seen_lines = set()
        for c in derefs:
            d = ref_decl(c["c"][0])
            w = f.cfg.where_enclosing(c)
            facts = before(*w) if w is not None else None
            if facts is None:
                continue
            nsites += 1
            ok = d in facts
            if ok and (f.relfile, c["l"]) in seen_lines:
                continue
            seen_lines.add((f.relfile, c["l"]))
            R.check(ok, "R-C15-8", "%s %s@%s" % (f.qn, pp(c)[:30], f.loc(c)), f.loc(c),
                    "`%s` is dereferenced only where it is known to be non-null" % tracked[d],
                    "`%s` may be reached with `%s` null (on a path that skips the assignment / the null test - a failed read of the type id, for one): the container "
                    "reader has just resized its vector, so the element is a null pointer and a truncated stream crashes the reader instead of being reported" % (pp(c)[:40], tracked[d]))
    R.floor("R-C15-8", nsites, 1, "dereferences of owning pointers in readers")


def run(ctx):
    R = ctx.report
    tus = sorted(set(ctx.all_tus()) | {"witness/stream_inst.cpp"}) if ctx.thorough else QUICK_TUS
    F = ctx.facts(tus)
    fns = [f for f in F.functions.values() if not f.relfile.startswith("/")]
    rule_class_pairs(F, R, ctx.thorough)
    rule_free_pairs(F, R)
    rule_parameter(F, R)
    rule_checked_reads(F, R, fns)
    rule_tensor_header(F, R)
    rule_version(F, R)
    rule_hash_coverage(F, R)
    rule_overwrite(F, R)
    rule_nonnull_deref(F, R, fns)
