"""C10 - weak learners fit residuals optimally in their class, predict consistently (DESIGN 3, C10)."""
import re
import sympy as sp

from ..cfg import must_dataflow
from ..facts import AnalysisBroken, walk, strip_targs
from ..pp import pp, skip, canon_text as CT
from ..util import args, assignment, callee, is_call, obj, ref_decl, find_var, root_of, member_path, writes_in, unwrap_view, strip_not, literal_value
from .. import kalg
from ..kalg import OutOfFragment, sym

META = {
    "level": "other",
    "technique": "expression algebra (sympy) of the fitting formulas against the explicit sum of squares built from the accumulator's own update "
                 "statements; co-update, predicate/table-index agreement, accumulate-only, missing-value guards, sortedness typestate of the "
                 "hash arrays searched by binary search, merge-compatibility (selector members compared before tables are added)",
    "explanation": "Decides the per-candidate correctness on which optimality rests: with the moments exactly as accumulator_t::update builds "
                   "them, the scored expressions of stump, hinge, affine and table learners ARE the residual sum of squares of the model each "
                   "learner later predicts (sum over samples of (g + prediction)^2), and the stored coefficients are stationary points of it "
                   "(least squares); each improvement guard updates score, feature, threshold/hinge/hashes and tables together and the best "
                   "cache is committed member by member; the predicate selecting a table in do_predict is the one used in do_split and matches the "
                   "side the coefficients were fitted on; predictions are only ever added to the outputs; samples with a missing feature value "
                   "never reach the prediction/assignment operators; scaling multiplies every table; hash arrays looked up with "
                   "std::lower_bound are sorted wherever they are produced; merging adds tables only after every member that selects the "
                   "table (feature, hashes, hash-to-table map) compared equal.",
    "not_decided": "global optimality over all features and thresholds (the sweep visits every mid-point by construction, ties and numerical "
                   "conditioning are not analysed), the AIC/BIC criteria, decision-tree recursion, k-split clustering optimality",
    "assumptions": ["std::sort / std::set / std::lower_bound behave as specified"],
}

TUS = ["src/wlearner/stump.cpp", "src/wlearner/hinge.cpp", "src/wlearner/affine.cpp", "src/wlearner/table.cpp", "src/wlearner/single.cpp",
       "src/wlearner/util.cpp", "src/wlearner/accumulator.cpp", "src/wlearner/dtree.cpp", "src/wlearner.cpp", "src/dataset/hash.cpp"]

MOMENTS = ("x0", "x1", "x2", "r1", "rx", "r2")


# ---------------------------------------------------------------------------------------------- formula evaluation
class Ev:
    """evaluates cache_t formula methods to sympy over moment symbols `<acc>_<moment>`"""

    def __init__(self, F, file, overrides=None):
        self.F, self.file = F, file
        self.overrides = dict(overrides or {})      # method name -> sympy (treated as free symbol)
        self.depth = 0

    def functions(self, name, nparams, cls_suffix=None):
        out = []
        for f in self.F.functions.values():
            if f.relfile == self.file and f.name == name and len(f.params) == nparams and not f.is_lambda:
                if cls_suffix is None or (f.cls or "").endswith(cls_suffix):
                    out.append(f)
        return out

    def handlers(self):
        ev = self
        names = set(MOMENTS)
        for f in self.F.functions.values():
            if (f.relfile == self.file and (f.cls or "").endswith("cache_t")) or f.cls == "nano::wlearner::accumulator_t":
                names.add(f.name)

        def mk(name):
            def h(cv, o, a):
                o0 = skip(o)
                if name in ev.overrides and not a:
                    return ev.overrides[name]
                vals_ = [cv.conv(x) for x in a]
                if name in MOMENTS and (o0["k"] == "mem" or not ev.functions(name, len(a), "cache_t")):
                    if o0["k"] == "mem":
                        tag = o0["n"].replace("m_acc_", "")
                    elif o0["k"] in ("this", "ref"):
                        tag = "acc"
                    else:
                        raise OutOfFragment("moment accessor on " + pp(o0))
                    b_ = vals_[0] if vals_ else sp.Integer(0)
                    return sym("%s_%s_%s" % (tag, name, b_))
                cands = ev.functions(name, len(a), "cache_t")
                if not cands:
                    # helpers inherited from the accumulator (rss_zero, rss_constant, fit_constant)
                    cands = [f for f in ev.F.functions.values() if f.qn == "nano::wlearner::accumulator_t::" + name and len(f.params) == len(a) and f.is_const]
                if cands and o0["k"] in ("this", "ref"):
                    return ev.conv(cands[0], vals_)
                raise OutOfFragment("member call %s" % name)
            return h
        methods = {nm: mk(nm) for nm in names}
        funcs = {}
        for f in self.F.functions.values():
            if f.relfile == self.file and f.qn.startswith("(anonymous namespace)::") and not f.cls and not f.is_lambda:
                def fn(*a_, qn=f.qn):
                    cands = [h for h in ev.F.functions.values() if h.qn == qn and h.relfile == ev.file and len(h.params) == len(a_)]
                    if not cands:
                        raise OutOfFragment("no overload of %s with %d parameters" % (qn, len(a_)))
                    return ev.conv(cands[0], list(a_))
                funcs[f.qn] = fn
        return funcs, methods

    def conv(self, g, vals):
        self.depth += 1
        if self.depth > 12:
            self.depth -= 1
            raise OutOfFragment("formula recursion too deep")
        try:
            funcs, methods = self.handlers()
            subst = {p["d"]: v for p, v in zip(g.params, vals)}
            cv = kalg.Conv(g, scalar=True, subst=subst, funcs=funcs, methods=methods)
            rets = [x for x in g.nodes() if x["k"] == "return" and x.get("c")]
            if len(rets) != 1:
                raise OutOfFragment("%s has %d returns" % (g.qn, len(rets)))
            return cv.conv(rets[0]["c"][0])
        finally:
            self.depth -= 1

    def expr(self, g, node, extra_subst=None):
        """evaluate an expression node of function g"""
        funcs, methods = self.handlers()
        cv = kalg.Conv(g, scalar=True, subst=dict(extra_subst or {}), funcs=funcs, methods=methods)
        return cv.conv(node)


def moment_model(F, R):
    """sign and power of each moment increment, read from accumulator_t::update; returns dict moment -> sympy term in (g, v)"""
    g, v = sym("g"), sym("v")
    model = {}
    ups = [f for f in F.functions.values() if f.qn == "nano::wlearner::accumulator_t::update"]
    if not ups:
        raise AnalysisBroken("accumulator_t::update instantiations not found")
    seen = set()
    for f in ups:
        if len(f.params) in seen:
            continue
        seen.add(len(f.params))
        names = [p["n"] for p in f.params]
        for x in f.nodes():
            a = assignment(x)
            if not a or a[2] not in ("+=", "-="):
                continue
            lhs = skip(a[0])
            nm = callee(lhs).split("::")[-1] if lhs["k"] == "call" else None
            if nm not in MOMENTS:
                continue
            cv = kalg.Conv(f, scalar=True, subst={p["d"]: (g if p["n"] == "vgrad" else v if p["n"] == "value" else sym(p["n"])) for p in f.params})
            term = cv.conv(a[1])
            model[nm] = term if a[2] == "+=" else -term
        if len(f.params) == 3:
            fw = [c for c in f.calls(lambda c: callee(c) == "nano::wlearner::accumulator_t::update")]
            R.check(len(fw) == 1 and [pp(z) for z in args(fw[0])] == ["vgrad", "bin"], "R-C10-1", "accumulator update chaining", f.loc(),
                    "the (value, gradient) update also performs the gradient-only update on the same bin", "update(value, vgrad, bin) no longer forwards (vgrad, bin)")
    want = {"x0": sp.Integer(1), "x1": v, "x2": v ** 2, "r1": -g, "rx": -g * v, "r2": g ** 2}
    for nm in MOMENTS:
        ok = nm in model and sp.simplify(model[nm] - want[nm]) == 0
        R.check(ok, "R-C10-1", "moment " + nm, ups[0].loc(), "%s accumulates %s per sample" % (nm, want[nm]), "%s accumulates %s per sample instead of %s: the scored expressions are no longer the residual sum of squares" % (nm, model.get(nm), want[nm]))
    return model


def moments_of(tag, samples, b=0):
    """moment symbols -> explicit sums over symbolic samples [(g, v)]"""
    d = {}
    d[sym("%s_x0_%s" % (tag, b))] = sp.Integer(len(samples))
    d[sym("%s_x1_%s" % (tag, b))] = sum(v for g, v in samples)
    d[sym("%s_x2_%s" % (tag, b))] = sum(v ** 2 for g, v in samples)
    d[sym("%s_r1_%s" % (tag, b))] = sum(-g for g, v in samples)
    d[sym("%s_rx_%s" % (tag, b))] = sum(-g * v for g, v in samples)
    d[sym("%s_r2_%s" % (tag, b))] = sum(g ** 2 for g, v in samples)
    return d


def is0(e, R):
    z, w = kalg.is_zero(sp.simplify(sp.together(e)), R.seed)
    return bool(z), w


def rule_formulas(F, R):
    moment_model(F, R)
    S = [(sym("g1"), sym("v1")), (sym("g2"), sym("v2")), (sym("g3"), sym("v3"))]
    NEG, POS = S[:2], S[2:]
    # ---- stump
    file = "src/wlearner/stump.cpp"
    ev = Ev(F, file)
    try:
        sc = ev.functions("score", 3, "cache_t")[0]
        rss_var = [v for v in sc.nodes() if v["k"] == "var" and v["n"] == "rss" and v.get("c")]
        rss = ev.expr(sc, rss_var[0]["c"][0], {p["d"]: sym(p["n"]) for p in sc.params})
        sub = {}
        sub.update(moments_of("neg", NEG))
        sub.update(moments_of("sum", S))
        o_neg = ev.conv(ev.functions("output_neg", 0, "cache_t")[0], []).subs(sub)
        o_pos = ev.conv(ev.functions("output_pos", 0, "cache_t")[0], []).subs(sub)
        direct = sum((g + o_neg) ** 2 for g, v in NEG) + sum((g + o_pos) ** 2 for g, v in POS) + sym("missing_rss")
        z, w = is0(rss.subs(sub) - direct, R)
        R.check(z, "R-C10-1", "stump score", sc.loc(), "scored value = sum over both sides of (g + output_side)^2 + missing", "stump score is not the RSS of the fitted stump: " + w)
        # least squares: outputs are the side means of -g
        on, op_ = sym("on"), sym("op")
        gen = sum((g + on) ** 2 for g, v in NEG) + sum((g + op_) ** 2 for g, v in POS)
        z1, w1 = is0(sp.diff(gen, on).subs(on, o_neg), R)
        z2, w2 = is0(sp.diff(gen, op_).subs(op_, o_pos), R)
        R.check(z1 and z2, "R-C10-1", "stump outputs", sc.loc(), "output_neg/output_pos minimise the RSS of their side", "stump outputs are not the least-squares constants: %s %s" % (w1, w2))
    except (OutOfFragment, IndexError) as e:
        R.incomplete("R-C10-1", "stump score", file + ":1", "cannot evaluate: %s" % e)
    # ---- hinge
    file = "src/wlearner/hinge.cpp"
    ev = Ev(F, file)
    try:
        t = sym("threshold")
        sub = {}
        sub.update(moments_of("neg", NEG))
        sub.update(moments_of("sum", S))
        b0 = [f for f in ev.functions("beta0", 0, "cache_t")]
        ctor = [f for f in F.functions.values() if f.relfile == file and f.raw.get("ctor") and (f.cls or "").endswith("cache_t")]
        zeroed = any(pp(c) == "m_beta0.zero()" for f in ctor for c in f.calls())
        writers = [pp(site)[:40] for f in F.functions.values() if f.relfile == file and not f.raw.get("ctor") for tgt, kind, site in writes_in(f, f.body) if "m_beta0" in pp(tgt) and kind != "nonconst-call"] if True else []
        R.check(zeroed and not writers, "R-C10-1", "hinge zero side", file + ":1", "the inactive side predicts zero (m_beta0 is zeroed once and never written)", "m_beta0 is not a constant zero: %s" % writers[:2])
        ev0 = Ev(F, file, overrides={"beta0": sp.Integer(0)})
        for side, fit, zero_side in (("neg", NEG, POS), ("pos", POS, NEG)):
            f1 = [f for f in ev0.functions("score_" + side, 1, "cache_t")][0]
            val = ev0.conv(f1, [t]).subs(sub)
            beta = ev0.conv(ev0.functions("beta_" + side, 1, "cache_t")[0], [t]).subs(sub)
            direct = sum((g + beta * (v - t)) ** 2 for g, v in fit) + sum(g ** 2 for g, v in zero_side)
            z, w = is0(val - direct, R)
            R.check(z, "R-C10-1", "hinge score_" + side, f1.loc(), "scored value = sum (g + beta*(x - t))^2 on the active side + sum g^2 on the other", "hinge score_%s is not the RSS of the fitted hinge: %s" % (side, w))
            bs = sym("bs")
            gen = sum((g + bs * (v - t)) ** 2 for g, v in fit)
            z, w = is0(sp.diff(gen, bs).subs(bs, beta), R)
            R.check(z, "R-C10-1", "hinge beta_" + side, f1.loc(), "beta minimises the RSS of the active side", "hinge beta_%s is not the least-squares slope: %s" % (side, w))
            # criterion overload adds the missing RSS
            f4 = [f for f in ev0.functions("score_" + side, 4, "cache_t")][0]
            rv = [v for v in f4.nodes() if v["k"] == "var" and v["n"] == "rss" and v.get("c")]
            okr = len(rv) == 1 and bool(kalg.compare_expr(f4, rv[0]["c"][0], "s + m", atoms={"score_%s(threshold)" % side: "s", "missing_rss": "m"}, seed=R.seed)[0])
            R.check(okr, "R-C10-1", "hinge rss_" + side, f4.loc(), "rss = score_%s(threshold) + missing_rss" % side, "rss of the %s hinge is %s" % (side, pp(rv[0]["c"][0]) if rv else "?"))
    except (OutOfFragment, IndexError) as e:
        R.incomplete("R-C10-1", "hinge score", file + ":1", "cannot evaluate: %s" % e)
    # ---- affine
    file = "src/wlearner/affine.cpp"
    try:
        W, B = sym("W"), sym("B")
        evs = Ev(F, file, overrides={"w": W, "b": B})
        ev = Ev(F, file)
        sub = moments_of("acc", S, 0)
        rss = evs.conv(evs.functions("rss_affine", 0, "cache_t")[0], []).subs(sub)
        direct = sum((g + W * v + B) ** 2 for g, v in S)
        z, w = is0(rss - direct, R)
        fa = ev.functions("rss_affine", 0, "cache_t")[0]
        R.check(z, "R-C10-1", "affine rss", fa.loc(), "rss_affine = sum (g + w*x + b)^2", "affine rss is not the RSS of w*x + b: " + w)
        wv = ev.conv(ev.functions("w", 0, "cache_t")[0], []).subs(sub)
        bv = ev.conv(ev.functions("b", 0, "cache_t")[0], []).subs(sub)
        z1, w1 = is0(sp.diff(direct, W).subs({W: wv, B: bv}), R)
        z2, w2 = is0(sp.diff(direct, B).subs({W: wv, B: bv}), R)
        R.check(z1 and z2, "R-C10-1", "affine coefficients", fa.loc(), "(w, b) is the least-squares solution", "affine (w, b) is not the least-squares solution: %s %s" % (w1, w2))
        scf = ev.functions("score", 1, "cache_t")[0]
        rv = [v for v in scf.nodes() if v["k"] == "var" and v["n"] == "rss" and v.get("c")]
        if len(rv) != 1:
            raise OutOfFragment("the scored rss of the affine learner was not found")
        # total = RSS of the model the learner predicts: w*x + b on present values (bin 0), zero on missing ones (bin 1)
        MISS = [(sym("h1"), sym("u1")), (sym("h2"), sym("u2"))]
        sub2 = dict(moments_of("acc", S, 0))
        sub2.update(moments_of("acc", MISS, 1))
        tot = evs.expr(scf, rv[0]["c"][0]).subs(sub2)
        direct2 = sum((g + W * v + B) ** 2 for g, v in S) + sum(g ** 2 for g, v in MISS)
        z, w = is0(tot - direct2, R)
        R.check(z, "R-C10-1", "affine rss total", scf.loc(rv[0]), "scored rss = sum_present (g + w x + b)^2 + sum_missing g^2 (missing values are predicted as zero)",
                "the affine score is not the RSS of what the learner predicts (w*x + b on present values, 0 on missing ones): %s" % w)
    except (OutOfFragment, IndexError) as e:
        R.incomplete("R-C10-1", "affine", file + ":1", "cannot evaluate: %s" % e)
    # ---- tables
    file = "src/wlearner/table.cpp"
    try:
        ev = Ev(F, file)
        b = sym("bin")
        scf = ev.functions("score", 1, "cache_t")[0]
        val = ev.conv(scf, [b])
        sub = moments_of("acc", S, b)
        o = sym("o")
        gen = sum((g + o) ** 2 for g, v in S)
        best = (-sum(g for g, v in S)) / len(S)
        z, w = is0(val.subs(sub) - gen.subs(o, best), R)
        R.check(z, "R-C10-1", "table bin score", scf.loc(), "score(bin) = RSS of the bin at its mean", "table score(bin) is not the RSS at the fitted constant: " + w)
        n = 0
        for f in F.functions.values():
            if f.relfile == file and (f.cls or "").endswith("cache_t") and f.name in ("score_dense", "score_kbest"):
                for x in f.nodes():
                    a = assignment(x)
                    if a and a[2] == "=" and pp(a[0]).startswith("m_tables.array("):
                        n += 1
                        okt = bool(kalg.compare_expr(f, a[1], "r / x", atoms={"r1(bin)": "r", "x0(bin)": "x"}, seed=R.seed)[0])
                        R.check(okt, "R-C10-1", "%s table" % f.name, f.loc(x), "table = r1(bin) / x0(bin) (the bin's least-squares constant)", "table coefficient is %s" % pp(a[1]))
        R.floor("R-C10-1/tables", n, 2, "table coefficient assignments")
    except (OutOfFragment, IndexError) as e:
        R.incomplete("R-C10-1", "table", file + ":1", "cannot evaluate: %s" % e)


# ---------------------------------------------------------------------------------------------- co-update
GROUPS = {
    "src/wlearner/stump.cpp": {"m_score", "m_feature", "m_threshold", "m_tables"},
    "src/wlearner/hinge.cpp": {"m_score", "m_feature", "m_threshold", "m_hinge", "m_tables"},
    "src/wlearner/affine.cpp": {"m_score", "m_feature", "m_tables"},
    "src/wlearner/table.cpp": {"m_score", "m_feature", "m_hashes", "m_hash2tables", "m_tables"},
}


def rule_coupdate(F, R):
    n = 0
    for file, group in sorted(GROUPS.items()):
        for f in F.in_file(file):
            for x in f.nodes():
                if x["k"] != "if":
                    continue
                cond = pp(x["c"][x["r"].index("cond")])
                m = re.search(r"\(isfinite\((\w+)\) && \(\1 < (?:cache\.)?m_score\)\)", cond)
                if not m:
                    continue
                n += 1
                then = x["c"][x["r"].index("then")]
                written = set()
                for y in walk(then):
                    a = assignment(y)
                    if a:
                        t = pp(a[0]).replace("cache.", "")
                        for gname in group:
                            if t == gname or t.startswith(gname + ".") or t.startswith(gname + "("):
                                written.add(gname)
                    if y["k"] == "call" and y.get("ck") == "mem" and callee(y).split("::")[-1] == "resize":
                        pass
                inst = "%s@%s" % (f.name if not f.is_lambda else "fit-lambda", f.loc(x))
                sc = [y for y in walk(then) if assignment(y) and pp(assignment(y)[0]).replace("cache.", "") == "m_score"]
                oks = len(sc) == 1 and pp(assignment(sc[0])[1]) == m.group(1)
                missing = sorted(group - written)
                R.check(not missing and oks, "R-C10-2", inst, f.loc(x), "score, feature and all fitted parameters are replaced together",
                        "an improved candidate does not replace %s: the stored learner mixes parameters of different candidates" % (missing or "m_score with the compared score"))
    R.floor("R-C10-2", n, 7, "improvement guards")
    # commit of the best cache
    for cls, file, members in (("nano::stump_wlearner_t", "src/wlearner/stump.cpp", {"m_threshold": "best.m_threshold"}),
                               ("nano::hinge_wlearner_t", "src/wlearner/hinge.cpp", {"m_threshold": "best.m_threshold", "m_hinge": "best.m_hinge"}),
                               ("nano::affine_wlearner_t", "src/wlearner/affine.cpp", {})):
        f = F.one(cls + "::do_fit", file)
        sets = [c for c in f.calls(lambda c: callee(c) == "nano::single_feature_wlearner_t::set")]
        ok = len(sets) == 1 and [pp(a) for a in args(sets[0])] == ["best.m_feature", "best.m_tables"]
        for mname, src in members.items():
            asg = [x for x in f.nodes() if assignment(x) and pp(assignment(x)[0]) == mname]
            ok = ok and len(asg) == 1 and pp(assignment(asg[0])[1]) == src
        bv = [v for v in f.nodes() if v["k"] == "var" and v["n"] == "best" and v.get("c")]
        ok = ok and len(bv) == 1 and re.fullmatch(r"min_reduce(<.*>)?\(caches\)", pp(bv[0]["c"][0])) is not None
        rets = [x for x in f.nodes() if x["k"] == "return"]
        ok = ok and all(pp(r["c"][0]) == "best.m_score" for r in rets)
        R.check(ok, "R-C10-2", cls.split("::")[-1] + " commit", f.loc(), "every fitted member of the best per-thread cache is committed and its score returned", "the best candidate is not committed member by member")
    f = F.one("nano::table_wlearner_t::set", "src/wlearner/table.cpp")
    sets = [c for c in f.calls(lambda c: callee(c) == "nano::single_feature_wlearner_t::set")]
    ok = len(sets) == 1 and [pp(a) for a in args(sets[0])] == ["cache.m_feature", "cache.m_tables"]
    for mname in ("m_hashes", "m_hash2tables"):
        asg = [x for x in f.nodes() if assignment(x) and pp(assignment(x)[0]) == mname]
        ok = ok and len(asg) == 1 and pp(assignment(asg[0])[1]) == "cache." + mname
    R.check(ok, "R-C10-2", "table commit", f.loc(), "feature, tables, hashes and hash2tables are committed from the same cache", "table learner commit mixes members")
    # min_reduce picks the smallest score
    mr = [g for g in F.functions.values() if g.qn == "nano::min_reduce"]
    for g in mr[:1]:
        me = [c for c in g.calls(lambda c: callee(c) == "std::min_element")]
        cmp_ = [pp(r["c"][0]) for _, h in F.lambdas_in(g) for r in h.nodes() if r["k"] == "return" and r.get("c")]
        rets = [pp(r["c"][0]) for r in g.nodes() if r["k"] == "return" and r.get("c")]
        ok = len(me) == 1 and [pp(a) for a in args(me[0])[:2]] == ["accumulators.begin()", "accumulators.end()"] and \
            any(re.fullmatch(r"\((\w+)\.m_score < (\w+)\.m_score\)", c) for c in cmp_) and rets == ["(*it)"]
        R.check(ok, "R-C10-2", "min_reduce", g.loc(), "selects the cache with the smallest score", "min_reduce no longer orders by m_score")
    R.floor("R-C10-2/min_reduce", len(mr), 1, "min_reduce instantiations")


# ---------------------------------------------------------------------------------------------- predicate agreement
def lambdas_of(F, f):
    return [g for _, g in F.lambdas_in(f)]


def rule_predicates(F, R):
    # stump
    fit = [g for g in F.in_file("src/wlearner/stump.cpp") if g.is_lambda and len(g.params) == 3]
    pred = F.one("nano::stump_wlearner_t::do_predict", "src/wlearner/stump.cpp")
    split = F.one("nano::stump_wlearner_t::split", "src/wlearner/stump.cpp")
    lo = [v for v in pred.nodes() if v["k"] == "var" and v["n"] == "lo" and v.get("c")]
    hi = [v for v in pred.nodes() if v["k"] == "var" and v["n"] == "hi" and v.get("c")]
    pl = lambdas_of(F, pred)
    sl = lambdas_of(F, split)
    okp = len(lo) == 1 and len(hi) == 1 and pp(lo[0]["c"][0]) == "vector(0)" and pp(hi[0]["c"][0]) == "vector(1)" and len(pl) == 1 and \
        any(assignment(x) and pp(assignment(x)[1]).replace(" ", "") in ("((value<m_threshold)?lo:hi)",) for x in pl[0].nodes())
    R.check(okp, "R-C10-3", "stump predict", pred.loc(), "value < threshold selects table 0 (fitted on the lower side), otherwise table 1", "stump prediction no longer pairs `value < threshold` with table 0")
    oks = len(sl) == 1 and any(pp(c).replace(" ", "") == "cluster.assign(samples(i),((value<threshold)?0:1))" for c in sl[0].calls())
    R.check(oks, "R-C10-3", "stump split", split.loc(), "split() uses the same predicate and table index as predict", "stump split no longer uses `value < threshold ? 0 : 1`")
    ds = F.one("nano::stump_wlearner_t::do_split", "src/wlearner/stump.cpp")
    R.check(any(pp(c) == "split(dataset, samples, feature(), m_threshold)" for c in ds.calls()), "R-C10-3", "stump do_split", ds.loc(), "splits on the fitted feature and threshold", "do_split does not pass (feature(), m_threshold)")
    okf = False
    if fit:
        g = fit[0]
        up = [c for c in g.calls(lambda c: pp(c).startswith("cache.m_acc_neg.update("))]
        guards = [x for x in g.nodes() if x["k"] == "if" and pp(x["c"][x["r"].index("cond")]) == "(ivalue1.first < ivalue2.first)"]
        loose = [x for x in g.nodes() if x["k"] == "if" and pp(x["c"][x["r"].index("cond")]) in ("(ivalue1.first <= ivalue2.first)", "(ivalue1.first != ivalue2.first)") or
                 (x["k"] == "if" and "ivalue1.first" in pp(x["c"][x["r"].index("cond")]) and "ivalue2.first" in pp(x["c"][x["r"].index("cond")]) and
                  pp(x["c"][x["r"].index("cond")]) != "(ivalue1.first < ivalue2.first)")]
        if loose and not guards:
            R.bad("R-C10-3", "stump candidate thresholds", g.loc(loose[0]),
                  "a threshold is scored under `%s` instead of `ivalue1.first < ivalue2.first`: for the sorted values this also holds inside a group of equal values, where "
                  "the mid-point is the value itself and `value < threshold` sends the whole group to one side - the scored partition is not one any threshold produces, the "
                  "reported RSS can lie below the class minimum and the predictions above it" % pp(loose[0]["c"][loose[0]["r"].index("cond")]))
        thr = [x for x in g.nodes() if assignment(x) and pp(assignment(x)[0]) == "cache.m_threshold"]
        t0 = [x for x in g.nodes() if assignment(x) and pp(assignment(x)[0]) == "cache.m_tables.array(0)"]
        t1 = [x for x in g.nodes() if assignment(x) and pp(assignment(x)[0]) == "cache.m_tables.array(1)"]
        okf = len(up) == 1 and "ivalue1.second" in pp(up[0]) and len(guards) == 1 and len(thr) == 1 and _is_midpoint(g, assignment(thr[0])[1], R) and \
            len(t0) == 1 and pp(assignment(t0[0])[1]) == "cache.output_neg()" and len(t1) == 1 and pp(assignment(t1[0])[1]) == "cache.output_pos()"
        # the update of the lower side precedes the scoring in the same iteration
        if okf:
            cfg = g.cfg
            wu, wg = cfg.where_enclosing(up[0]), cfg.where_enclosing(guards[0]["c"][guards[0]["r"].index("cond")])
            okf = wu is not None and wg is not None and (cfg.dominates(wu, wg) or (wu[0] == wg[0] and wu[1] < wg[1]))
    R.check(okf, "R-C10-3", "stump sweep", fit[0].loc() if fit else "src/wlearner/stump.cpp:1", "sorted sweep: the lower side holds all values <= v_i, the threshold is the mid-point of distinct neighbours, table 0/1 = lower/upper mean",
            "the stump sweep no longer pairs (lower side, mid-point threshold, table 0) consistently")
    # hinge
    hp = F.one("nano::hinge_wlearner_t::do_predict", "src/wlearner/hinge.cpp")
    hs = F.one("nano::hinge_wlearner_t::do_split", "src/wlearner/hinge.cpp")
    sw = [x for x in hp.nodes() if x["k"] == "switch"]
    conds = []
    for g in lambdas_of(F, hp):
        ifs = [x for x in g.nodes() if x["k"] == "if"]
        conds.append(pp(ifs[0]["c"][ifs[0]["r"].index("cond")]) if ifs else None)
        okb = any(assignment(x) and pp(assignment(x)[1]) == "((w * value) + b)" and assignment(x)[2] == "+=" for x in g.nodes())
        R.check(okb, "R-C10-3", "hinge predict value@%s" % g.loc(), g.loc(), "prediction = w*value + b", "hinge prediction formula changed")
    okh = len(sw) == 1 and pp(sw[0]["c"][0]).endswith("m_hinge") and conds == ["(value < m_threshold)", CT("(value >= m_threshold)")]
    cases = [x for x in hp.nodes() if x["k"] == "case"]
    okh = okh and len(cases) == 1 and "left" in pp(cases[0]["c"][0])
    R.check(okh, "R-C10-3", "hinge predict", hp.loc(), "left hinge acts on value < threshold, right hinge on value >= threshold", "hinge prediction sides changed: %s" % conds)
    sconds = []
    for g in lambdas_of(F, hs):
        ifs = [x for x in g.nodes() if x["k"] == "if"]
        sconds.append(pp(ifs[0]["c"][ifs[0]["r"].index("cond")]).replace("nano::", "") if ifs else None)
    want = CT("(((m_hinge == hinge_type::left) && (value < m_threshold)) || ((m_hinge == hinge_type::right) && (value >= m_threshold)))")
    R.check(sconds == [want], "R-C10-3", "hinge split", hs.loc(), "split assigns exactly the samples the prediction acts on", "hinge split predicate differs from the prediction predicate: %s" % sconds)
    hf = [g for g in F.in_file("src/wlearner/hinge.cpp") if g.is_lambda and len(g.params) == 3]
    okf = False
    if hf:
        g = hf[0]
        sides = []
        for x in g.nodes():
            if x["k"] != "if":
                continue
            c = pp(x["c"][x["r"].index("cond")])
            m = re.match(r"\(isfinite\(score_(neg|pos)\) && \(score_\1 < cache\.m_score\)\)", c)
            if m:
                then = x["c"][x["r"].index("then")]
                asg = {pp(assignment(y)[0]): pp(assignment(y)[1]).replace("nano::", "") for y in walk(then) if assignment(y)}
                side = m.group(1)
                sides.append(asg.get("cache.m_hinge") == ("hinge_type::left" if side == "neg" else "hinge_type::right") and
                             asg.get("cache.m_tables.array(0)") == "cache.beta_%s(threshold)" % side and
                             asg.get("cache.m_tables.array(1)") == CT("((-threshold) * cache.m_tables.array(0))") and asg.get("cache.m_threshold") == "threshold")
        thr = [v for v in g.nodes() if v["k"] == "var" and v["n"] == "threshold" and v.get("c")]
        okf = sides == [True, True] and len(thr) == 1 and _is_midpoint(g, thr[0]["c"][0], R)
    R.check(okf, "R-C10-3", "hinge sweep", hf[0].loc() if hf else "src/wlearner/hinge.cpp:1", "left hinge <-> lower side slope, right hinge <-> upper side slope, intercept = -threshold*slope",
            "the hinge sweep no longer stores (side, slope, intercept) consistently")
    # affine
    ap = F.one("nano::affine_wlearner_t::do_predict", "src/wlearner/affine.cpp")
    wv = [v for v in ap.nodes() if v["k"] == "var" and v["n"] in ("w", "b") and v.get("c")]
    oka = sorted(pp(v["c"][0]) for v in wv) == ["vector(0)", "vector(1)"] and [pp(v["c"][0]) for v in wv if v["n"] == "w"] == ["vector(0)"]
    oka = oka and any(any(assignment(x) and pp(assignment(x)[1]) == "((w * value) + b)" for x in g.nodes()) for g in lambdas_of(F, ap))
    fitl = [g for g in F.in_file("src/wlearner/affine.cpp") if g.is_lambda and len(g.params) == 3]
    if fitl:
        asg = {pp(assignment(y)[0]): pp(assignment(y)[1]) for y in fitl[0].nodes() if assignment(y)}
        oka = oka and asg.get("cache.m_tables.array(0)") == "cache.w()" and asg.get("cache.m_tables.array(1)") == "cache.b()"
    R.check(oka and bool(fitl), "R-C10-3", "affine tables", ap.loc(), "table 0 = w, table 1 = b in fit and predict", "affine tables are not used as (w, b)")
    # tables: predict and split share process() with the same selector arguments
    tp = F.one("nano::table_wlearner_t::do_predict", "src/wlearner/table.cpp")
    ts = F.one("nano::table_wlearner_t::do_split", "src/wlearner/table.cpp")
    a1 = [[pp(a) for a in args(c)[:5]] for c in tp.calls(lambda c: callee(c).endswith("::process"))]
    a2 = [[pp(a) for a in args(c)[:5]] for c in ts.calls(lambda c: callee(c).endswith("::process"))]
    want = [["dataset", "samples", "feature()", "m_hashes", "m_hash2tables"]]
    R.check(a1 == want and a2 == want, "R-C10-3", "table predict/split", tp.loc(), "prediction and split look the sample's value up through the same (feature, hashes, hash2tables)", "table predict/split selectors differ: %s vs %s" % (a1, a2))
    pl = lambdas_of(F, tp)
    sl = lambdas_of(F, ts)
    okl = any(any(assignment(x) and pp(assignment(x)[1]) == "vector(table)" for x in g.nodes()) for g in pl) and any(any(pp(c) == "cluster.assign(samples(i), table)" for c in g.calls()) for g in sl)
    R.check(okl, "R-C10-3", "table index", tp.loc(), "the looked-up table index selects the coefficients added and the group assigned", "table index is not used consistently in predict and split")
    # process(): hash lookup then hash2tables
    n = 0
    for g in F.in_file("src/wlearner/table.cpp"):
        if g.is_lambda and g.parent and "process" in g.parent and len(g.params) == 2:
            n += 1
            iv = [v for v in g.nodes() if v["k"] == "var" and v["n"] == "index" and v.get("c")]
            okx = len(iv) == 1 and pp(iv[0]["c"][0]).startswith("find") and "hashes" in pp(iv[0]["c"][0])
            ifs = [x for x in g.nodes() if x["k"] == "if"]
            okx = okx and len(ifs) == 1 and pp(ifs[0]["c"][ifs[0]["r"].index("cond")]) == CT("(index >= 0)")
            okx = okx and any(pp(c) == "op(i, hash2tables(index))" for c in g.calls())
            R.check(okx, "R-C10-3", "process lookup@%s" % g.loc(), g.loc(), "value -> position in hashes -> table via hash2tables, unknown values are skipped", "table lookup chain changed")
    R.floor("R-C10-3/process", n, 2, "lookup lambdas")


# ---------------------------------------------------------------------------------------------- effects
def rule_accumulate_only(F, R, rule="R-C10-4"):
    n = 0
    for f in F.functions.values():
        if f.name != "do_predict" or not f.relfile.startswith("src/wlearner/") or f.is_lambda:
            continue
        if len(f.params) != 3:
            continue
        od = f.params[2]["d"]
        bodies = [f] + lambdas_of(F, f)
        for g in bodies:
            for tgt, kind, site in writes_in(g, g.body):
                k2, d = root_of(tgt)
                if k2 == "var" and d == od:
                    n += 1
                    a = assignment(site)
                    ok = a is not None and a[2] == "+="
                    R.check(ok, rule, "%s@%s" % (f.cls.split("::")[-1], g.loc(site)), g.loc(site), "prediction is added to the given outputs",
                            "outputs are overwritten instead of accumulated: %s - the boosting model adds its learners' predictions to the bias in place, so this learner "
                            "wipes out the bias and every earlier learner for the samples it acts on" % pp(site)[:70])
            # forwarding the outputs to a nested predict is fine (dtree) - checked where that predict is defined
    R.floor(rule, n, 5, "writes to the outputs in do_predict")


def rule_missing(F, R):
    n = 0
    want = {"loop_scalar": ("isfinite(value)", "fvalues(i)"), "loop_sclass": (CT("(value >= 0)"), "value"), "loop_mclass": (CT("(values(0) >= 0)"), "values")}
    seen = set()
    for g in F.functions.values():
        if not g.is_lambda or g.relfile != "include/nano/wlearner/util.h" or len(g.params) != 3:
            continue
        par = F.by_key.get(g.parent, [None])[0]
        if par is None or par.name not in want or par.name in seen:
            continue
        seen.add(par.name)
        n += 1
        ifs = [x for x in g.nodes() if x["k"] == "if"]
        ops = [c for c in g.calls(lambda c: c.get("op") == "()" and pp(c["c"][0]) == "op")]
        ok = len(ifs) == 1 and pp(ifs[0]["c"][ifs[0]["r"].index("cond")]) == want[par.name][0] and len(ops) == 1 and any(y is ops[0] for y in walk(ifs[0]["c"][ifs[0]["r"].index("then")]))
        loops = [x for x in g.nodes() if x["k"] == "for"]
        ok = ok and len(loops) == 1 and pp(loops[0]["c"][loops[0]["r"].index("cond")]) == "(i < samples.size())"
        R.check(ok, "R-C10-5", par.name, g.loc(), "the operator is invoked for every sample with a present value and only for those", "%s no longer filters missing values with %s over all samples" % (par.name, want[par.name][0]))
    R.floor("R-C10-5", n, 3, "feature-value loops")
    # all single-feature predict/split bodies go through these helpers
    m = 0
    for f in F.functions.values():
        if f.name in ("do_predict", "do_split", "split") and f.relfile in ("src/wlearner/stump.cpp", "src/wlearner/hinge.cpp", "src/wlearner/affine.cpp") and not f.is_lambda:
            if f.name == "do_split" and f.relfile == "src/wlearner/stump.cpp":
                continue
            m += 1
            ok = any(callee(c).startswith("nano::wlearner::loop_scalar") for c in f.calls())
            R.check(ok, "R-C10-5", "%s::%s" % (f.cls.split("::")[-1], f.name), f.loc(), "feature values are visited through loop_scalar (missing values skipped)", "%s reads feature values without the missing-value filter" % f.qn)
    R.floor("R-C10-5/users", m, 6, "predict/split bodies of scalar learners")
    # fit: missing values contribute their squared gradients and nothing else
    k = 0
    for file, fname in (("src/wlearner/stump.cpp", "clear"), ("src/wlearner/hinge.cpp", "clear")):
        for f in F.in_file(file):
            if f.name == fname and len(f.params) == 3:
                k += 1
                ifs = [x for x in f.nodes() if x["k"] == "if" and pp(x["c"][x["r"].index("cond")]) == "isfinite(values(i))"]
                ok = len(ifs) == 1 and "else" in ifs[0]["r"]
                if ok:
                    els = ifs[0]["c"][ifs[0]["r"].index("else")]
                    asg = [pp(y) for y in walk(els) if assignment(y)]
                    ok = "(missing_rss += gradients.array(samples(i)).square().sum())" in asg
                    then = ifs[0]["c"][ifs[0]["r"].index("then")]
                    ok = ok and any(pp(c).startswith("m_acc_sum.update(") for c in walk(then) if c["k"] == "call") and any(pp(c).startswith("m_ivalues.emplace_back(values(i), samples(i))") for c in walk(then) if c["k"] == "call")
                srt = [c for c in f.calls(lambda c: callee(c) == "std::sort")]
                ok = ok and len(srt) == 1 and pp(srt[0]) .startswith("sort") and "m_ivalues.begin(), m_ivalues.end()" in pp(srt[0])
                R.check(ok, "R-C10-5", "%s clear" % file.split("/")[-1], f.loc(), "present values are collected, accumulated and sorted; missing ones only add their squared gradients", "the fit no longer separates present from missing feature values")
    R.floor("R-C10-5/fit", k, 2, "sweep initialisations")


def rule_scale(F, R):
    f = F.one("nano::wlearner::scale", "src/wlearner/util.cpp")
    loops = [x for x in f.nodes() if x["k"] == "for"]
    asg = [x for x in f.nodes() if assignment(x)]
    ok = len(loops) == 1 and pp(loops[0]["c"][loops[0]["r"].index("cond")]) == "(i < tables.size<0>())" and pp(loops[0]["c"][loops[0]["r"].index("init")]).endswith("i = 0") and \
        len([a for a in asg if assignment(a)[2] == "*="]) == 1 and pp(assignment([a for a in asg if assignment(a)[2] == "*="][0])[0]) == "tables.array(i)" and \
        re.sub(r"<[^()]*>", "", pp(assignment([a for a in asg if assignment(a)[2] == "*="][0])[1])).replace(" ", "") == "scale(min(i,(scale.size()-1)))"
    R.check(ok, "R-C10-6", "scale", f.loc(), "every table i is multiplied by scale(min(i, size-1))", "scale() does not multiply every table by its factor")
    g = F.one("nano::single_feature_wlearner_t::scale", "src/wlearner/single.cpp")
    R.check(any(pp(c) == "scale(m_tables, scale)" for c in g.calls()), "R-C10-6", "single scale", g.loc(), "scales the learner's own tables", "single-feature scale does not scale m_tables")


# ---------------------------------------------------------------------------------------------- sorted hashes
def rule_sorted_hashes(F, R):
    # the lookup is a binary search
    finds = [f for f in F.functions.values() if f.qn == "nano::find" and f.relfile == "include/nano/dataset/hash.h"]
    R.floor("R-C10-7/find", len(finds), 1, "find() instantiations")
    for f in finds[:2]:
        lb = [c for c in f.calls(lambda c: callee(c) in ("std::lower_bound", "std::find", "std::binary_search", "std::upper_bound"))]
        R.check(len(lb) == 1 and callee(lb[0]) == "std::lower_bound" and [pp(a) for a in args(lb[0])[:2]] == ["begin", "end"], "R-C10-7", "find@" + f.loc(), f.loc(),
                "lookup is std::lower_bound over the whole array: requires sorted hashes", "the hash lookup changed (rule must be revisited)")
    # producers: make_hashes builds from a std::set in iteration order
    mh = [f for f in F.in_file("src/dataset/hash.cpp") if f.name == "make_hashes" and len(f.params) == 1 and "std::set" in (f.params[0].get("t") or "")]
    ok = len(mh) == 1 and any(callee(c) == "std::copy" and [pp(a) for a in args(c)] == ["fhashes.begin()", "fhashes.end()", "hashes.begin()"] for c in mh[0].calls())
    R.check(ok, "R-C10-7", "make_hashes", mh[0].loc() if mh else "src/dataset/hash.cpp:1", "hashes are the elements of a std::set copied in order: sorted and distinct", "make_hashes no longer copies an ordered set")
    for f in F.in_file("src/dataset/hash.cpp"):
        if f.name == "make_hashes" and f.qn == "nano::make_hashes":
            sv = [v for v in f.nodes() if v["k"] == "var" and v["n"] == "fhashes"]
            rets = [x for x in f.nodes() if x["k"] == "return"]
            ok = len(sv) == 1 and "std::set<unsigned long" in (sv[0].get("t") or "") and all(pp(r["c"][0]).startswith("make_hashes(fhashes)") for r in rets)
            R.check(ok, "R-C10-7", "make_hashes@" + f.loc(), f.loc(), "collects the value hashes in a std::set", "value hashes are not collected in an ordered set")
    # writers of cache_t::m_hashes in table.cpp
    n = 0
    for f in F.in_file("src/wlearner/table.cpp"):
        if not (f.cls or "").endswith("cache_t"):
            continue
        hparam = [p for p in f.params if p["n"] == "hashes"]
        for x in f.nodes():
            a = assignment(x)
            if not a:
                continue
            t = pp(a[0])
            if t == "m_hashes":
                n += 1
                ok = bool(hparam) and ref_decl(a[1]) == hparam[0]["d"] and a[2] == "="
                R.check(ok, "R-C10-7", "%s whole@%s" % (f.name, f.loc(x)), f.loc(x), "copies the sorted hashes of the feature", "m_hashes assigned from something else than the sorted `hashes` argument")
            elif t.startswith("m_hashes("):
                n += 1
                inst = "%s element@%s" % (f.name, f.loc(x))
                # m_hashes(i) = hashes(j): ascending in i requires j ascending, i.e. j == i or j = s(i) with s sorted before the loop
                lhs_i = skip(a[0])["c"][1]
                rhs = skip(a[1])
                ok, why = False, "element is not taken from the sorted `hashes` argument"
                if rhs["k"] == "call" and rhs.get("op") == "()" and hparam and ref_decl(rhs["c"][0]) == hparam[0]["d"]:
                    j = rhs["c"][1]
                    if pp(j) == pp(lhs_i):
                        ok = True
                    else:
                        d = ref_decl(j)
                        var, _ = find_var(f, d) if d is not None else (None, None)
                        src = skip(var["c"][0]) if var is not None and var.get("c") else None
                        why = "position `%s` (= %s) is not read from a selection sorted by position: the stored hashes need not be ascending and the binary search in find() misses present values (their samples are predicted as zero)" % (pp(j), pp(src)[:50] if src is not None else "?")
                        if src is not None and src["k"] == "call" and src.get("op") in ("()", "[]") and pp(src["c"][1] if len(src["c"]) > 1 else src) .replace("cast<unsigned long>(", "").rstrip(")") in (pp(lhs_i), pp(lhs_i) + ")"):
                            sel = ref_decl(src["c"][0])
                            selvar, _ = find_var(f, sel) if sel is not None else (None, None)
                            name = selvar["n"] if selvar is not None else pp(src["c"][0])
                            # must-dataflow: std::sort(begin(sel), end(sel)) reaches this statement with no later write to sel
                            cfg = f.cfg

                            def telem(facts, e, name=name):
                                if e.kind != "node":
                                    return
                                nd = e.node
                                if nd["k"] == "call" and callee(nd) == "std::sort" and len(args(nd)) == 2 and pp(args(nd)[0]) == "begin(%s)" % name and pp(args(nd)[1]) == "end(%s)" % name:
                                    facts.add("sorted")
                                    return
                                a2 = assignment(nd)
                                if a2 and (pp(a2[0]) == name or pp(a2[0]).startswith(name + "(") or pp(a2[0]).startswith(name + "[")):
                                    facts.discard("sorted")
                            IN, before = must_dataflow(cfg, set(), telem)
                            w = cfg.where_enclosing(x)
                            facts = before(*w) if w else None
                            ok = facts is not None and "sorted" in facts
                            why = "the selection `%s` is in score order, not sorted by position: the stored hashes are not ascending and the binary search in find() misses present values (their samples are predicted as zero)" % name
                            # the selection holds positions into the sorted hashes (ascending positions <=> ascending hashes)
                R.check(ok, "R-C10-7", inst, f.loc(x), "hashes are stored in ascending order", why)
    R.floor("R-C10-7", n, 3, "writers of the candidate hashes")
    # stored learner: only set() / read() write m_hashes
    writers = set()
    for f in F.functions.values():
        if f.cls == "nano::table_wlearner_t" and f.body is not None:
            for tgt, kind, site in writes_in(f, f.body):
                if member_path(tgt) == "m_hashes":
                    writers.add(f.name)
    R.check(writers <= {"set", "read"}, "R-C10-7", "hashes writers", "src/wlearner/table.cpp:1", "the learner's hashes come from the fitted cache or the stream only", "m_hashes written by %s" % sorted(writers - {"set", "read"}))


# ---------------------------------------------------------------------------------------------- merge compatibility
def field_of(F, cls_chain, node):
    """field name a node designates on an object: direct member or a trivial const accessor"""
    n = skip(node)
    if n is None:
        return None, None
    if n["k"] == "mem" and n.get("fd"):
        return n["n"], skip(n["c"][0]) if n.get("c") else None
    if n["k"] == "call" and n.get("ck") == "mem" and not args(n):
        tg = F.resolve(n)
        if tg:
            rets = [x for x in tg[0].nodes() if x["k"] == "return" and x.get("c")]
            if len(rets) == 1:
                r = skip(rets[0]["c"][0])
                if r["k"] == "mem" and r.get("fd") and skip(r["c"][0])["k"] == "this":
                    return r["n"], skip(obj(n))
    return None, None


def selectors(F, f, depth=0):
    """fields of `this` that decide which table a prediction uses (everything read in do_predict except the tables)"""
    out = set()
    bodies = [f] + lambdas_of(F, f)
    for g in bodies:
        for x in g.nodes():
            nm, ob = field_of(F, None, x)
            if nm and ob is not None and ob["k"] == "this":
                out.add(nm)
    return out - {"m_tables"}


def rule_merge(F, R, rule="R-C10-8"):
    n = 0
    for f in sorted(F.functions.values(), key=lambda f: f.key):
        if f.name != "try_merge" or not f.relfile.startswith("src/wlearner/") or f.body is None or f.cls == "nano::wlearner_t":
            continue
        n += 1
        cls = f.cls
        pred = [g for g in F.functions.values() if g.name == "do_predict" and g.cls == cls and not g.is_lambda]
        if not pred:
            R.incomplete(rule, cls, f.loc(), "do_predict of %s not found" % cls)
            continue
        sel = selectors(F, pred[0])
        compared = set()
        call = [c for c in f.calls(lambda c: callee(c) == "nano::single_feature_wlearner_t::do_try_merge")]
        ok = len(call) == 1
        why = "expected exactly one delegation to do_try_merge"
        if ok:
            c = call[0]
            # conjuncts of the enclosing if-conditions (call must be in the then-branch)
            for anc in f.ancestors(c):
                if anc["k"] != "if":
                    continue
                then = anc["c"][anc["r"].index("then")]
                if not any(y is c for y in walk(then)):
                    continue
                stack = [anc["c"][anc["r"].index("cond")]]
                while stack:
                    e = skip(stack.pop())
                    if e is None:
                        continue
                    if e["k"] == "bin" and e["op"] == "&&":
                        stack += e["c"]
                        continue
                    if (e["k"] == "bin" and e["op"] == "==") or (e["k"] == "call" and e.get("op") == "=="):
                        l, r = e["c"][0], e["c"][1]
                        fl, ol = field_of(F, None, l)
                        fr, orr = field_of(F, None, r)
                        if fl and fl == fr and ol is not None and orr is not None and ol["k"] == "this" and orr["k"] != "this":
                            compared.add(fl)
            # the delegate compares the feature passed from the other learner
            a = args(c)
            fa, oa = field_of(F, None, a[0])
            ta, ota = field_of(F, None, a[1])
            dt = F.one("nano::single_feature_wlearner_t::do_try_merge", "src/wlearner/single.cpp")
            conds = [pp(x["c"][x["r"].index("cond")]) for x in dt.nodes() if x["k"] == "if"]
            adds = [x for x in dt.nodes() if assignment(x) and assignment(x)[2] == "+=" and pp(assignment(x)[0]) == "m_tables.vector()" and pp(assignment(x)[1]) == "tables.vector()"]
            okd = conds in (["((m_feature == feature) && (m_tables.dims() == tables.dims()))"], [CT("((m_feature == feature) && (m_tables.dims() == tables.dims()))")], ["((feature == m_feature) && (m_tables.dims() == tables.dims()))"]) and len(adds) == 1
            if okd and fa == "m_feature" and oa is not None and oa["k"] != "this":
                compared.add("m_feature")
            ok = okd and ta == "m_tables"
            why = "do_try_merge no longer guards the addition by equal feature and table shape" if not okd else "the other learner's tables are not what is added"
        missing = sorted(sel - compared)
        R.check(ok and not missing, rule, cls.split("::")[-1], f.loc(), "tables are added only when %s compared equal" % sorted(sel),
                why if not ok else "learners are merged although %s (which select%s the table a sample uses) may differ: the merged learner no longer predicts the sum" % (missing, "" if len(missing) > 1 else "s"))
    R.floor(rule, n, 2, "try_merge overrides")
    # learners without an override are never merged
    base = F.one("nano::wlearner_t::try_merge", "src/wlearner.cpp")
    rets = [x for x in base.nodes() if x["k"] == "return"]
    R.check(len(rets) == 1 and pp(rets[0]["c"][0]) == "false", rule, "default", base.loc(), "learners without a merge rule are kept apart", "the default try_merge merges")
    mg = F.one("nano::wlearner::merge", "src/wlearner/util.cpp")
    nulls = [x for x in mg.nodes() if assignment(x) and pp(assignment(x)[0]) == "wlearners[j]" and pp(assignment(x)[1]) in ("nullptr", "unique_ptr(nullptr)")]
    guards = [x for x in mg.nodes() if x["k"] == "if" and pp(x["c"][x["r"].index("cond")]) .replace("->", ".") == "wlearners[i].try_merge(wlearners[j])"]
    ok = len(nulls) == 1 and len(guards) == 1 and any(y is nulls[0] for y in walk(guards[0]["c"][guards[0]["r"].index("then")]))
    R.check(ok, rule, "merge driver", mg.loc(), "a learner is dropped only after it was merged into another", "merge() drops learners that were not merged")


def rule_bin_gain(F, R):
    """R-C10-9: the per-bin gain by which accumulator_t::sort ranks the bins of the k-best / discrete-step tables is the RSS decrease of
    fitting one constant per output to the bin: -sum_o r1_o^2 / x0 (evaluated with a 2-output residual sum (a, b), where the sum of squares and
    the square of the sum differ), and the bins are ranked by ascending gain together with their index."""
    fs = [f for f in F.functions.values() if f.qn == "nano::wlearner::accumulator_t::sort" and f.body is not None]
    if not fs:
        raise AnalysisBroken("wlearner::accumulator_t::sort not found")
    f = fs[0]
    a, b, n_ = sp.symbols("a b n", positive=True)

    class Unknown(Exception):
        pass

    def vev(x, depth=0):
        x = skip(x)
        while x["k"] in ("cast", "paren") and x.get("c"):
            x = skip(x["c"][0])
        k = x["k"]
        if k in ("int", "float"):
            return sp.nsimplify(x["v"], rational=True)
        if k == "ref" and depth < 4:
            v, _ = find_var(f, x.get("d"))
            if v is not None and v.get("c") and (v.get("t") or "").startswith("const "):
                return vev(v["c"][0], depth + 1)
            raise Unknown(pp(x))
        if k == "un" and x.get("op") == "-":
            r_ = vev(x["c"][0], depth)
            return [-e for e in r_] if isinstance(r_, list) else -r_
        if k in ("bin", "call") and x.get("op") in ("+", "-", "*", "/") and len(x.get("c", ())) == 2:
            l_, r_ = vev(x["c"][0], depth), vev(x["c"][1], depth)
            op = {"+": lambda p, q: p + q, "-": lambda p, q: p - q, "*": lambda p, q: p * q, "/": lambda p, q: p / q}[x["op"]]
            if isinstance(l_, list) and isinstance(r_, list):
                return [op(p, q) for p, q in zip(l_, r_)]
            if isinstance(l_, list):
                return [op(p, r_) for p in l_]
            if isinstance(r_, list):
                return [op(l_, q) for q in r_]
            return op(l_, r_)
        if k == "call" and x.get("ck") == "mem":
            name = callee(x).split("::")[-1]
            if name == "r1" and len(args(x)) == 1:
                return [a, b]
            if name == "x0" and len(args(x)) == 1:
                return n_
            o_ = vev(x["c"][0], depth)
            if name in ("array", "vector", "matrix", "eval") and not args(x):
                return o_
            if name == "square" and not args(x):
                return [e ** 2 for e in o_] if isinstance(o_, list) else o_ ** 2
            if name in ("abs", "cwiseAbs") and not args(x):
                return [sp.Abs(e) for e in o_] if isinstance(o_, list) else sp.Abs(o_)
            if name == "sum" and not args(x):
                return sum(o_) if isinstance(o_, list) else o_
            if name == "squaredNorm" and not args(x):
                return sum(e ** 2 for e in o_) if isinstance(o_, list) else o_ ** 2
            if name == "dot" and len(args(x)) == 1:
                r_ = vev(args(x)[0], depth)
                return sum(p * q for p, q in zip(o_, r_))
        raise Unknown(pp(x)[:60])
    eb = [c for c in f.calls(lambda c: callee(c).split("::")[-1] in ("emplace_back", "push_back") and len(args(c)) >= 1)]
    if len(eb) != 1:
        R.incomplete("R-C10-9", "bin gain", f.loc(), "expected one emplace_back of (gain, bin)")
        return
    ar = args(eb[0])
    if len(ar) == 1:
        inner = skip(ar[0])
        ar = [c_ for c_ in inner.get("c", ())] if inner["k"] in ("construct", "initlist", "call") else ar
    try:
        g_ = vev(ar[0])
    except Unknown as e:
        R.incomplete("R-C10-9", "bin gain", f.loc(eb[0]), "cannot evaluate `%s`" % e)
        return
    want = -(a ** 2 + b ** 2) / n_
    ok = not isinstance(g_, list) and sp.simplify(g_ - want) == 0
    R.check(ok, "R-C10-9", "bin gain", f.loc(eb[0]), "gain = -sum over outputs of r1^2 / x0", "with the residual sums (a, b) of two outputs the gain of a bin is %s, the RSS decrease of fitting a "
            "constant per output is %s: bins are ranked (and the k-best score is computed) with a quantity that is not the RSS" % (g_, want))
    srt = [c for c in f.calls(lambda c: callee(c) == "std::sort")]
    okb = len(ar) >= 2 and skip(ar[1])["k"] == "ref" and len(srt) == 1 and len(args(srt[0])) == 2
    R.check(okb, "R-C10-9", "bin ranking", f.loc(), "pairs (gain, bin) sorted ascending by gain", "the bins are no longer ranked by ascending gain with their own index")


def rule_ranked_reads(F, R):
    """R-C10-10: accumulator_t::sort returns one (gain, bin) pair per bin; score_kbest reads `mapping[kbest - 1]` for kbest = 1..max_kbest and
    `mapping[fv]` for fv < kbest, so max_kbest must be bounded by the number of bins on every path (a categorical feature without a single
    value in the sample subset has 0 bins - the discrete-step table asks for 1). The loop bound has to be `bins`, `min(.., bins)` or a variable
    every assignment of which is one of those."""
    fs = [f for f in F.functions.values() if f.name == "score_kbest" and f.relfile == "src/wlearner/table.cpp" and f.body is not None]
    if not fs:
        raise AnalysisBroken("cache_t::score_kbest not found")
    f = fs[0]
    mp = [v for v in f.nodes() if v["k"] == "var" and v.get("c") and callee(skip(v["c"][0])).endswith("accumulator_t::sort") if skip(v["c"][0])["k"] == "call"]
    bn = [v for v in f.nodes() if v["k"] == "var" and v.get("c") and skip(v["c"][0])["k"] == "call" and callee(skip(v["c"][0])).endswith("::bins")]
    if len(mp) != 1 or len(bn) != 1:
        R.incomplete("R-C10-10", "score_kbest", f.loc(), "expected `mapping = sort()` and `bins = bins()`")
        return
    md, bd = mp[0]["d"], bn[0]["d"]

    def bounded(n, depth=0):
        """n <= bins on every path"""
        n = skip(n)
        while n["k"] in ("cast", "paren") and n.get("c"):
            n = skip(n["c"][0])
        if n["k"] == "ref" and n.get("d") == bd:
            return True
        if n["k"] == "call" and callee(n) in ("std::min",):
            # one bounded operand suffices; look at the plain `bins` operand before following variables
            ar = sorted(args(n), key=lambda a_: 0 if (skip(a_)["k"] == "ref" and skip(a_).get("d") == bd) else 1)
            return any(bounded(a_, depth + 1) for a_ in ar) if depth < 4 else False
        if n["k"] == "cond":
            return bounded(n["c"][1], depth + 1) and bounded(n["c"][2], depth + 1)
        if n["k"] == "ref" and depth < 4:
            d_ = n.get("d")
            defs = [assignment(x)[1] for x in f.nodes() if assignment(x) and assignment(x)[2] == "=" and ref_decl(assignment(x)[0]) == d_]
            var, _ = find_var(f, d_)
            if var is not None and var.get("c"):
                defs.append(var["c"][0])
            is_param = any(p_.get("d") == d_ for p_ in f.params)
            if is_param and not defs:
                return False
            # a parameter re-assigned before use: all reaching definitions must be bounded (the parameter's own value only counts if it is never read
            # unassigned, which the single unconditional assignment at the top guarantees when it dominates the loop)
            if not defs or not all(bounded(d2, depth + 1) for d2 in defs):
                return False
            if not is_param:
                return True
            heads = [f.cfg.where_enclosing(l_["c"][l_["r"].index("cond")]) for l_ in loops]
            return any(f.cfg.where_enclosing(x) is not None and all(h_ is not None and f.cfg.dominates(f.cfg.where_enclosing(x), h_) for h_ in heads)
                       for x in f.nodes() if assignment(x) and ref_decl(assignment(x)[0]) == d_)
        return False
    loops = [x for x in f.nodes() if x["k"] == "for" and any(y["k"] == "call" and y.get("op") == "[]" and ref_decl(y["c"][0]) == md for y in walk(x))]
    n = 0
    for lp in loops[:1]:
        cond = skip(lp["c"][lp["r"].index("cond")])
        n += 1
        ok, why = False, "loop condition `%s` not understood" % pp(cond)
        if cond["k"] == "bin" and cond["op"] in ("<", "<="):
            ub = cond["c"][1]
            ok = bounded(ub)
            why = "the loop runs kbest up to `%s`, which is not bounded by the number of bins on every path: with fewer bins than that (0 for a feature without any value in " \
                  "the sample subset, and the discrete-step table asks for 1) `mapping[kbest - 1]` reads past the end of the ranking" % pp(ub)
        R.check(ok, "R-C10-10", "score_kbest loop bound", f.loc(lp), "the number of selected bins never exceeds the number of bins", why)
    R.floor("R-C10-10", n, 1, "ranked-bin loops")


def rule_sweep_coverage(F, R):
    """R-C10-11: the threshold sweeps of the stump and the hinge walk the sorted (value, sample) list pairwise: the pairs (k, k + 1) examined
    must be all of k = 0 .. size - 2 - in particular the pair of the two largest values, where the best threshold lies when only the largest
    value is singled out. From the loop's start value, its bound and the two subscripts: first pair (0, 1), last pair (size - 2, size - 1),
    step 1, the second subscript one above the first."""
    n = 0
    for file, cls in (("src/wlearner/stump.cpp", "nano::stump_wlearner_t"), ("src/wlearner/hinge.cpp", "nano::hinge_wlearner_t")):
        fits = [f for f in F.functions.values() if f.relfile == file and f.name == "do_fit" and f.cls == cls]
        for fit in fits:
            for lam, g in F.lambdas_in(fit):
                for lp in [x for x in g.nodes() if x["k"] == "for"]:
                    subs_ = [x for x in walk(lp["c"][lp["r"].index("body")]) if x["k"] in ("idx", "call") and (x["k"] == "idx" or x.get("op") == "[]") and
                             "m_ivalues" in pp(x["c"][0])]
                    if len(subs_) < 2:
                        continue
                    n += 1
                    inst = "%s sweep@%d" % (cls.split("::")[-1], lp["l"])
                    init = lp["c"][lp["r"].index("init")]
                    vs = [v for v in walk(init) if v["k"] == "var"]
                    cond = skip(lp["c"][lp["r"].index("cond")])
                    inc = pp(lp["c"][lp["r"].index("inc")])
                    IV, SV = sp.Symbol("iv", integer=True), sp.Symbol("sv", integer=True, positive=True)
                    subst = {}
                    start = None
                    ivd = None
                    for v in vs:
                        if v.get("c") and "m_ivalues.size()" in pp(v["c"][0]):
                            subst[v["d"]] = SV
                        elif v.get("c"):
                            lit = literal_value(v["c"][0])
                            if lit is not None and ivd is None:
                                ivd, start = v["d"], sp.Integer(lit)
                                subst[v["d"]] = IV
                    try:
                        cv = kalg.Conv(g, subst=subst, atoms={"cache.m_ivalues.size()": "sv"}, inline=False)
                        idxs = sorted({sp.simplify(cv.conv(x["c"][1])) for x in subs_}, key=lambda e: sp.simplify(e - IV))
                        if ivd is None or cond["k"] != "bin" or cond["op"] not in ("<", "<=") or inc.replace(" ", "") not in ("(++iv)", "(iv++)"):
                            raise kalg.OutOfFragment("loop header `%s; %s; %s`" % (pp(init)[:30], pp(cond)[:30], inc))
                        lhs, rhs = cv.conv(cond["c"][0]), cv.conv(cond["c"][1])
                        rhs = rhs.subs(kalg.sym("sv"), SV) if hasattr(rhs, "subs") else rhs
                        # largest iv with lhs(iv) < rhs (lhs is iv + const)
                        cst = sp.simplify(lhs - IV)
                        last = sp.simplify(rhs - cst - (1 if cond["op"] == "<" else 0))
                    except kalg.OutOfFragment as e:
                        R.incomplete("R-C10-11", inst, g.loc(lp), str(e))
                        continue
                    ok = len(idxs) == 2 and sp.simplify(idxs[1] - idxs[0]) == 1 and sp.simplify(idxs[0].subs(IV, start)) == 0 and \
                        sp.simplify(idxs[0].subs(IV, last) - (SV - 2)) == 0
                    first_pair = sp.simplify(idxs[0].subs(IV, start)) if idxs else None
                    last_pair = sp.simplify(idxs[0].subs(IV, last)) if idxs else None
                    R.check(ok, "R-C10-11", inst, g.loc(lp), "the sweep examines the adjacent pairs (0,1) .. (size-2, size-1) of the sorted values",
                            "the sweep examines the pairs starting at %s and ending at %s (subscripts %s for iv = %s .. %s): %s" % (
                                first_pair, last_pair, [str(e) for e in idxs], start, last,
                                "the pair of the two largest values (size-2, size-1) is never examined - the threshold that singles out the largest value is never scored"
                                if last_pair is not None and sp.simplify(last_pair - (SV - 2)) != 0 else "the first pairs are skipped"))
    R.floor("R-C10-11", n, 2, "threshold sweeps (stump, hinge)")


def _is_midpoint(g, node, R):
    """the expression is algebraically the mid-point of the two neighbouring values (any spelling: 0.5 * (a + b), (a + b) / 2, a + (b - a) / 2)"""
    z, _ = kalg.compare_expr(g, node, "(a + b) / 2", atoms={"ivalue1.first": "a", "ivalue2.first": "b"}, seed=R.seed)
    return bool(z)


def run(ctx):
    R = ctx.report
    F = ctx.facts(TUS)
    rule_formulas(F, R)
    rule_coupdate(F, R)
    rule_predicates(F, R)
    rule_accumulate_only(F, R)
    rule_missing(F, R)
    rule_scale(F, R)
    rule_sorted_hashes(F, R)
    rule_merge(F, R)
    rule_bin_gain(F, R)
    rule_ranked_reads(F, R)
    rule_sweep_coverage(F, R)
