import re
"""C11 - fitted models reproduce reported statistics; early stopping keeps the right round (DESIGN 3, C11)."""
from ..facts import AnalysisBroken, walk
from ..pp import pp, skip, canon_text as CT
from ..util import args, assignment, callee, is_call, literal_value, ref_decl, find_var, obj
from .. import kalg, dtable
from . import c11_stats

META = {
    "level": "other",
    "technique": "predicate-abstraction decision table enumerated over the CFG, co-update and ordering rules, slot-index agreement between siblings",
    "explanation": "Decides: the early-stopping monitor, abstracted to its four atomic comparisons (training error < eps, validation "
                   "improvement > eps, no validation samples, still within patience) and enumerated over all 16 truth assignments on "
                   "the CFG, stops iff train<eps or (no improvement and validation present and patience exhausted), and records "
                   "(round, value, per-sample values) together from the current arguments iff train<eps or improvement or no validation; "
                   "the fit loop evaluates, records and consults the monitor in that order and trims the model to optimum.round() "
                   "learners, returning optimum.values() split into (train, valid); result_t::done keeps exactly that many learners and "
                   "round+1 statistic rows; the final model averages bias and every weak learner of exactly the optimum trial's folds "
                   "by one 1/folds factor; (trial, fold) slot expressions agree between store/extra/log_path, tensor coordinates "
                   "between store and stats; the statistics table is read back in the order written.",
    "not_decided": "equality of the stored statistics with statistics recomputed from model predictions (values)",
    "assumptions": [],
}

TUS = ["src/gboost/early_stopping.cpp", "src/gboost/model.cpp", "src/gboost/result.cpp", "src/machine/result.cpp", "src/machine/stats.cpp",
       "src/gboost/util.cpp", "src/linear.cpp", "src/wlearner/table.cpp", "src/wlearner/affine.cpp", "src/wlearner/single.cpp", "src/wlearner/util.cpp",
       "src/wlearner.cpp"]


def rule_early_stopping(F, R):
    f = F.one("nano::gboost::early_stopping_t::done", "src/gboost/early_stopping.cpp")
    atoms = [dtable.Atom("A", "train_value < epsilon"), dtable.Atom("B", "valid_value < m_value - epsilon"),
             dtable.Atom("C", "valid_samples_size <= 0"), dtable.Atom("D", "wlearners_size < m_round + patience")]
    tracked = {"m_value", "m_round", "m_values"}
    rows, extra = dtable.enumerate_decisions(f, atoms, seed=R.seed, tracked=tracked)
    used = set()
    for asg, _ in rows:
        used |= set(asg)
    missing = [a.name for a in atoms if a.name not in used]
    if missing:
        R.bad("R-C11-1", "early stopping atoms", f.loc(), "the monitor no longer tests %s" % [a.text for a in atoms if a.name in missing])
    # train_value / valid_value are the mean errors of the matching sample sets
    defs = {v["n"]: pp(v["c"][0]) for v in f.nodes() if v["k"] == "var" and v.get("c")}
    R.check(defs.get("train_value") == "mean_error(errors_losses, train_samples)" and defs.get("valid_value") == "mean_error(errors_losses, valid_samples)",
            "R-C11-1", "monitored quantities", f.loc(), "train/valid values are mean_error over the training/validation samples",
            "monitored quantities are %s" % {k: defs.get(k) for k in ("train_value", "valid_value")})
    nrows = 0
    for asg, out in rows:
        A, B, C, D = (asg.get(k, False) for k in "ABCD")
        want_stop = A or (not B and not C and not D)
        want_rec = A or B or C
        label = " ".join("%s=%d" % (k.split(":")[0] if not k.startswith("extra") else "X", int(v)) for k, v in asg.items())
        inst = "early stopping row " + label
        nrows += 1
        got_stop = bool(out["ret"]) if out["ret"] in (0, 1, True, False) else out["ret"]
        got_rec = set(out["writes"])
        ok = got_stop == want_stop and ((got_rec == tracked) if want_rec else (not got_rec))
        detail_bad = "for train<eps=%s improvement=%s no-validation=%s within-patience=%s%s the monitor returns %s and records %s; the stated rule says stop=%s, record=%s" % (
            A, B, C, D, "".join(" [%s=%s]" % (k[6:60], v) for k, v in asg.items() if k.startswith("extra")), got_stop, sorted(got_rec), want_stop, want_rec)
        R.check(ok, "R-C11-1", inst, f.loc(), "stop=%s record=%s" % (want_stop, want_rec), detail_bad)
        if want_rec and got_rec == tracked:
            w = out["writes"]
            okw = w["m_value"] == "valid_value" and w["m_round"] == "wlearners.size()" and w["m_values"] == "errors_losses"
            R.check(okw, "R-C11-2", inst + " recorded values", f.loc(), "records (valid_value, wlearners.size(), errors_losses)",
                    "an accepted round records %s" % w)
    R.floor("R-C11-1", nrows, 16, "decision rows")
    # initial state: value = +max so that the first validation value is an improvement; values = the given ones
    ctor = [g for g in F.in_file("src/gboost/early_stopping.cpp") if g.raw.get("ctor") == "other"]
    if ctor:
        inits = {i.get("n"): pp(i["c"][0]) if i.get("c") else None for i in ctor[0].inits}
        R.check("max()" in (inits.get("m_value") or "") and (inits.get("m_values") or "").startswith("move("), "R-C11-2", "monitor initial state", ctor[0].loc(),
                "starts from value = +max and the initial per-sample values", "initial state is %s" % inits)


def stmt_index(block, node):
    for i, s in enumerate(block.get("c", ())):
        if any(y is node for y in walk(s)):
            return i
    return None


def rule_fit(F, R):
    fits = [f for f in F.in_file("src/gboost/model.cpp") if f.name == "fit" and not f.cls]
    if not fits:
        raise AnalysisBroken("::fit not found in src/gboost/model.cpp")
    f = fits[0]
    dones = [c for c in f.calls(lambda x: callee(x) == "nano::gboost::early_stopping_t::done")]
    R.floor("R-C11-3", len(dones), 2, "monitor consultations")
    want = ["values", "train_samples", "valid_samples", "result.m_wlearners", "epsilon", "patience"]
    for c in dones:
        a = [pp(x) for x in args(c)]
        R.check(a == want, "R-C11-3", "monitor call@%s" % f.loc(c), f.loc(c), "monitor receives (values, train, valid, result.m_wlearners, epsilon, patience)",
                "monitor consulted with %s" % a)
    trims = [c for c in f.calls(lambda x: callee(x) == "nano::gboost::result_t::done")]
    okt = len(trims) == 1 and "optimum.round()" in pp(args(trims[0])[0]) and pp(args(trims[0])[0]).replace("cast<long>(", "").rstrip(")") == "optimum.round("
    R.check(okt, "R-C11-3", "trim to optimum round", f.loc(trims[0]) if trims else f.loc(), "result.done(optimum.round())",
            "model is trimmed with %s instead of optimum.round()" % (pp(args(trims[0])[0]) if trims else None))
    if trims and dones:
        cfg = f.cfg
        okd = all(cfg.postdominates(cfg.where_enclosing(trims[0]), cfg.where_enclosing(c)) for c in dones)
        R.check(okd, "R-C11-3", "trim post-dominates monitor", f.loc(trims[0]), "trimming happens on every path after the monitor was consulted",
                "a path leaves fit() without trimming the model to the optimum round")
    rets = [x for x in f.nodes() if x["k"] == "return" and f.parent_of(x) is not None]
    rets = [x for x in rets if "make_tuple" in pp(x)]
    okr = False
    if len(rets) == 1:
        txt = pp(rets[0])
        okr = "selected(optimum.values(), train_samples)" in txt and "selected(optimum.values(), valid_samples)" in txt and \
            txt.index("train_samples") < txt.index("valid_samples")
    R.check(okr, "R-C11-3", "returned per-sample values", f.loc(), "returns optimum.values() restricted to (train, valid) in that order",
            "fit returns %s" % (pp(rets[0])[:160] if rets else None))
    # in the boosting loop: outputs updated -> evaluate -> result.update -> monitor
    loops = [n for n in f.nodes() if n["k"] == "for" and any(c in dones for c in walk(n) if c["k"] == "call")]
    if loops:
        body = loops[-1]["c"][loops[-1]["r"].index("body")]
        ev = [c for c in walk(body) if is_call(c, "nano::gboost::evaluate")]
        up = [c for c in walk(body) if is_call(c, "nano::gboost::result_t::update") and stmt_index(body, c) is not None]
        dn = [c for c in dones if any(y is c for y in walk(body))]
        outs = [n for n in walk(body) if assignment(n) and assignment(n)[2] == "+=" and kalg.designator(assignment(n)[0]) == "outputs"]
        oko = False
        if ev and up and dn and outs:
            i_out, i_ev, i_dn = stmt_index(body, outs[-1]), stmt_index(body, ev[-1]), stmt_index(body, dn[-1])
            i_up = max(stmt_index(body, c) for c in up if stmt_index(body, c) is not None)
            oko = i_out < i_ev < i_up < i_dn
        R.check(oko, "R-C11-3", "round order", f.loc(loops[-1]), "each round: update outputs, evaluate, record statistics, consult the monitor",
                "the per-round order outputs -> evaluate -> result.update -> monitor is broken")
    else:
        R.bad("R-C11-3", "round order", f.loc(), "boosting loop not found")
    # result_t::done(r): erase [begin+r, end), keep r+1 statistic rows
    d = F.one("nano::gboost::result_t::done", "src/gboost/result.cpp")
    er = [c for c in d.calls(lambda x: callee(x) == "std::vector::erase")]
    sl = [n for n in d.nodes() if assignment(n) and kalg.designator(assignment(n)[0]) == "m_statistics"]
    p = d.params[0]["n"]
    oke = len(er) == 1 and [pp(x) for x in args(er[0])] == ["(m_wlearners.begin() + %s)" % p, "m_wlearners.end()"]
    oks = len(sl) == 1 and ("m_statistics.slice(0, (%s + 1))" % p) in pp(assignment(sl[0])[1])
    R.check(oke, "R-C11-3", "result_t::done erase", d.loc(), "keeps exactly optimum_round weak learners", "erase range is %s" % ([pp(x) for x in args(er[0])] if er else None))
    R.check(oks, "R-C11-3", "result_t::done statistics", d.loc(), "keeps optimum_round + 1 statistic rows", "statistics trimmed as %s" % (pp(assignment(sl[0])[1]) if sl else None))


def rule_fold_average(F, R):
    f = F.one("nano::gboost_model_t::fit", "src/gboost/model.cpp")
    vars_ = {v["n"]: v for v in f.nodes() if v["k"] == "var" and v.get("c")}
    ok_den = "denom" in vars_ and pp(vars_["denom"]["c"][0]) in ("(1 / cast<double>(folds))", "(1.0 / cast<double>(folds))")
    R.check(ok_den, "R-C11-4", "fold factor", f.loc(), "factor = 1 / folds", "fold factor is %s" % (pp(vars_["denom"]["c"][0]) if "denom" in vars_ else None))
    ok_folds = "folds" in vars_ and pp(vars_["folds"]["c"][0]) == "fit_result.folds()" and "optimum_trial" in vars_ and pp(vars_["optimum_trial"]["c"][0]) == "fit_result.optimum_trial()"
    R.check(ok_folds, "R-C11-4", "fold count and trial", f.loc(), "folds and optimum trial come from the tuning result", "folds / optimum trial are taken from elsewhere")
    # accumulation loop over all folds of the optimum trial
    loops = [n for n in f.nodes() if n["k"] == "for" and any(is_call(c, "nano::ml::result_t::extra") for c in walk(n))]
    oka = False
    if len(loops) == 1:
        lp = loops[0]
        init, cond, inc, body = (lp["c"][lp["r"].index(r)] for r in ("init", "cond", "inc", "body"))
        iv = init["c"][0]
        ex = [c for c in walk(body) if is_call(c, "nano::ml::result_t::extra")]
        oka = pp(iv["c"][0]) == "0" and pp(cond) == "(%s < folds)" % iv["n"] and pp(inc) == "(++%s)" % iv["n"] and \
            [pp(x) for x in args(ex[0])] == ["optimum_trial", iv["n"]]
        bias_acc = [n for n in walk(body) if assignment(n) and assignment(n)[2] == "+=" and kalg.designator(assignment(n)[0]) == "m_bias"]
        oka = oka and len(bias_acc) == 1 and "m_bias" in pp(assignment(bias_acc[0])[1])
    R.check(oka, "R-C11-4", "fold accumulation", f.loc(loops[0]) if loops else f.loc(), "bias and learners are accumulated over folds 0..folds-1 of the optimum trial",
            "the accumulation does not range over exactly the folds of the optimum trial")
    # the accumulated members start from nothing: every member that the fold loop adds to (+=, emplace_back / push_back / insert) is reset
    # (assigned a zero-filled tensor / .zero() / .clear() / assigned an empty container) at a point that dominates the loop
    if len(loops) == 1:
        lp = loops[0]
        accs = {}
        bodies = [(f, lp)] + [(g, g.body) for lam, g in F.lambdas_in(f) if any(z is lam for z in walk(lp))]
        for h, root in bodies:
            for x in walk(root):
                a_ = assignment(x)
                if a_ and a_[2] == "+=":
                    for y in walk(a_[0]):
                        if y["k"] == "mem" and skip(y["c"][0])["k"] == "this" if y.get("c") else False:
                            accs.setdefault(y["n"], x)
                if x["k"] == "call" and x.get("ck") == "mem" and callee(x).split("::")[-1] in ("emplace_back", "push_back", "insert", "append"):
                    o_ = skip(obj(x))
                    if o_["k"] == "mem" and o_.get("c") and skip(o_["c"][0])["k"] == "this":
                        accs.setdefault(o_["n"], x)
        cfg = f.cfg
        wl = cfg.where_enclosing(lp["c"][lp["r"].index("cond")]) or cfg.where_enclosing(lp)
        for mem, site in sorted(accs.items()):
            resets = []
            for x in f.nodes():
                a_ = assignment(x)
                if a_ and a_[2] == "=" and kalg.designator(a_[0]) == mem:
                    rhs = pp(a_[1])
                    if re.search(r"make_full_tensor.*, 0(\.0)?\)$", rhs) or rhs.endswith("{}") or "zero" in rhs:
                        resets.append(x)
                if x["k"] == "call" and x.get("ck") == "mem" and callee(x).split("::")[-1] in ("clear", "zero") and pp(obj(x)) == mem:
                    resets.append(x)
            okr = wl is not None and any(cfg.where_enclosing(r_) and cfg.dominates(cfg.where_enclosing(r_), wl) and r_["l"] < lp["l"] for r_ in resets)
            R.check(okr, "R-C11-4", "fold accumulation starts empty: %s" % mem, f.loc(site), "%s is reset before the fold loop" % mem,
                    "the fold loop adds to `%s`, which is not reset before it: a model that already holds weak learners (fitted before, or read from a stream) keeps them - the "
                    "result is the fold average plus old model / folds, not the average of the optimum trial's fold models" % mem)
        R.floor("R-C11-4/accumulators", len(accs), 2, "members accumulated over the folds")
    # one factor for the bias and for every learner
    bias_scale = [n for n in f.nodes() if assignment(n) and assignment(n)[2] == "*=" and kalg.designator(assignment(n)[0]) == "m_bias"]
    okb = len(bias_scale) == 1 and pp(assignment(bias_scale[0])[1]) == "denom"
    rf = [n for n in f.nodes() if n["k"] == "rangefor" and pp(n["c"][1]) == "m_wlearners"]
    okw = False
    for n in rf:
        sc = [c for c in walk(n["c"][2]) if is_call(c, "nano::wlearner_t::scale")]
        if len(sc) == 1:
            a = args(sc[0])[0]
            d = ref_decl(a)
            var, _ = find_var(f, d) if d is not None else (None, None)
            okw = var is not None and var.get("c") and pp(var["c"][0]).replace("<double,>", "").replace("<double>", "") in ("make_vector(denom)",)
    R.check(okb and okw, "R-C11-4", "one factor for bias and learners", f.loc(), "bias and every merged weak learner are scaled by the same 1/folds",
            "bias scaled by %s, learners scaled consistently: %s" % (pp(assignment(bias_scale[0])[1]) if bias_scale else None, okw))


def rule_slots(F, R, rule="R-C11-5", with_evaluate=True):
    fs = [f for f in F.in_file("src/machine/result.cpp") if f.cls == "nano::ml::result_t"]
    by = {}
    for f in fs:
        by.setdefault(f.name, []).append(f)

    def slot_exprs(f, member):
        out = []
        for n in f.nodes():
            if n["k"] == "call" and n.get("op") == "[]" and pp(n["c"][0]) == member:
                out.append(pp(n["c"][1]))
        return out
    want = CT("cast<unsigned long>(((trial * folds()) + fold))")
    n = 0
    for name, member in (("store", "m_extras"), ("extra", "m_extras"), ("log_path", "m_log_paths")):
        for f in by.get(name, []):
            if not any(p["n"] == "trial" for p in f.params):
                continue
            ex = slot_exprs(f, member)
            n += 1
            R.check(ex == [want], rule, "%s slot" % name, f.loc(), "slot index is trial * folds() + fold", "%s addresses %s with %s" % (name, member, ex))
    R.floor(rule, n, 3, "slot accessors")
    # tensor coordinates: store vs stats
    st = [f for f in by.get("store", []) if any(p["n"] == "trial" for p in f.params)]
    ss = [f for f in by.get("stats", []) if any(p["n"] == "trial" for p in f.params)]
    if not st or not ss:
        raise AnalysisBroken("result_t::store / stats (trial, fold) not found")
    coords = {}
    for c in st[0].calls(lambda x: callee(x).endswith("store_stats")):
        a = args(c)
        src, dst = pp(a[0]), pp(a[1])
        coords[src] = dst
    exp = {"train_errors_losses.tensor(0)": "m_values.tensor(trial, fold, 0, 0)", "train_errors_losses.tensor(1)": "m_values.tensor(trial, fold, 0, 1)",
           "valid_errors_losses.tensor(0)": "m_values.tensor(trial, fold, 1, 0)", "valid_errors_losses.tensor(1)": "m_values.tensor(trial, fold, 1, 1)"}
    R.check(coords == exp, rule, "store coordinates", st[0].loc(), "(train|valid, errors|losses) stored at (trial, fold, 0|1, 0|1)", "stored as %s" % coords)
    f = ss[0]
    vars_ = {v["n"]: pp(v["c"][0]) for v in f.nodes() if v["k"] == "var" and v.get("c")}
    ld = [c for c in f.calls(lambda x: callee(x).endswith("load_stats"))]
    okl = len(ld) == 1 and pp(args(ld[0])[0]) == "m_values.tensor(trial, fold, isplit, ivalue)" and \
        vars_.get("isplit") == CT("((split == nano::ml::split_type::train) ? 0 : 1)") and vars_.get("ivalue") == CT("((value == nano::ml::value_type::errors) ? 0 : 1)")
    R.check(okl, rule, "stats coordinates", f.loc(), "train/errors map to index 0, valid/losses to index 1 as in store()", "stats() reads %s with %s" % (pp(args(ld[0])[0]) if ld else None, vars_))
    if not with_evaluate:
        return
    # errors are row 0 and losses row 1 of the (2, samples) buffers
    ev = F.one("nano::gboost::evaluate", "src/gboost/util.cpp")
    txt = " ".join(pp(c) for _, g in F.lambdas_in(ev) for c in g.calls(lambda x: callee(x).startswith("nano::loss_t::")))
    R.check("loss.error(" in txt and "values.tensor(0)" in txt.split("loss.value(")[0] and "values.tensor(1)" in txt.split("loss.value(")[-1], rule, "errors row 0 / losses row 1",
            ev.loc(), "evaluate() writes errors to row 0 and losses to row 1", "evaluate() row convention changed: " + txt[:200])


def rule_fold_stats(F, R):
    """R-C11-7 (folds): the tuning callbacks return (statistics on the training samples, statistics on the validation samples, model), each
    computed over the corresponding sample list the callback was given"""
    def indices_params(g):
        return [p for p in g.params if "long, 1>" in (p.get("t") or "")]

    def tuple_args(g):
        rets = [x for x in g.nodes() if x["k"] == "return" and x.get("c")]
        if len(rets) != 1:
            return None
        c = skip(rets[0]["c"][0])
        if c["k"] == "call" and callee(c) == "std::make_tuple":
            return args(c)
        return None

    def prov_simple(g, node, depth=0):
        x = skip(node)
        if x is None or depth > 6:
            return None
        if x["k"] == "call":
            q, a = callee(x), args(x)
            if q in ("std::move", "std::forward") and a:
                return prov_simple(g, a[0], depth + 1)
            if q.split("::")[-1] in ("selected", "evaluate"):
                idx = [z for z in a if "long, 1>" in ((skip(z) or {}).get("t") or "")]
                return ref_decl(idx[-1]) if idx else None
            return None
        if x["k"] == "construct" and len(x.get("c", ())) == 1:
            return prov_simple(g, x["c"][0], depth + 1)
        if x["k"] == "ref":
            var, bi = find_var(g, x["d"])
            if var is not None and bi is None and var.get("c"):
                return prov_simple(g, var["c"][0], depth + 1)
            return ("binding", var["d"], bi) if var is not None and bi is not None else x["d"]
        return None
    m = 0
    # gboost: the per-fold fit returns (model, train statistics, validation statistics)
    gf = [g for g in F.in_file("src/gboost/model.cpp") if g.name == "fit" and not g.cls and not g.is_lambda and len(indices_params(g)) == 2]
    inner_ok = None
    if gf:
        g = gf[0]
        ta = tuple_args(g)
        ip = indices_params(g)
        inner_ok = ta is not None and len(ta) == 3 and prov_simple(g, ta[1]) == ip[0]["d"] and prov_simple(g, ta[2]) == ip[1]["d"]
        m += 1
        R.check(bool(inner_ok), "R-C11-7", "gboost fold statistics", g.loc(), "the fold fit returns (model, statistics over its training samples, statistics over its validation samples)",
                "the per-fold fit does not return the statistics selected by (train_samples, valid_samples) in that order")
    for qn, file in (("nano::gboost_model_t::fit", "src/gboost/model.cpp"), ("nano::linear_t::fit", "src/linear.cpp")):
        f = [x for x in F.fn(qn, file) if not x.is_lambda][0]
        cbs = [g for _, g in F.lambdas_in(f) if len(indices_params(g)) == 2 and len(g.params) == 5]
        if len(cbs) != 1:
            raise AnalysisBroken("%s: the tuning callback was not found" % qn)
        g = cbs[0]
        ip = indices_params(g)
        ta = tuple_args(g)
        m += 1
        ok = ta is not None and len(ta) == 3
        why = "the callback does not return a (train, valid, model) tuple"
        if ok:
            p0, p1 = prov_simple(g, ta[0]), prov_simple(g, ta[1])
            if isinstance(p0, tuple) or isinstance(p1, tuple):
                # structured bindings of the fold fit's result: element k of its tuple, called with (.., train_samples, valid_samples, ..) in order
                call = [c for c in g.calls(lambda c: callee(c).split("::")[-1] == "fit")]
                okc = len(call) == 1 and [ref_decl(z) for z in args(call[0]) if "long, 1>" in ((skip(z) or {}).get("t") or "")] == [ip[0]["d"], ip[1]["d"]]
                ok = bool(inner_ok) and okc and isinstance(p0, tuple) and isinstance(p1, tuple) and (p0[2], p1[2]) == (1, 2)
                why = "the callback does not hand back (training statistics, validation statistics) of the fold fit called with (train_samples, valid_samples)"
            else:
                ok = p0 == ip[0]["d"] and p1 == ip[1]["d"]
                why = "the callback's first/second results are not computed over its training/validation samples"
        R.check(bool(ok), "R-C11-7", "%s callback statistics" % qn.split("::")[1], g.loc(), "(train statistics, validation statistics, model), each over the matching sample list", why)
    R.floor("R-C11-7/folds", m, 3, "fold statistics producers")


def rule_final_stats(F, R):
    """R-C11-7: the final statistics handed to result_t::store(values[, extra]) are computed over exactly the samples fit() was given"""
    n = 0
    for qn, file in (("nano::gboost_model_t::fit", "src/gboost/model.cpp"), ("nano::linear_t::fit", "src/linear.cpp")):
        fs = [f for f in F.fn(qn, file) if not f.is_lambda and len(f.params) == 4]
        if not fs:
            raise AnalysisBroken("%s not found" % qn)
        f = fs[0]
        sp_ = [p for p in f.params if "long, 1>" in (p.get("t") or "")]
        if len(sp_) != 1:
            raise AnalysisBroken("%s: the samples parameter was not found" % qn)
        SAMPLES = sp_[0]["d"]

        def is_indices(node):
            t = (skip(node) or {}).get("t") or ""
            return "long, 1>" in t

        def prov(node, depth=0):
            """declaration of the index set over which the statistics in `node` were computed (None: unknown)"""
            x = skip(node)
            if x is None or depth > 8:
                return None
            if x["k"] == "call":
                q = callee(x)
                a = args(x)
                if q in ("std::move", "std::forward") and a:
                    return prov(a[0], depth + 1)
                if q.split("::")[-1] == "selected" and len(a) == 2:
                    return ref_decl(a[1])
                if q.split("::")[-1] == "evaluate":
                    idx = [z for z in a if is_indices(z)]
                    if len(idx) == 1:
                        return ref_decl(idx[0])
                return None
            if x["k"] == "construct" and len(x.get("c", ())) == 1:
                return prov(x["c"][0], depth + 1)
            if x["k"] == "ref":
                d = x["d"]
                if d == SAMPLES:
                    return d
                var, _ = find_var(f, d)
                if var is None:
                    return None
                if var.get("c"):
                    p0 = prov(var["c"][0], depth + 1)
                    if p0 is not None:
                        return p0
                # a buffer filled by evaluate(iterator, ..., buffer): the iterator's samples
                for c in f.calls(lambda c: callee(c).split("::")[-1] == "evaluate"):
                    if any(ref_decl(z) == d for z in args(c)):
                        for z in args(c):
                            zv, _ = find_var(f, ref_decl(z)) if ref_decl(z) is not None else (None, None)
                            if zv is not None and "iterator_t" in (zv.get("t") or "") and zv.get("c"):
                                init = skip(zv["c"][0])
                                if init["k"] == "construct":
                                    idx = [w for w in init.get("c", ()) if is_indices(w)]
                                    if len(idx) == 1:
                                        return ref_decl(idx[0])
                return None
            return None
        stores = [c for c in f.calls(lambda c: callee(c) == "nano::ml::result_t::store" and len(args(c)) in (1, 2))]
        for c in stores:
            n += 1
            d = prov(args(c)[0])
            inst = "%s final statistics" % qn.split("::")[1]
            if d is None:
                R.incomplete("R-C11-7", inst, f.loc(c), "cannot trace the samples the final statistics were computed on: %s" % pp(args(c)[0])[:60])
                continue
            var, _ = find_var(f, d)
            name = var["n"] if var is not None else next((p["n"] for p in f.params if p["d"] == d), "?")
            R.check(d == SAMPLES, "R-C11-7", inst, f.loc(c), "the final error/loss statistics are computed on the samples given to fit()",
                    "the final statistics are computed over `%s`%s, not over the samples given to fit(): the reported statistics differ from those recomputed on the fitted samples" % (
                        name, (" = " + pp(var["c"][0])[:50]) if var is not None and var.get("c") else ""))
    R.floor("R-C11-7", n, 2, "final result_t::store calls")
    rule_fold_stats(F, R)
    # the gather helper selects both rows by the same index set
    sel = [g for g in F.in_file("src/gboost/model.cpp") if g.name == "selected" and len(g.params) == 2]
    for g in sel[:1]:
        vn, sn = g.params[0]["n"], g.params[1]["n"]
        calls = [pp(c) for c in g.calls(lambda c: callee(c).split("::")[-1] == "indexed")]
        rets = [x for x in g.nodes() if x["k"] == "return" and x.get("c")]
        rv, _ = find_var(g, ref_decl(rets[0]["c"][0])) if rets and ref_decl(rets[0]["c"][0]) is not None else (None, None)
        rn = rv["n"] if rv is not None else "?"
        ok = sorted(c.replace("<double>", "") for c in calls) == ["%s.tensor(0).indexed(%s, %s.tensor(0))" % (vn, sn, rn), "%s.tensor(1).indexed(%s, %s.tensor(1))" % (vn, sn, rn)]
        R.check(ok, "R-C11-7", "selected()", g.loc(), "both rows (errors, losses) are gathered by the same sample list", "selected() no longer gathers both rows by the given samples: %s" % calls)
    R.floor("R-C11-7/selected", len(sel), 1, "gather helper")


def run(ctx):
    R = ctx.report
    F = ctx.facts(TUS)
    rule_early_stopping(F, R)
    rule_fit(F, R)
    rule_fold_average(F, R)
    rule_slots(F, R)
    rule_final_stats(F, R)
    # the stored fold models and the fold-averaged final model are compacted with wlearner::merge: merging must preserve the sum
    from . import c10
    c10.rule_merge(F, R, rule="R-C11-8")
    # "the boosting model's prediction is its bias plus the sum of its weak learners' predictions": gboost_model_t::do_predict writes the bias and lets
    # every learner add to the same buffer, so every weak learner of the factory must accumulate (the rule of C10, over all weak-learner units)
    c10.rule_accumulate_only(ctx.facts(sorted(set(TUS) | set(c10.TUS))), R, rule="R-C11-9")
    c11_stats.rule_stats_table(F, R, "R-C11-6")
