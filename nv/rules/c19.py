"""C19 - parameters stay inside their declared domain; clones are configuration-equal (DESIGN 3, C19)."""
import re
import math

from ..facts import AnalysisBroken, walk, strip_targs
from ..pp import pp, skip, canon_text as CT
from ..util import (args, assignment, callee, incdec, is_call, is_literal, obj, ref_decl, strip_not, literal_value,
                    find_var, writes_in, root_of)

META = {
    "level": "other",
    "technique": "dominance (check-before-write), who-may-write, constant folding of registered defaults, sibling rule over all clone() bodies and copy constructors",
    "explanation": "Decides: in every parameter update routine the throwing domain test (finiteness, lower bound, upper bound and "
                   "pair ordering, each with the matching comparison selector) dominates the only writes of the stored value(s), "
                   "and the value written is the value tested; the stored values are written nowhere else; `critical` throws "
                   "before returning when its condition holds; every registered default and every literal constructor override is "
                   "inside its declared domain (constant folding); every clone() copy-constructs exactly its own class from "
                   "*this and every factory-registered class overrides clone(); user-provided copy constructors copy every base "
                   "and member; unknown names and type-mismatched reads reach a throwing path.",
    "not_decided": "histories that go through string parsing (std::stod/stoll semantics); behavioural equality of clones beyond copying all members",
    "assumptions": ["std::variant / std::visit dispatch to the alternative's overload"],
}

QUICK_TUS = ["src/parameter.cpp", "src/configurable.cpp", "src/solver.cpp", "src/lsearchk.cpp", "src/lsearch0.cpp", "src/loss.cpp",
             "src/splitter.cpp", "src/tuner.cpp", "src/generator.cpp", "src/wlearner.cpp", "src/linear.cpp", "src/datasource.cpp",
             "src/function.cpp", "src/solver/lbfgs.cpp", "src/solver/gd.cpp", "src/solver/cgd.cpp", "src/solver/quasi.cpp",
             "src/gboost/model.cpp", "src/gboost/result.cpp", "src/machine/params.cpp", "src/function/constraint.cpp",
             "src/logger.cpp", "src/wlearner/stump.cpp"]

VALUE_FIELDS = {"m_value", "m_value1", "m_value2"}
PARAM_CLASSES = ("nano::parameter_t::enum_t", "nano::parameter_t::range_t", "nano::parameter_t::pair_range_t")


def untarg(t):
    import re
    prev = None
    while prev != t:
        prev = t
        t = re.sub(r"<[^<>()]*>", "", t)
    return t


def disjuncts(n):
    n = skip(n)
    if n["k"] == "bin" and n["op"] == "||":
        return disjuncts(n["c"][0]) + disjuncts(n["c"][1])
    return [n]


def critical_calls(f):
    return [c for c in f.calls(lambda n: callee(n) == "nano::critical")]


def rule_update(F, R):
    """R-C19-1: check-then-assign in the ::update overloads"""
    ups = [f for f in F.in_file("src/parameter.cpp") if f.name == "update" and len(f.params) >= 3 and
           any(pc in strip_targs(f.params[1]["t"]) for pc in PARAM_CLASSES)]
    kinds = {"enum": 0, "range": 0, "pair": 0}
    for f in ups:
        pt = strip_targs(f.params[1]["t"])
        param = f.params[1]["d"]
        kind = "enum" if "enum_t" in pt else ("pair" if "pair_range_t" in pt else "range")
        kinds[kind] += 1
        inst = "update[%s]@%s %s" % (kind, f.loc(), f.params[1]["t"].replace("nano::parameter_t::", ""))
        crit = critical_calls(f)
        writes = []
        for n in f.nodes():
            a = assignment(n)
            if a:
                l = skip(a[0])
                if l["k"] == "mem" and l["n"] in VALUE_FIELDS and ref_decl(l["c"][0]) == param:
                    writes.append((n, l["n"], a[1]))
        want_fields = {"enum": ["m_value"], "range": ["m_value"], "pair": ["m_value1", "m_value2"]}[kind]
        if sorted(w[1] for w in writes) != want_fields:
            R.bad("R-C19-1", inst, f.loc(), "update writes %s, expected exactly %s" % (sorted(w[1] for w in writes), want_fields))
            continue
        # all-or-nothing: nothing that may throw (a domain test, a delegated update, a throw) is reachable after the first store into the parameter
        throwing = list(crit) + [c for c in f.calls(lambda n: callee(n).split("::")[-1] == "update" and n is not None)] + [x for x in f.nodes() if x["k"] == "throw"]
        cfg_ = f.cfg
        late = None
        for wn, wname, _ in writes:
            ww = cfg_.where_enclosing(wn)
            for t_ in throwing:
                tw = cfg_.where_enclosing(t_)
                if ww is None or tw is None or any(z is t_ for z in walk(wn)):
                    # a throwing call nested in the stored expression itself is evaluated before the store
                    continue
                # reachable after the store: same block later position, or a block reachable from the store's block
                after = (tw[0] == ww[0] and tw[1] > ww[1])
                if not after:
                    seen, todo = set(), [s_ for s_ in cfg_.blocks[ww[0]].succ if s_ >= 0]
                    while todo:
                        b_ = todo.pop()
                        if b_ in seen:
                            continue
                        seen.add(b_)
                        todo.extend(s_ for s_ in cfg_.blocks[b_].succ if s_ >= 0)
                    after = tw[0] in seen
                if after:
                    late = (wname, t_)
                    break
            if late:
                break
        R.check(late is None, "R-C19-1", inst + " all-or-nothing", f.loc(late[1]) if late else f.loc(), "every test that can reject the assignment precedes the first store",
                "`%s` can still throw after `%s` has been overwritten: a rejected assignment leaves part of the new value stored (a pair half old, half new - possibly "
                "outside its ordering constraint) instead of the previous value" % (pp(late[1])[:50] if late else "", late[0] if late else ""))
        if len(crit) != 1 and any(callee(c).split("::")[-1] == "update" for c in f.calls()):
            R.incomplete("R-C19-1", inst, f.loc(), "the domain test is delegated to other update() overloads: not followed")
            continue
        if len(crit) != 1:
            R.bad("R-C19-1", inst, f.loc(), "expected exactly one throwing domain test, found %d" % len(crit))
            continue
        c = crit[0]
        cw = f.cfg.where_enclosing(c)
        dom_ok = all(f.cfg.dominates(cw, f.cfg.where_enclosing(w[0])) and f.cfg.where_enclosing(w[0]) != cw for w in writes)
        R.check(dom_ok, "R-C19-1", inst + " dominance", f.loc(c), "the throwing test dominates every write of the stored value",
                "a stored value is written before / without the domain test")
        ds = [pp(d) for d in disjuncts(args(c)[0])]
        pn = f.params[1]["n"]
        # values written
        wv = {w[1]: pp(w[2]) for w in writes}
        if kind == "enum":
            v = untarg(wv["m_value"])
            vn = v[len("move("):-1] if v.startswith("move(") else v
            need = ["(find(%s.m_domain.begin(), %s.m_domain.end(), %s) == %s.m_domain.end())" % (pn, pn, vn, pn)]
            alt = []
        elif kind == "range":
            v = wv["m_value"]
            need = ["(!isfinite(%s))" % v, "(!check(%s.m_mincomp, %s.m_min, %s))" % (pn, pn, v),
                    "(!check(%s.m_maxcomp, %s, %s.m_max))" % (pn, v, pn)]
        else:
            v1, v2 = wv["m_value1"], wv["m_value2"]
            need = ["(!isfinite(%s))" % v1, "(!isfinite(%s))" % v2, "(!check(%s.m_mincomp, %s.m_min, %s))" % (pn, pn, v1),
                    "(!check(%s.m_valcomp, %s, %s))" % (pn, v1, v2), "(!check(%s.m_maxcomp, %s, %s.m_max))" % (pn, v2, pn)]
        norm = [untarg(d) for d in ds]
        need = [untarg(x) for x in need]
        missing = [n for n in need if n not in norm]
        R.check(not missing, "R-C19-1", inst + " conjuncts", f.loc(c),
                "rejecting condition contains %s on the very values that are stored" % need,
                "rejecting condition %s lacks %s" % (norm, missing))
        # the stored value must be a local/param that is not modified between test and write
        for w in writes:
            rhs = skip(w[2])
            while rhs["k"] == "cast" and rhs.get("c") and skip(rhs["c"][0]).get("t", "").replace("const ", "") == rhs.get("t", "").replace("const ", ""):
                rhs = skip(rhs["c"][0])     # conversion to the same type
            if rhs["k"] == "cast":
                R.bad("R-C19-1", inst + " stored=" + w[1], f.loc(w[0]),
                      "the value stored in %s is converted (%s) after the domain test: the tested and the stored value differ" % (w[1], pp(w[2])))
                continue
            d = ref_decl(rhs) if rhs["k"] != "call" else ref_decl(args(rhs)[0])
            modified = False
            for n in f.nodes():
                a = assignment(n) or incdec(n)
                if a and ref_decl(a[0]) == d and d is not None:
                    modified = True
            R.check(d is not None and not modified, "R-C19-1", inst + " stored=" + w[1], f.loc(w[0]),
                    "the stored value is the tested value (never re-assigned)", "value stored in %s is re-assigned after/before the test" % w[1])
    for k, v in kinds.items():
        R.floor("R-C19-1/" + k, v, {"enum": 1, "range": 2, "pair": 2}[k], "update overload instantiations")

    # the comparison selector: LE => <=, else <
    chk = [f for f in F.in_file("src/parameter.cpp") if f.name == "check" and len(f.params) == 3]
    R.floor("R-C19-1/check", len(chk), 2, "check<> instantiations")
    for f in chk:
        rets = [n for n in f.nodes() if n["k"] == "return"]
        ok = False
        if len(rets) == 1:
            v = skip(rets[0]["c"][0])
            p = [x["n"] for x in f.params]
            if v["k"] == "cond":
                c0 = skip(v["c"][0])
                ok = (is_call(c0, "std::holds_alternative") and bool(c0.get("targs")) and "LE_t" in c0["targs"][0] and pp(args(c0)[0]) == p[0]
                      and pp(v["c"][1]) == "(%s <= %s)" % (p[1], p[2]) and pp(v["c"][2]) == "(%s < %s)" % (p[1], p[2]))
        R.check(ok, "R-C19-1", "check@%s %s" % (f.loc(), f.params[1]["t"]), f.loc(), "LE selects <=, LT selects <, on (lower, upper) in order",
                "comparison selector no longer maps LE to <= and LT to <: " + (pp(rets[0]) if rets else "?"))
    # critical(cond, ...) throws when cond
    crit = [f for f in F.fn("nano::critical")]
    crit0 = [f for f in F.fn("nano::critical0")]
    if not crit or not crit0:
        raise AnalysisBroken("nano::critical / critical0 not found")
    f = crit[0]
    ifs = [n for n in f.nodes() if n["k"] == "if"]
    okc = False
    if len(ifs) == 1:
        cond = ifs[0]["c"][ifs[0]["r"].index("cond")]
        then = ifs[0]["c"][ifs[0]["r"].index("then")]
        refs = [x for x in walk(cond) if x["k"] == "ref" and x.get("d") == f.params[0]["d"]]
        okc = bool(refs) and not any(x["k"] == "un" and x["op"] == "!" for x in walk(cond)) and \
            any(is_call(x, "nano::critical0") for x in walk(then))
    R.check(okc, "R-C19-1", "critical", f.loc(), "critical(cond, ...) reaches critical0 when cond is true", "critical no longer throws on a true condition")
    g = crit0[0]
    R.check(g.raw.get("noret") and any(n["k"] == "throw" for n in g.nodes()), "R-C19-1", "critical0", g.loc(),
            "critical0 is [[noreturn]] and throws", "critical0 does not throw")


def rule_writers(F, R, fns):
    """R-C19-2: the stored values are written only in the update overloads (and by aggregate construction)"""
    n = 0
    for f in fns:
        for x in f.nodes():
            a = assignment(x) or incdec(x)
            if not a:
                continue
            l = skip(a[0])
            if l["k"] == "mem" and l.get("fd") and l["n"] in VALUE_FIELDS and strip_targs(l.get("cls", "")) in PARAM_CLASSES:
                n += 1
                ok = f.relfile == "src/parameter.cpp" and f.name == "update"
                R.check(ok, "R-C19-2", "write %s@%s" % (l["n"], f.loc(x)), f.loc(x), "stored value written inside an update overload",
                        "parameter value %s written outside the checked update routines, in %s" % (l["n"], f.qn))
            if l["k"] == "mem" and l.get("fd") and l["n"] == "m_storage" and l.get("cls") == "nano::parameter_t":
                ok = f.qn in ("nano::parameter_t::read",)
                R.check(ok, "R-C19-2", "write m_storage@%s" % f.loc(x), f.loc(x), "storage replaced only by deserialisation",
                        "parameter storage replaced in " + f.qn)
    R.floor("R-C19-2", n, 4, "writes of stored values")
    # non-const access to the storage: only std::visit in the assignment operators / update dispatchers
    for f in fns:
        if f.relfile == "src/parameter.cpp" or f.relfile == "include/nano/parameter.h":
            continue
        for x in f.nodes():
            if x["k"] == "mem" and x.get("fd") and x["n"] == "m_storage" and x.get("cls") == "nano::parameter_t":
                R.bad("R-C19-2", "m_storage access@%s" % f.loc(x), f.loc(x), "parameter storage accessed outside parameter.{h,cpp}")


LIMITS = {("double", "max"): 1.7976931348623157e308, ("double", "lowest"): -1.7976931348623157e308, ("double", "epsilon"): 2.220446049250313e-16,
          ("double", "min"): 2.2250738585072014e-308, ("double", "infinity"): math.inf,
          ("float", "max"): 3.4028234663852886e38, ("float", "epsilon"): 1.1920929e-07,
          ("long", "max"): 2 ** 63 - 1, ("long", "min"): -2 ** 63, ("int", "max"): 2 ** 31 - 1, ("int", "min"): -2 ** 31,
          ("unsigned long", "max"): 2 ** 64 - 1}
HELPERS = {"nano::epsilon0": 1e-15, "nano::epsilon1": 1e-10, "nano::epsilon2": 1e-8, "nano::epsilon3": 1e-5, "nano::epsilon": 2.220446049250313e-16}


def fold(f, n, depth=0):
    """constant value of an expression or None"""
    n = skip(n)
    if n is None or depth > 20:
        return None
    k = n["k"]
    if k in ("int", "float"):
        return n["v"]
    if k == "bool":
        return 1 if n["v"] else 0
    if k == "cast":
        v = fold(f, n["c"][0], depth + 1)
        if v is not None and n.get("ck") == "FloatingToIntegral":
            return int(v)
        return v
    if k == "un" and n["op"] in "+-":
        v = fold(f, n["c"][0], depth + 1)
        return None if v is None else (-v if n["op"] == "-" else v)
    if k == "bin" and n["op"] in "+-*/":
        a, b = fold(f, n["c"][0], depth + 1), fold(f, n["c"][1], depth + 1)
        if a is None or b is None:
            return None
        try:
            return {"+": a + b, "-": a - b, "*": a * b, "/": a / b if b else None}[n["op"]]
        except OverflowError:
            return None
    if k == "ref":
        if "cv" in n:
            return n["cv"]
        if n.get("dk") == "var":
            var, bi = find_var(f, n["d"])
            if var is not None and bi is None and var.get("c"):
                for x in f.nodes():
                    a = assignment(x) or incdec(x)
                    if a and ref_decl(a[0]) == n["d"]:
                        return None
                return fold(f, var["c"][0], depth + 1)
        return None
    if k == "call":
        q = callee(n)
        if q.startswith("std::numeric_limits::"):
            t = n.get("fn", "")
            ty = t[t.index("<") + 1:t.rindex(">")] if "<" in t else ""
            return LIMITS.get((ty, q.split("::")[-1]))
        if q in HELPERS:
            return HELPERS[q]
    return None


def comp_of(n):
    n = skip(n)
    while n is not None and n["k"] in ("construct", "cast") and n.get("c"):
        n = skip(n["c"][0])
    if n is not None and n["k"] == "ref":
        if n["n"] == "nano::LE":
            return "<="
        if n["n"] == "nano::LT":
            return "<"
    return None


def holds(a, op, b):
    return a <= b if op == "<=" else a < b


def rule_defaults(F, R, fns, thorough):
    """R-C19-3: registered defaults lie inside their declared domains"""
    n = 0
    domains = {}
    for f in fns:
        for c in f.calls(lambda x: callee(x).startswith("nano::parameter_t::make_") and callee(x).split("::")[-1] in
                         ("make_scalar", "make_integer", "make_scalar_pair", "make_integer_pair")):
            if f.qn.startswith("nano::parameter_t::"):
                continue
            a = args(c)
            kind = callee(c).split("::")[-1]
            name = pp(a[0])
            inst = "%s %s@%s" % (kind, name, f.loc(c))
            n += 1
            integer = "integer" in kind
            if kind in ("make_scalar", "make_integer"):
                lo, c1, v, c2, hi = fold(f, a[1]), comp_of(a[2]), fold(f, a[3]), comp_of(a[4]), fold(f, a[5])
                vals = [lo, v, hi]
                rel = [(lo, c1, v), (v, c2, hi)]
            else:
                lo, c1, v1, cv, v2, c2, hi = fold(f, a[1]), comp_of(a[2]), fold(f, a[3]), comp_of(a[4]), fold(f, a[5]), comp_of(a[6]), fold(f, a[7])
                vals = [lo, v1, v2, hi]
                rel = [(lo, c1, v1), (v1, cv, v2), (v2, c2, hi)]
            if any(x is None for x in vals) or any(r[1] is None for r in rel):
                R.incomplete("R-C19-3", inst, f.loc(c), "cannot constant-fold the registration: " + pp(c))
                continue
            if integer:
                rel = [(int(x), o, int(y)) for x, o, y in rel]
            bad = [(x, o, y) for x, o, y in rel if not holds(x, o, y)]
            finite = all(math.isfinite(x) for x in vals)
            R.check(not bad and finite, "R-C19-3", inst, f.loc(c), "default inside domain: " + " ".join(
                "%s %s" % (x, o) for x, o, _ in rel) + " %s" % rel[-1][2],
                "registered default violates its own domain: %s" % (["%s %s %s" % b for b in bad] or "non-finite bound"))
            if name.startswith('"'):
                domains[name.strip('"')] = rel
    R.floor("R-C19-3", n, 100 if thorough else 15, "register_parameter(make_*) sites")
    # constructor overrides with literals: parameter("name") = literal / make_tuple(l1, l2)
    no = 0
    for f in fns:
        for x in f.nodes():
            if not (x["k"] == "call" and x.get("ck") == "op" and x.get("op") == "=" and callee(x).startswith("nano::parameter_t::operator=")):
                continue
            lhs, rhs = x["c"][0], skip(x["c"][1])
            pname = None
            for y in walk(lhs):
                if y["k"] == "str":
                    pname = y["v"]
            if pname is None or pname not in domains:
                continue
            rel = domains[pname]
            vals = None
            while rhs["k"] == "construct" and len(rhs.get("c", ())) == 1:
                rhs = skip(rhs["c"][0])
            if is_call(rhs, "std::make_tuple"):
                vals = [fold(f, y) for y in args(rhs)]
            else:
                v = fold(f, rhs)
                vals = [v] if v is not None else None
            if not vals or any(v is None for v in vals):
                continue            # runtime value: validated by update() at run time (R-C19-1)
            no += 1
            inst = "override %s@%s" % (pname, f.loc(x))
            if len(vals) == 1 and len(rel) == 2:
                ok = holds(rel[0][0], rel[0][1], vals[0]) and holds(vals[0], rel[1][1], rel[1][2])
            elif len(vals) == 2 and len(rel) == 3:
                ok = holds(rel[0][0], rel[0][1], vals[0]) and holds(vals[0], rel[1][1], vals[1]) and holds(vals[1], rel[2][1], rel[2][2])
            else:
                ok = False
            R.check(ok, "R-C19-3", inst, f.loc(x), "literal override %s inside the registered domain" % vals,
                    "override %s of %s lies outside its registered domain %s" % (vals, pname, rel))
    R.floor("R-C19-3/overrides", no, 4, "literal overrides")


def rule_clone(F, R, fns, thorough):
    """R-C19-4: clone() = make_unique<Self>(*this); registered classes override clone; user copy ctors copy all"""
    n = 0
    for f in fns:
        if f.name != "clone" or f.params or f.is_lambda or not f.cls or f.relfile.startswith("/"):
            continue
        rets = [x for x in f.nodes() if x["k"] == "return"]
        inst = "clone %s" % f.cls
        n += 1
        ok = False
        detail = ""
        if len(rets) == 1 and rets[0].get("c"):
            v = skip(rets[0]["c"][0])
            while v["k"] == "construct" and len(v.get("c", ())) == 1:
                v = skip(v["c"][0])
            if is_call(v, "std::make_unique"):
                ta = v.get("targs", [])
                a = args(v)
                made = strip_targs(ta[0]) if ta else ""
                same = bool(ta) and (ta[0] == f.raw["cls"] or made == f.cls)
                this = len(a) == 1 and pp(a[0]) == "(*this)"
                ok = same and this
                detail = "returns make_unique<%s>(%s)" % (ta[0] if ta else "?", ", ".join(pp(y) for y in a))
            else:
                detail = "returns " + pp(v)
        R.check(ok, "R-C19-4", inst, f.loc(), "clone() copy-constructs its own class from *this", "clone() of %s %s" % (f.cls, detail))
    R.floor("R-C19-4/clone", n, 125 if thorough else 90, "clone() bodies")
    # factory registrations: T must declare clone itself
    nreg = 0
    for f in fns:
        for c in f.calls(lambda x: callee(x) == "nano::factory_t::add"):
            ta = c.get("targs", [])
            if not ta:
                continue
            T = ta[0]
            nreg += 1
            cl = [k for k in F.classes.values() if k["qn"] == T or k["key"] == T]
            inst = "registered %s" % T
            if not cl:
                R.incomplete("R-C19-4", inst, f.loc(c), "class definition not found")
                continue
            has = any(m["n"] == "clone" and not m["pure"] for m in cl[0]["methods"])
            R.check(has, "R-C19-4", inst, f.loc(c), "registered class overrides clone()", "%s is registered in a factory but inherits clone() (clones would be sliced to a base)" % T)
    R.floor("R-C19-4/registered", nreg, 140 if thorough else 40, "factory registrations")
    # user-provided copy constructors / copy assignments copy every base and member
    ncc = 0
    for f in fns:
        if f.raw.get("ctor") != "copy" or f.relfile.startswith("/") or not f.cls:
            continue
        cl = [k for k in F.classes.values() if strip_targs(k["qn"]) == f.cls]
        if not cl:
            continue
        m = [mm for mm in cl[0]["methods"] if mm.get("ctor") == "copy"]
        if not m or not m[0]["user"]:
            continue
        ncc += 1
        other = f.params[0]["d"]
        inst = "copy-ctor %s" % f.cls
        missing = []
        for i in f.inits:
            what = i.get("n") or ("base " + i.get("base", "?"))
            uses_other = any(ref_decl(y) == other for y in walk(i)) if i.get("c") else False
            if i.get("implicit") or not uses_other:
                # members re-created in the body from `other` are accepted when assigned there
                assigned = False
                for x in walk(f.body):
                    a = assignment(x)
                    if a and pp(a[0]) == i.get("n") and any(ref_decl(y) == other for y in walk(a[1])):
                        assigned = True
                if not assigned:
                    missing.append(what)
        fields = {fl["n"] for fl in cl[0]["fields"]}
        inited = {i.get("n") for i in f.inits}
        missing += sorted(fields - inited)
        R.check(not missing, "R-C19-4", inst, f.loc(), "copy constructor initialises every base and member from the source object",
                "copy constructor of %s does not copy: %s" % (f.cls, missing))
    R.floor("R-C19-4/copy-ctors", ncc, 2, "user-provided copy constructors")


def rule_lookup(F, R):
    """R-C19-5/6: duplicate rejection, mandatory lookup, typed reads"""
    reg = F.one("nano::configurable_t::register_parameter", "src/configurable.cpp")
    crit = critical_calls(reg)
    eb = [c for c in reg.calls(lambda n: callee(n).split("::")[-1] in ("emplace_back", "push_back"))]
    ok = len(crit) == 1 and len(eb) == 1 and is_call(skip(args(crit[0])[0]), "nano::configurable_t::parameter_if") and \
        reg.cfg.dominates(reg.cfg.where_enclosing(crit[0]), reg.cfg.where_enclosing(eb[0]))
    R.check(ok, "R-C19-5", "register duplicate test", reg.loc(), "duplicate-name test dominates the insertion", "parameters can be registered twice")
    fps = [f for f in F.in_file("src/configurable.cpp") if f.name == "find_param"]
    R.floor("R-C19-5", len(fps), 2, "find_param overloads")
    for f in fps:
        crit = critical_calls(f)
        rets = [n for n in f.nodes() if n["k"] == "return"]
        ok = len(crit) == 1 and len(rets) == 1
        if ok:
            cond = pp(args(crit[0])[0])
            ok = cond == "(mandatory && (it == parameters.end()))" and f.cfg.dominates(f.cfg.where_enclosing(crit[0]), f.cfg.where_enclosing(rets[0]))
        R.check(ok, "R-C19-5", "find_param@%s" % f.loc(), f.loc(), "mandatory lookups throw when the name is unknown, before returning",
                "mandatory lookup no longer throws on an unknown name")
    for f in F.fn("nano::configurable_t::parameter"):
        cs = [c for c in f.calls(lambda n: callee(n).endswith("find_param"))]
        ok = len(cs) == 1 and is_literal(args(cs[0])[2], True)
        R.check(ok, "R-C19-5", "parameter()@%s" % f.loc(), f.loc(), "parameter(name) uses the mandatory lookup", "parameter(name) dereferences an optional lookup")
    # typed reads: catch-all alternative reaches logical_error; logical_error throws
    le = F.one("nano::parameter_t::logical_error", "src/parameter.cpp")
    R.check(any(is_call(n, "nano::critical0") for n in le.nodes()), "R-C19-6", "logical_error", le.loc(), "logical_error() throws", "logical_error() no longer throws")
    nv = 0
    for f in F.functions.values():
        if f.qn in ("nano::parameter_t::value", "nano::parameter_t::value_pair") and f.relfile == "include/nano/parameter.h":
            visits = [c for c in f.calls(lambda n: callee(n) == "std::visit")]
            if visits:
                lams = F.lambdas_in(f)
                typed = [g for _, g in lams if not any(is_call(x, "nano::parameter_t::logical_error") for x in g.nodes())]
                catch = [g for _, g in lams if any(is_call(x, "nano::parameter_t::logical_error") for x in g.nodes())]
                want = "pair_range_t" if f.name == "value_pair" else "range_t"
                tys = sorted({strip_targs(g.params[0]["t"]) for g in typed})
                nv += 1
                ok = bool(catch) and tys == ["const nano::parameter_t::%s &" % want]
                R.check(ok, "R-C19-6", "%s@%s %s" % (f.name, f.loc(), ",".join(f.raw.get("targs", []))), f.loc(),
                        "numeric read accepts only %s alternatives, everything else reaches logical_error()" % want,
                        "typed read %s accepts alternatives %s / catch-all throws: %s" % (f.name, tys, bool(catch)))
            else:
                gets = [c for c in f.calls(lambda n: callee(n) == "std::get_if")]
                if gets:
                    nv += 1
                    ok = any(is_call(x, "nano::parameter_t::logical_error") for x in f.nodes())
                    R.check(ok, "R-C19-6", "%s@%s %s" % (f.name, f.loc(), ",".join(f.raw.get("targs", []))[:40]), f.loc(),
                            "mismatched alternative reaches logical_error()", "typed read falls through without throwing")
    R.floor("R-C19-6", nv, 3, "typed read instantiations")


def rule_enum_roundtrip(F, R):
    """R-C19-7: an enumeration parameter is stored as its name and read back through from_string<enum>(): for every enumerator of every
    enum_string<> map the lookup algorithm (loops in order, exact or prefix matching) must return that enumerator"""
    fs = [f for f in F.functions.values() if f.qn == "nano::from_string" and f.relfile == "include/nano/core/strutil.h" and any(x["k"] == "rangefor" for x in f.nodes())]
    R.floor("R-C19-7/from_string", len(fs), 3, "from_string<enum> instantiations")
    algos = set()
    for f in fs:
        sp_ = f.params[0]["n"]
        steps = []
        okshape = True
        for lp in [x for x in f.nodes() if x["k"] == "rangefor"]:
            var = lp["c"][lp["r"].index("var")]
            rng = pp(lp["c"][lp["r"].index("range")])
            ifs = [y for y in walk(lp["c"][lp["r"].index("body")]) if y["k"] == "if"]
            rets = [y for y in walk(lp) if y["k"] == "return" and y.get("c")]
            if len(ifs) != 1 or len(rets) != 1 or pp(rets[0]["c"][0]) != "%s.first" % var["n"]:
                okshape = False
                break
            c = pp(ifs[0]["c"][ifs[0]["r"].index("cond")])
            o = var["n"]
            if c == CT("(%s.second == %s)" % (o, sp_)):
                steps.append("exact")
            elif c in (CT("(%s.find(%s.second, 0) == 0)" % (sp_, o)), CT("(%s.rfind(%s.second, 0) == 0)" % (sp_, o))):
                steps.append("prefix")
            else:
                okshape = False
                break
            if rng != "options":
                okshape = False
                break
        if not okshape:
            R.incomplete("R-C19-7", "from_string@" + f.key[:70], f.loc(), "the enumeration lookup no longer has the loop-and-match shape the rule understands")
            return
        algos.add(tuple(steps))
    if len(algos) != 1:
        R.incomplete("R-C19-7", "from_string", fs[0].loc() if fs else "-", "instantiations disagree on the lookup algorithm: %s" % sorted(algos))
        return
    steps = list(algos)[0]
    maps = {}
    for e in F.functions.values():
        if e.qn != "nano::enum_string" or e.params:
            continue
        rets = [x for x in e.nodes() if x["k"] == "return" and x.get("c")]
        if len(rets) != 1:
            continue
        pairs = []
        for c in walk(rets[0]):
            if c["k"] == "construct" and (c.get("cls") or "").endswith("pair") and len(c.get("c", ())) == 2:
                a0, a1 = skip(c["c"][0]), skip(c["c"][1])
                strs = [y for y in walk(a1) if y["k"] == "str"]
                if a0 is not None and strs:
                    pairs.append((pp(a0), strs[0]["v"]))
        if pairs:
            maps.setdefault(e.key, (e, pairs))
    R.floor("R-C19-7/enums", len(maps), 10, "enum_string<> maps")
    for key, (e, pairs) in sorted(maps.items()):
        def lookup(s_):
            for st in steps:
                for en, nm in pairs:
                    if (st == "exact" and nm == s_) or (st == "prefix" and s_.startswith(nm)):
                        return en
            return None
        bad = [(en, nm, lookup(nm)) for en, nm in pairs if lookup(nm) != en]
        inst = key.split("<")[1].split(">")[0] if "<" in key else key
        R.check(not bad, "R-C19-7", inst, e.loc(), "every enumerator's name is read back as that enumerator (%s lookup)" % " then ".join(steps),
                "name `%s` of %s is read back as %s: an accepted assignment of this value is not read back as assigned" % (bad[0][1], bad[0][0], bad[0][2]) if bad else "")


INTEGRAL = {"char", "signed char", "unsigned char", "short", "unsigned short", "int", "unsigned int", "long", "unsigned long", "long long", "unsigned long long"}


def rule_string_kind(F, R):
    """R-C19-8: a numeric string assigned to a parameter is parsed in the parameter's own kind: in parameter_t::operator=(string) the values
    handed to update() for an integer (pair) parameter come from an integer parser (their own type - before any implicit conversion - is
    integral), those for a real (pair) parameter from a floating-point one. An integer read through a double is rounded above 2^53 before it
    is validated and stored: "9007199254740993" is stored as ...992, a bound can be reached from outside the domain."""
    fs = [f for f in F.functions.values() if f.qn == "nano::parameter_t::operator=" and f.params and "basic_string" in (f.params[0].get("t") or "") and f.body is not None]
    if not fs:
        raise AnalysisBroken("parameter_t::operator=(string) not found")
    f = fs[0]
    n = 0
    for lam, g in F.lambdas_in(f):
        if not g.params:
            continue
        pt = g.params[0].get("t") or ""
        m = re.search(r"range_t<(\w[\w ]*),", pt)
        if not m:
            continue
        integral = m.group(1).strip() in INTEGRAL
        for c in g.calls(lambda c: callee(c).split("::")[-1] == "update" and len(args(c)) >= 3):
            for a_ in args(c)[2:]:
                x = skip(a_)
                while x["k"] == "cast" and not x.get("ex") and x.get("c"):
                    x = skip(x["c"][0])             # peel implicit conversions: the parser's own result type counts
                t = (x.get("t") or "").replace("const ", "").strip()
                n += 1
                ok = (t in INTEGRAL) if integral else (t in ("double", "float", "long double"))
                R.check(ok, "R-C19-8", "%s <- %s" % (pt.split("::")[-1][:30], pp(x)[:30]), g.loc(c),
                        "the string is parsed as %s" % ("an integer" if integral else "a real number"),
                        "the value for a parameter stored as `%s` is parsed as `%s` (`%s`): %s" % (
                            m.group(1), t, pp(x)[:40],
                            "integers above 2^53 are rounded before they are validated and stored - an accepted string is not read back as assigned, a rejected one may be "
                            "accepted" if integral else "the fractional part of the assigned value is lost"))
    R.floor("R-C19-8", n, 6, "parsed values handed to update() in parameter_t::operator=(string)")


def rule_read_kind(F, R, rule="R-C19-9", floor=1):
    """a parameter registered as a real number (make_scalar / make_scalar_pair) is read back as a real number: parameter_t::value<T>() merely
    static_casts the stored value, so `value<int64_t>()` on a real-valued parameter silently truncates it (an initial radius of 1.9 becomes
    1, 0.5 becomes 0). Registrations and reads are matched by the last string literal of their name expression, within the analysed units;
    reads whose registration is not in view are not judged."""
    kinds = {}
    for f in F.functions.values():
        if f.body is None and not f.inits:
            continue
        for c in f.calls(lambda c: re.fullmatch(r"nano::parameter_t::make_(scalar|integer|scalar_pair|integer_pair|enum)", callee(c)) is not None):
            lits = [y["v"] for y in walk(args(c)[0]) if y["k"] == "str"] if args(c) else []
            if lits:
                kinds.setdefault(lits[-1].split("::")[-1] if lits[-1].startswith("::") else lits[-1], set()).add(callee(c).split("make_")[-1])
    n = 0
    for f in F.functions.values():
        if f.body is None or f.relfile.startswith("/"):
            continue
        for c in f.calls(lambda c: callee(c) in ("nano::parameter_t::value", "nano::parameter_t::value_pair") and c.get("targs")):
            o_ = skip(obj(c))
            if not (o_["k"] == "call" and callee(o_).endswith("::parameter")):
                continue
            lits = [y["v"] for y in walk(o_) if y["k"] == "str"]
            if not lits:
                continue
            key = lits[-1]
            ks = kinds.get(key) or kinds.get(key.split("::")[-1]) or next((v for k_, v in kinds.items() if k_.endswith(key) or key.endswith(k_)), None)
            if not ks or len(ks) != 1:
                continue
            kind = next(iter(ks))
            if kind not in ("scalar", "scalar_pair"):
                continue
            n += 1
            t = c["targs"][0]
            R.check(t in ("double", "float", "long double"), rule, "%s read of %s@%d" % (f.name, key, c["l"]), f.loc(c), "a real-valued parameter is read as a real number",
                    "`%s` is registered with make_%s but read with value<%s>(): the stored real value is truncated to an integer (e.g. a radius of 1.9 becomes 1, one below 1 "
                    "becomes 0)" % (key, kind, t))
    R.floor(rule, n, floor, "reads of real-valued parameters whose registration is in view")


def _clone_units(ctx):
    """translation units that define a clone() member (found by scanning the sources the build compiles): the sibling rule R-C19-4 covers every
    clone body also in the quick tier"""
    import os
    from ..facts import REPO
    out = []
    for t in ctx.all_tus():
        p_ = os.path.join(REPO, t)
        try:
            if "::clone() const" in open(p_, errors="replace").read():
                out.append(t)
        except OSError:
            pass
    return out


def run(ctx):
    R = ctx.report
    tus = ctx.all_tus() if ctx.thorough else sorted(set(QUICK_TUS) | set(_clone_units(ctx)))
    F = ctx.facts(tus)
    fns = [f for f in F.functions.values() if not f.relfile.startswith("/")]
    rule_update(F, R)
    rule_writers(F, R, fns)
    rule_defaults(F, R, fns, ctx.thorough)
    rule_clone(F, R, fns, ctx.thorough)
    rule_lookup(F, R)
    rule_enum_roundtrip(F, R)
    rule_string_kind(F, R)
