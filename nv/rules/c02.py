"""C02 - every solver returns an honest, self-consistent result within a bounded budget (DESIGN 3, C02)."""
import re

import sympy as sp

from ..cfg import partitioned_dataflow
from ..facts import AnalysisBroken, walk, strip_targs
from ..pp import pp, skip, canon_text as CT
from ..util import (args, assignment, callee, incdec, is_call, is_literal, obj, strip_not, literal_value,
                    find_var, parameter_name, writes_in, root_of, unwrap_view)
from ..util import ref_decl_v as ref_decl
from .. import kalg, dtable
from . import c19

META = {
    "level": "other",
    "technique": "trace-partitioned must-dataflow of (x, g, f) evaluation triples, window (inductive invariant) rules for provider objects, who-may-write, loop classification, decision table of solver_t::done",
    "explanation": "Decides: at every state update (update_if_better / update) of every solver the arguments form one evaluation: f is the "
                   "value returned by function.vgrad(x, g) for the very x and g passed (tracked through copies, references, paired "
                   "ternaries and provider objects, with infeasible loop-skipping paths pruned from the parameter domains); the state's "
                   "(x, fx, gx) are only written together and followed by update_constraints; the curve-search result (y, gy, fy, status) "
                   "is fresh on every exit of csearch_t::search; evaluation counters are incremented only by function_t::vgrad, zeroed "
                   "only by clear_statistics (called by minimize before do_minimize) and copied into the state by update_calls; every "
                   "loop that can reach an evaluation is bounded by the evaluation budget or by an integer counter against a loop "
                   "invariant bound; solver_t::done sets converged iff its converged flag, failed iff not converged and the iteration "
                   "failed, and the status is written nowhere else and starts as max_iters; every do_minimize returns the state it "
                   "passed to done().",
    "not_decided": "monotone decrease f(x) <= f(x0) as a numerical fact; finiteness of values; the exact overshoot number",
    "assumptions": ["function_t::vgrad(x, g) returns f(x) and stores the gradient at x in g (C06)"],
}

SOLVER_TUS = ["src/solver.cpp", "src/solver/state.cpp", "src/solver/osga.cpp", "src/solver/sgm.cpp", "src/solver/cocob.cpp", "src/solver/ellipsoid.cpp",
              "src/solver/universal.cpp", "src/solver/asga.cpp", "src/solver/pdsgm.cpp", "src/solver/gsample.cpp", "src/solver/rqb.cpp",
              "src/solver/fpba.cpp", "src/solver/csearch.cpp", "src/solver/penalty.cpp", "src/solver/augmented.cpp", "src/function.cpp",
              "src/solver/gd.cpp", "src/solver/cgd.cpp", "src/solver/lbfgs.cpp", "src/solver/quasi.cpp", "src/solver/bundle.cpp",
              "src/solver/lsearch.cpp", "src/lsearchk.cpp", "src/lsearch0.cpp", "src/lsearchk/cgdescent.cpp"]

PROVIDERS = {"nano::solver_state_t": {"x": "x", "gx": "g", "fx": "f"}, "nano::bundle_t": {"x": "x", "gx": "g", "fx": "f"}}
POINT_FIELDS = {"m_y": "x", "m_gy": "g", "m_fy": "f"}


def is_vgrad(n):
    return n is not None and n["k"] == "call" and callee(n) == "nano::function_t::vgrad"


def param_lower_bounds(F, f):
    """decl id -> lower bound for locals initialised from parameter("name").value<>() with a registered integer domain"""
    out = {}
    regs = {}
    for g in F.functions.values():
        if not g.raw.get("ctor"):
            continue
        for c in g.calls(lambda x: callee(x) in ("nano::parameter_t::make_integer", "nano::parameter_t::make_scalar")):
            a = args(c)
            nm = None
            for y in walk(a[0]):
                if y["k"] == "str":
                    nm = y["v"]
            lo = c19.fold(g, a[1])
            comp = c19.comp_of(a[2])
            if nm is not None and lo is not None:
                regs[nm] = lo if comp == "<=" else lo + 1
    for v in f.nodes():
        if v["k"] == "var" and v.get("c"):
            nm = parameter_name(v["c"][0])
            if nm in regs:
                out[v["d"]] = regs[nm]
    return out


def triple_analysis(F, f, R, rule, lam_pre=None):
    """checks every update_if_better/update call of f; lam_pre: for lambdas, parameters assumed to form a triple"""
    cfg = f.cfg
    lbs = param_lower_bounds(F, f)

    def kill(facts, d):
        dead = {d}
        changed = True
        while changed:
            changed = False
            for x in list(facts):
                if x[0] == "sel" and (x[4] in dead or x[5] in dead or any(c in dead for c in x[3])) and x[1] not in dead:
                    dead.add(x[1])
                    changed = True
        for x in list(facts):
            ids = [y for y in x[1:] if isinstance(y, int)] + (list(x[3]) if x[0] == "sel" else [])
            if any(i in dead for i in ids):
                facts.discard(x)

    def provider_of(n):
        """(provider decl, role) for S.x() / S.fx() / S.gx()"""
        n = skip(n)
        while n is not None and n["k"] in ("cast", "construct") and len(n.get("c", ())) == 1:
            n = skip(n["c"][0])
        if n is not None and n["k"] == "call" and n.get("ck") == "mem" and not args(n):
            cls = strip_targs(n.get("cls", ""))
            name = callee(n).split("::")[-1]
            if cls in PROVIDERS and name in PROVIDERS[cls]:
                d = ref_decl(obj(n))
                if d is not None:
                    return d, PROVIDERS[cls][name]
        return None

    def all_ids(facts):
        ids = set()
        for x in facts:
            for y in x[1:]:
                if isinstance(y, int) and not isinstance(y, bool):
                    ids.add(y)
                elif isinstance(y, tuple):
                    ids |= {z for z in y if isinstance(z, int)}
        return ids

    def assign(facts, d, rhs, decl_node=None):
        """effect of `d = rhs` (or declaration with initialiser)"""
        r = skip(rhs) if rhs is not None else None
        while r is not None and r["k"] in ("construct",) and len(r.get("c", ())) == 1:
            r = skip(r["c"][0])
        # a copy keeps the evaluation relations of its source: compute them before the target's old facts die
        src = ref_decl(r) if r is not None else None
        keep = []
        if src is not None and src != d:
            for o in all_ids(facts) - {d, src}:
                if has_pair(facts, src, o):
                    keep.append(("pair", d, o))
                if has_pair(facts, o, src):
                    keep.append(("pair", o, d))
                if has_gpair(facts, src, o):
                    keep.append(("gpair", d, o))
                if has_gpair(facts, o, src):
                    keep.append(("gpair", o, d))
        kill(facts, d)
        for kf in keep:
            facts.add(kf)
        if r is None:
            return
        if is_vgrad(r):
            a = args(r)
            X = ref_decl(a[0])
            if X is None:
                aa = assignment(skip(a[0]))
                if aa:          # vgrad(yk = expr)
                    X = ref_decl(aa[0])
            if X is not None:
                facts.add(("pair", X, d))
            return
        prov = provider_of(r)
        if prov:
            S, role = prov
            facts.add(("from", d, S, role))
            return
        if r["k"] == "cond":
            cdecls = tuple(sorted({y["d"] for y in walk(r["c"][0]) if y["k"] == "ref" and y.get("dk") in ("var", "parm", "bind")}))
            ctext = pp(r["c"][0])
            a1, a2 = ref_decl(r["c"][1]), ref_decl(r["c"][2])
            if a1 is not None and a2 is not None:
                facts.add(("sel", d, ctext, cdecls, a1, a2))
            return
        w = ref_decl(r)
        if w is not None:
            facts.add(("eq", d, w))
        if literal_value(r) is not None and isinstance(literal_value(r), (int, bool)):
            facts.add(("const", d, int(literal_value(r))))

    def has_pair(facts, X, v, depth=0):
        if X is None or v is None or depth > 4:
            return False
        if ("pair", X, v) in facts:
            return True
        # both come from one provider object
        for a in facts:
            if a[0] == "from" and a[1] == X and a[3] == "x" and ("from", v, a[2], "f") in facts:
                return True
        # copies
        for a in facts:
            if a[0] == "eq" and a[1] == v and has_pair(facts, X, a[2], depth + 1):
                return True
            if a[0] == "eq" and a[1] == X and has_pair(facts, a[2], v, depth + 1):
                return True
        for a in facts:
            if a[0] == "eq" and a[1] == X:
                for b in facts:
                    if b[0] == "eq" and b[1] == v and has_pair(facts, a[2], b[2], depth + 1):
                        return True
        # paired ternaries with the same condition
        for a in facts:
            if a[0] == "sel" and a[1] == X:
                for b in facts:
                    if b[0] == "sel" and b[1] == v and b[2] == a[2]:
                        if has_pair(facts, a[4], b[4], depth + 1) and has_pair(facts, a[5], b[5], depth + 1):
                            return True
        return False

    def has_gpair(facts, X, G, depth=0):
        if ("gpair", X, G) in facts:
            return True
        for a in facts:
            if a[0] == "from" and a[1] == X and a[3] == "x" and ("from", G, a[2], "g") in facts:
                return True
            if a[0] == "eq" and a[1] == G and depth < 3 and has_gpair(facts, X, a[2], depth + 1):
                return True
            if a[0] == "eq" and a[1] == X and depth < 3 and has_gpair(facts, a[2], G, depth + 1):
                return True
        for a in facts:
            if a[0] == "eq" and a[1] == X:
                for b in facts:
                    if b[0] == "eq" and b[1] == G and depth < 3 and has_gpair(facts, a[2], b[2], depth + 1):
                        return True
        return False

    def telem(facts, e):
        if e.kind != "node":
            return
        n = e.node
        k = n["k"]
        if k in ("declstmt", "var"):
            for vn in ([n] if k == "var" else n.get("c", ())):
                if vn["k"] != "var":
                    continue
                if vn.get("bindings"):
                    # structured binding of a curve-search point: (t, status, y, gy, fy)
                    init = skip(vn["c"][0]) if vn.get("c") else None
                    if init is not None and is_call(init, "nano::csearch_t::search"):
                        pt = F.cls("nano::csearch_t::point_t")
                        names = [fl["n"] for fl in pt[0]["fields"]] if pt else []
                        by = {POINT_FIELDS.get(nm): vn["bindings"][i]["d"] for i, nm in enumerate(names) if i < len(vn["bindings"]) and nm in POINT_FIELDS}
                        if {"x", "g", "f"} <= set(by):
                            facts.add(("pair", by["x"], by["f"]))
                            facts.add(("gpair", by["x"], by["g"]))
                    continue
                init = vn["c"][0] if vn.get("c") else None
                assign(facts, vn["d"], init)
                if init is not None and is_vgrad(skip(init)):
                    a = args(skip(init))
                    if len(a) >= 2 and ref_decl(a[1]) is not None and ref_decl(a[0]) is not None:
                        kill(facts, ref_decl(a[1]))
                        facts.add(("gpair", ref_decl(a[0]), ref_decl(a[1])))
                        facts.add(("pair", ref_decl(a[0]), vn["d"]))
            return
        a = assignment(n)
        if a:
            d = ref_decl(a[0])
            if d is None:
                kind, rd = root_of(a[0])
                if kind == "var":
                    kill(facts, rd)      # element / view write
                return
            if a[2] == "=":
                assign(facts, d, a[1])
                r = skip(a[1])
                if is_vgrad(r):
                    aa = args(r)
                    if len(aa) >= 2 and ref_decl(aa[1]) is not None and ref_decl(aa[0]) is not None:
                        kill(facts, ref_decl(aa[1]))
                        facts.add(("gpair", ref_decl(aa[0]), ref_decl(aa[1])))
                        facts.add(("pair", ref_decl(aa[0]), d))
            else:
                kill(facts, d)
            return
        i = incdec(n)
        if i:
            d = ref_decl(i[0])
            if d is not None:
                kill(facts, d)
            return
        if k == "call":
            if is_vgrad(n):
                # a bare call statement vgrad(x, g) (value unused) still overwrites g
                aa = args(n)
                par = f.parent_of(n)
                if len(aa) >= 2 and ref_decl(aa[1]) is not None and (par is None or par["k"] == "block"):
                    kill(facts, ref_decl(aa[1]))
                return
            q = callee(n)
            if q in ("nano::solver_state_t::update_if_better", "nano::solver_state_t::update", "nano::solver_t::done", "nano::solver_state_t::update_calls"):
                S = ref_decl(obj(n)) if q != "nano::solver_t::done" else ref_decl(args(n)[0])
                # the state changes: values copied out of it before are stale only if it moved
                if q in ("nano::solver_state_t::update_if_better", "nano::solver_state_t::update") and S is not None:
                    forget_provider(facts, S)
                return
            # by-reference outputs and non-const calls on tracked objects
            for tgt, kind, site in writes_in(f, n):
                if site is not n:
                    continue
                d = ref_decl(tgt)
                if d is None:
                    kk, rd = root_of(tgt)
                    d = rd if kk == "var" else None
                if d is not None:
                    kill_keep_from = [x for x in facts if x[0] == "from" and x[2] == d]
                    forget_provider(facts, d)
                    kill(facts, d)

    def forget_provider(facts, S):
        """the provider object moves: copies taken from it stay consistent with each other"""
        xs = [x[1] for x in facts if x[0] == "from" and x[2] == S and x[3] == "x"]
        fs_ = [x[1] for x in facts if x[0] == "from" and x[2] == S and x[3] == "f"]
        gs = [x[1] for x in facts if x[0] == "from" and x[2] == S and x[3] == "g"]
        for X in xs:
            for v in fs_:
                facts.add(("pair", X, v))
            for G in gs:
                facts.add(("gpair", X, G))
        for x in [x for x in facts if x[0] == "from" and x[2] == S]:
            facts.discard(x)

    def tedge(facts, b, k):
        if b.cond is None or len(b.succ) != 2:
            return
        inner, neg = strip_not(b.cond)
        d = ref_decl(inner)
        if d is not None:
            # if (flag) with flag known false
            if ("const", d, 0) in facts:
                taken_true = (k == 0) != neg
                if taken_true:
                    return "prune"
            return
        if inner is not None and inner["k"] == "bin" and inner["op"] in ("<", "<=") and not neg:
            pd, nd = ref_decl(inner["c"][0]), ref_decl(inner["c"][1])
            cst = [x[2] for x in facts if x[0] == "const" and x[1] == pd]
            if pd is not None and nd in lbs and cst:
                holds = cst[0] < lbs[nd] if inner["op"] == "<" else cst[0] <= lbs[nd]
                if holds and k == 1:
                    return "prune"      # p < N is certainly true here: the false edge is infeasible

    init = set()
    if lam_pre:
        X, G, v = lam_pre
        init.add(("pair", X, v))
        if G is not None:
            init.add(("gpair", X, G))
    IN, before = partitioned_dataflow(cfg, init, telem, tedge)

    n_sites = 0
    for e in cfg.elems():
        if e.kind != "node" or e.node["k"] != "call":
            continue
        c = e.node
        q = callee(c)
        if q not in ("nano::solver_state_t::update_if_better", "nano::solver_state_t::update"):
            continue
        a = args(c)
        explicit = [x for x in a if x["k"] != "defarg"]
        if q.endswith("::update") and len(c.get("pk", "")) != 5:
            continue        # update(x [, multipliers]) re-evaluates the function itself
        if q.endswith("update_if_better") and len(explicit) == 2:
            X, G, v = ref_decl(explicit[0]), None, ref_decl(explicit[1])
        else:
            X, G, v = ref_decl(explicit[0]), ref_decl(explicit[1]), ref_decl(explicit[2])
        n_sites += 1
        inst = "%s %s@%s" % (f.qn if not f.is_lambda else "lambda in " + (f.parent or "?").split("(")[0], q.split("::")[-1], f.loc(c))
        states = before(e.block, e.pos)
        if not states:
            continue
        bad = []
        for st in states:
            if not has_pair(st, X, v):
                bad.append("value")
                break
        if G is not None:
            for st in states:
                if not has_gpair(st, X, G):
                    bad.append("gradient")
                    break
        R.check(not bad, rule, inst, f.loc(c), "(%s) is one evaluation of the function" % ", ".join(pp(x) for x in explicit),
                "the state is updated with `%s` where the %s is not (on every path) the one returned by function.vgrad for this very point" % (
                    ", ".join(pp(x) for x in explicit), " and the ".join(bad)))
    return n_sites


def rule_triples(F, R, fns):
    total = 0
    lam_sites = {}
    for f in fns:
        if f.is_lambda:
            continue
        if not any(callee(c) in ("nano::solver_state_t::update_if_better", "nano::solver_state_t::update") for c in f.calls()) and \
                not any(any(callee(c) == "nano::solver_state_t::update_if_better" for c in g.calls()) for _, g in F.lambdas_in(f)):
            continue
        if f.cls == "nano::solver_state_t":
            continue
        total += triple_analysis(F, f, R, "R-C02-1")
        # lambdas updating the state with their own parameters: assume the triple, check every call site
        for lam, g in F.lambdas_in(f):
            ups = [c for c in g.calls(lambda x: callee(x) == "nano::solver_state_t::update_if_better")]
            if not ups or len(g.params) < 3:
                continue
            pd = [p["d"] for p in g.params[:3]]
            total += triple_analysis(F, g, R, "R-C02-1", lam_pre=(pd[0], pd[1], pd[2]))
            # call sites: the variable holding the lambda
            var = None
            for v in f.nodes():
                if v["k"] == "var" and v.get("c") and skip(v["c"][0]) is lam:
                    var = v
            if var is None:
                R.incomplete("R-C02-1", "lambda@%s" % g.loc(), g.loc(), "cannot find the variable holding the lambda")
                continue
            # re-run the analysis of f with obligations at the lambda calls
            cfg = f.cfg
            calls = [c for c in f.calls(lambda x: x.get("ck") == "op" and x.get("op") == "()" and ref_decl(x["c"][0]) == var["d"])]
            if not calls:
                R.incomplete("R-C02-1", "lambda@%s" % g.loc(), g.loc(), "the lambda is never called")
            lam_sites[(f.key, var["d"])] = (f, g, calls)
    # obligations at lambda call sites: run a dedicated pass (the same engine exposes facts through a synthetic call)
    for (fk, vd), (f, g, calls) in lam_sites.items():
        total += lambda_callsites(F, f, R, calls)
    R.floor("R-C02-1", total, 14, "state update sites with explicit (x, g, f)")


def lambda_callsites(F, f, R, calls):
    """treat `lam(a, b, c)` as an update site of f: re-use triple_analysis by temporarily tagging the calls"""
    for c in calls:
        c["_saved_fn"] = c.get("fn")
        c["fn"] = "nano::solver_state_t::update_if_better"
        c["_saved_ck"] = c.get("ck")
    try:
        # operator() calls have the callee object as first child: args() must skip it
        for c in calls:
            c["ck"] = "mem"
        n = triple_analysis(F, f, R, "R-C02-1")
    finally:
        for c in calls:
            c["fn"] = c.pop("_saved_fn")
            c["ck"] = c.pop("_saved_ck")
    return 0


def rule_state_coupdate(F, R):
    """R-C02-2: (m_x, m_fx, m_gx) are written together and followed by update_constraints"""
    group = {"m_x", "m_fx", "m_gx"}
    fs = [f for f in F.functions.values() if f.cls == "nano::solver_state_t" and not f.is_lambda]
    writers = {}
    for f in fs:
        w = {}
        for n in f.nodes():
            a = assignment(n)
            if a:
                l = skip(a[0])
                if l["k"] == "mem" and l.get("fd") and l["n"] in group and skip(l["c"][0])["k"] == "this":
                    w.setdefault(l["n"], []).append(n)
            if is_vgrad(n):
                aa = args(n)
                if len(aa) >= 2 and pp(unwrap_view(aa[1])) == "m_gx":
                    w.setdefault("m_gx", []).append(n)
        for i in f.inits:
            if i.get("n") in group and not i.get("implicit"):
                w.setdefault(i["n"], []).append(i)
        if w:
            writers[f.key] = (f, w)
    names = sorted({f.name for f, _ in writers.values()})
    R.check(set(names) <= {"solver_state_t", "update", "update_if_better"}, "R-C02-2", "writers of (x, fx, gx)", "src/solver/state.cpp:1",
            "the evaluation triple of the state is written only by the constructor, update and update_if_better", "the state's evaluation triple is also written by %s" % names)
    n = 0
    for f, w in writers.values():
        inst = "%s@%s" % (f.name, f.loc())
        n += 1
        miss = group - set(w)
        # update(x, multipliers): m_x = x; m_fx = vgrad(m_x, m_gx) and delegation
        deleg = [c for c in f.calls(lambda x: callee(x) == "nano::solver_state_t::update")]
        if miss and not (f.raw.get("ctor") and not (group - {i.get("n") for i in f.inits})):
            R.bad("R-C02-2", inst, f.loc(), "writes %s but not %s: value, point and gradient no longer belong together" % (sorted(w), sorted(miss)))
            continue
        # all writes in one basic block (no exit in between)
        blocks = set()
        for nodes in w.values():
            for x in nodes:
                pos = f.cfg.where_enclosing(x) if x.get("k") != "init" else None
                if pos:
                    blocks.add(pos[0])
        ok = len(blocks) <= 1
        # update_constraints follows
        ucs = [c for c in f.calls(lambda x: callee(x) == "nano::solver_state_t::update_constraints")]
        last = None
        for nodes in w.values():
            for x in nodes:
                pos = f.cfg.where_enclosing(x) if x.get("k") != "init" else (f.cfg.entry, 0)
                if pos and (last is None or True):
                    last = pos
        okc = bool(deleg) or any(all(f.cfg.postdominates(f.cfg.where_enclosing(u), (f.cfg.where_enclosing(x) if x.get("k") != "init" else (f.cfg.entry, 0)))
                                     for nodes in w.values() for x in nodes) for u in ucs)
        R.check(ok and okc, "R-C02-2", inst, f.loc(), "x, fx, gx are written in one block and update_constraints() follows on every path",
                "the triple is written across blocks (%s) or constraint values are not recomputed afterwards (%s)" % (not ok, not okc))
    R.floor("R-C02-2", n, 4, "writers of the state triple")
    # update_if_better(x, fx) delegates with the state's own gradient
    two = [f for f in fs if f.name == "update_if_better" and len(f.params) == 2]
    for f in two:
        c = [c for c in f.calls(lambda x: callee(x) == "nano::solver_state_t::update_if_better")]
        R.check(len(c) == 1 and [pp(x) for x in args(c[0])] == [f.params[0]["n"], "m_gx", f.params[1]["n"]], "R-C02-2", "update_if_better(x, fx)", f.loc(),
                "delegates to the three-argument form", "two-argument update_if_better no longer forwards (x, m_gx, fx)")
    # the improvement guard: accept only a strictly better finite value
    three = [f for f in fs if f.name == "update_if_better" and len(f.params) == 3]
    for f in three:
        vars_ = {v["n"]: pp(v["c"][0]) for v in f.nodes() if v["k"] == "var" and v.get("c")}
        fxp = f.params[2]["n"]
        okg = vars_.get("better") in (CT("(df > 0)"), CT("(df > 0.0)")) and vars_.get("df") == "(m_fx - %s)" % fxp
        wr = [n for n in f.nodes() if assignment(n) and pp(assignment(n)[0]) in group]
        guarded = all(any(anc["k"] == "if" and pp(anc["c"][anc["r"].index("cond")]) == "better" for anc in f.ancestors(x)) and
                      any(anc["k"] == "if" and "isfinite(%s)" % fxp in pp(anc["c"][anc["r"].index("cond")]) for anc in f.ancestors(x)) for x in wr)
        R.check(okg and guarded and len(wr) == 3, "R-C02-2", "update_if_better guard", f.loc(), "the state moves only to a finite, strictly smaller value",
                "update_if_better no longer requires isfinite(fx) and fx < m_fx before overwriting the best state")


def rule_csearch(F, R):
    """R-C02-6: the curve-search result is fresh on every exit of search()"""
    f = F.one("nano::csearch_t::search", "src/solver/csearch.cpp")
    cfg = f.cfg
    # aliases of the point's fields
    alias = {}
    for v in f.nodes():
        if v["k"] == "var" and v.get("isref") and v.get("c"):
            t = pp(v["c"][0])
            if t.startswith("m_point."):
                alias[v["d"]] = t.split(".", 1)[1]

    def field_of(n):
        n = unwrap_view(n)
        d = ref_decl(n)
        if d in alias:
            return alias[d]
        t = pp(n)
        return t.split(".", 1)[1] if t.startswith("m_point.") else None

    # may-analysis by reachability: from every write of y (not the establishing ones), an exit must not be reachable
    # without passing  fy = vgrad(y, gy)  and an assignment of the status
    est_f, w_y, w_status = [], [], []
    for e in cfg.elems():
        if e.kind != "node":
            continue
        a = assignment(e.node)
        if a:
            fl = field_of(a[0])
            if fl == "m_fy" and is_vgrad(skip(a[1])) and [field_of(x) for x in args(skip(a[1]))[:2]] == ["m_y", "m_gy"]:
                est_f.append((e.block, e.pos))
            elif fl in ("m_y", "m_gy", "m_fy"):
                w_y.append((e.block, e.pos, fl, e.node))
            elif fl == "m_status":
                w_status.append((e.block, e.pos))

    def reach_exit_avoiding(start, avoid):
        """is the function exit reachable from position start without executing any position in avoid?"""
        sb, sp = start
        avoid_by_block = {}
        for b, p in avoid:
            avoid_by_block.setdefault(b, []).append(p)
        # rest of the start block
        if any(p > sp for p in avoid_by_block.get(sb, [])):
            return False
        seen, st = set(), [s for s in cfg.blocks[sb].succ if s >= 0]
        while st:
            x = st.pop()
            if x in seen:
                continue
            seen.add(x)
            if x == cfg.exit:
                return True
            if x in avoid_by_block:
                continue
            st.extend(s for s in cfg.blocks[x].succ if s >= 0)
        return False
    R.floor("R-C02-6", len(est_f), 1, "evaluations in the curve search")
    for b, p, fl, node in w_y:
        inst = "csearch write of %s@%s" % (fl, f.loc(node))
        if fl == "m_fy":
            R.bad("R-C02-6", inst, f.loc(node), "the trial value is written by something else than function.vgrad(y, gy)")
            continue
        leak = reach_exit_avoiding((b, p), est_f)
        R.check(not leak, "R-C02-6", inst, f.loc(node), "every exit after moving the trial point passes through fy = vgrad(y, gy)",
                "search() can return after moving the trial point without re-evaluating it")
    # status: every call assigns the status it returns (no path from the entry to the exit avoids all status writes)
    leak = reach_exit_avoiding((cfg.entry, -1), w_status)
    R.check(not leak, "R-C02-6", "csearch status assigned in every call", f.loc(),
            "the status returned by search() is assigned during the same call on every path",
            "search() can return the status left over from a previous call (when the evaluation budget runs out before a decision is "
            "taken, the loop ends without assigning it): the caller then acts on a stale descent / cutting-plane / null-step decision "
            "with a freshly evaluated, possibly worse, trial point")
    # ... or it is reset on entry
    return


def rule_counters(F, R, fns):
    """R-C02-3"""
    n = 0
    for f in fns:
        for x in f.nodes():
            a = assignment(x) or incdec(x)
            if not a:
                continue
            l = skip(a[0])
            if l["k"] == "mem" and l.get("fd") and l["n"] in ("m_fcalls", "m_gcalls"):
                n += 1
                cls = strip_targs(l.get("cls", ""))
                inst = "%s::%s write@%s" % (cls.split("::")[-1], l["n"], f.loc(x))
                if cls == "nano::function_t":
                    if f.qn == "nano::function_t::vgrad":
                        ok = incdec(x) is not None or (assignment(x) and assignment(x)[2] == "+=" and literal_value(assignment(x)[1]) == 1) or \
                            (assignment(x) and assignment(x)[2] == "+=")
                        R.check(ok, "R-C02-3", inst, f.loc(x), "evaluation counter incremented by the evaluation itself", "counter is reset/overwritten inside vgrad")
                    elif f.qn == "nano::function_t::clear_statistics":
                        R.check(literal_value(a[1]) == 0 if assignment(x) else False, "R-C02-3", inst, f.loc(x), "counter zeroed by clear_statistics", "clear_statistics writes a non-zero value")
                    elif f.raw.get("ctor") or f.raw.get("copyassign"):
                        R.ok("R-C02-3", inst, f.loc(x), "constructor / copy")
                    else:
                        R.bad("R-C02-3", inst, f.loc(x), "function evaluation counter modified outside vgrad / clear_statistics, in " + f.qn)
                elif cls == "nano::solver_state_t":
                    ok = f.qn == "nano::solver_state_t::update_calls" and assignment(x) and pp(assignment(x)[1]) == "m_function.%s()" % l["n"][2:]
                    R.check(ok, "R-C02-3", inst, f.loc(x), "state counter copied from the function's own counter in update_calls",
                            "reported evaluation count written as `%s` in %s" % (pp(x), f.qn))
    R.floor("R-C02-3", n, 6, "counter writes")
    vg = F.one("nano::function_t::vgrad", "src/function.cpp")
    dv = [c for c in vg.calls(lambda x: callee(x) == "nano::function_t::do_vgrad")]
    incs = [x for x in vg.nodes() if (incdec(x) or (assignment(x) and assignment(x)[2] == "+=")) and "calls" in pp((incdec(x) or assignment(x))[0])]
    R.check(len(dv) == 1 and len(incs) >= 2, "R-C02-3", "vgrad counts", vg.loc(), "every vgrad performs the evaluation and counts it", "vgrad no longer counts its evaluation")
    # clear_statistics is called by minimize before do_minimize, and nowhere inside solvers
    for f in fns:
        for c in f.calls(lambda x: callee(x) == "nano::function_t::clear_statistics"):
            ok = f.qn == "nano::solver_t::minimize"
            if ok:
                dm = [d for d in f.calls(lambda x: callee(x) == "nano::solver_t::do_minimize")]
                ok = len(dm) == 1 and f.cfg.dominates(f.cfg.where_enclosing(c), f.cfg.where_enclosing(dm[0]))
            in_minimize = f.qn == "nano::solver_t::minimize"
            R.check(ok, "R-C02-3", "clear_statistics@%s" % f.loc(c), f.loc(c), "counters are reset once, before do_minimize",
                    ("the reset of the function's evaluation counters does not dominate do_minimize (it is conditional): on the other path the state reports every evaluation "
                     "the function object has ever seen - more than this call performed") if in_minimize else
                    "evaluation counters are reset in %s (evaluations performed before would not be reported)" % f.qn)


# solvers whose outer loop counts inner solves (each inner solve is budgeted on its own, as the property states)
OUTER_COUNTER_OK = {"nano::solver_penalty_t", "nano::solver_augmented_lagrangian_t", "nano::solver_linear_penalty_t", "nano::solver_quadratic_penalty_t"}


def reaches_vgrad(F, fns):
    """set of function keys that can (transitively, through calls defined in the repo) reach function_t::vgrad"""
    direct = {}
    for f in fns:
        outs = set()
        hit = False
        for c in f.calls():
            q = callee(c)
            if q == "nano::function_t::vgrad" or q in ("nano::solver_state_t::update",) and len([x for x in args(c) if x["k"] != "defarg"]) < 3:
                hit = True
            if c.get("key"):
                outs.add(c["key"])
            if c.get("virt") and c.get("fn"):
                outs.add("virt:" + strip_targs(c["fn"]).split("::")[-1])
        for n in f.nodes():
            if n["k"] == "lambda":
                outs.add(n["key"])
        direct[f.key] = (hit, outs, f)
    byname = {}
    for f in fns:
        byname.setdefault("virt:" + f.name, set()).add(f.key)
    reach = {k for k, (h, _, _) in direct.items() if h}
    changed = True
    while changed:
        changed = False
        for k, (h, outs, f) in direct.items():
            if k in reach:
                continue
            for o in outs:
                targets = byname.get(o, set()) if o.startswith("virt:") else {o}
                if targets & reach:
                    reach.add(k)
                    changed = True
                    break
    return reach


def rule_budget_loops(F, R, fns):
    """R-C02-4"""
    reach = reaches_vgrad(F, fns)
    solver_fns = [f for f in fns if f.relfile.startswith(("src/solver", "src/lsearchk", "src/lsearch0", "include/nano/solver", "src/solver.cpp"))
                  and not f.relfile.startswith("src/solver/bundle")]
    n = nb = nc = 0
    for f in solver_fns:
        if f.key not in reach:
            continue
        loops = [x for x in f.nodes() if x["k"] in ("for", "while", "do")]
        for lp in loops:
            body = lp["c"][lp["r"].index("body")]
            evaluates = False
            for c in walk(body):
                if c["k"] == "call":
                    q = callee(c)
                    if q == "nano::function_t::vgrad" or (c.get("key") in reach) or (c.get("virt") and any(g.key in reach for g in F.functions.values() if g.name == q.split("::")[-1])):
                        evaluates = True
                        break
                    if q == "nano::solver_state_t::update" and len([x for x in args(c) if x["k"] != "defarg"]) < 3:
                        evaluates = True
                        break
                if c["k"] == "lambda" and c["key"] in reach:
                    pass
            if not evaluates:
                continue
            n += 1
            inst = "%s loop@%s" % (f.qn, f.loc(lp))
            cond = lp["c"][lp["r"].index("cond")] if "cond" in lp["r"] else None
            kind = None
            conj = []

            def split(x):
                x = skip(x)
                if x["k"] == "bin" and x["op"] == "&&":
                    split(x["c"][0])
                    split(x["c"][1])
                else:
                    conj.append(x)
            if cond is not None:
                split(cond)
            for c in conj:
                t = pp(c)
                if c["k"] == "bin" and c["op"] in ("<", "<=") and "fcalls()" in t and "gcalls()" in t:
                    bd = ref_decl(c["c"][1])
                    var, _ = find_var(f, bd) if bd is not None else (None, None)
                    src = None
                    if var is not None and var.get("c"):
                        src = parameter_name(var["c"][0])
                    elif bd is not None and f.param("max_evals") is not None and f.param("max_evals")["d"] == bd:
                        src = "parameter max_evals"
                    if src and "max_evals" in src:
                        kind = "budget"
                if kind is None and c["k"] == "bin" and c["op"] in ("<", "<=", ">", ">="):
                    # integer counter changed exactly once per iteration against a loop-invariant bound
                    a, b = c["c"]

                    def towards(step, cnt_is_left):
                        """the single step moves the counter towards the bound"""
                        up = incdec(step)[1] == "++"
                        less = c["op"] in ("<", "<=")
                        return up == (less == cnt_is_left)
                    for cnt, bound in ((a, b), (b, a)):
                        d = ref_decl(cnt)
                        if d is None:
                            # a counter held in a member of a parameter object (params.m_max_iterations): identified by its access path
                            ct = skip(cnt)
                            if ct is not None and ct["k"] == "mem" and ct.get("fd") and skip(ct["c"][0])["k"] == "ref" and is_literal(bound):
                                path = pp(ct)
                                writes = [x for x in walk(lp) if (incdec(x) and pp(incdec(x)[0]) == path) or (assignment(x) and pp(assignment(x)[0]) == path)]
                                steps = [x for x in writes if incdec(x)]
                                if len(writes) == 1 and len(steps) == 1 and towards(steps[0], cnt is a):
                                    kind = "counter"
                            continue
                        writes = [x for x in walk(lp) if (incdec(x) and ref_decl(incdec(x)[0]) == d) or (assignment(x) and ref_decl(assignment(x)[0]) == d)]
                        steps = [x for x in writes if incdec(x)]
                        bd_refs = {y["d"] for y in walk(bound) if y["k"] == "ref" and y.get("dk") in ("var", "parm", "bind")}
                        bound_written = any((assignment(x) and ref_decl(assignment(x)[0]) in bd_refs) or (incdec(x) and ref_decl(incdec(x)[0]) in bd_refs) for x in walk(lp))
                        if len(writes) == 1 and len(steps) == 1 and not bound_written and towards(steps[0], cnt is a):
                            kind = "counter"
            if kind == "budget":
                nb += 1
            elif kind == "counter":
                nc += 1
                outermost = not any(anc["k"] in ("for", "while", "do") for anc in f.ancestors(lp))
                if outermost and f.name == "do_minimize" and f.cls not in OUTER_COUNTER_OK:
                    R.bad("R-C02-4", inst + " outermost", f.loc(lp), "the outermost evaluating loop of a solver is bounded by a plain counter (%s), not by the "
                          "evaluation budget solver::max_evals" % pp(cond)[:80])
            R.check(kind is not None, "R-C02-4", inst, f.loc(lp),
                    "evaluating loop bounded by %s" % ("the evaluation budget" if kind == "budget" else "a once-per-iteration counter against an invariant bound"),
                    "a loop that evaluates the function has neither the budget test fcalls()+gcalls() < max_evals nor a monotone counter bound: %s" % (pp(cond)[:120] if cond else "no condition"))
    R.floor("R-C02-4", n, 25, "loops that can evaluate the function")
    R.note("R-C02-4: %d budget loops, %d counter loops" % (nb, nc))


def rule_done_and_status(F, R, fns):
    """R-C01-3 (shared with C01): solver_t::done decision table, status writers, initial status"""
    f = F.one("nano::solver_t::done", "src/solver.cpp")
    atoms = [dtable.Atom("C", "converged_flag > 0"), dtable.Atom("I", "iter_ok_flag > 0"), dtable.Atom("V", "state_valid > 0")]
    # boolean parameters are atoms themselves: map them
    conv_atoms = {"converged": kalg.sym("converged_flag") > 0, "iter_ok": kalg.sym("iter_ok_flag") > 0, "state.valid()": kalg.sym("state_valid") > 0}
    import sympy as sp
    rows = enumerate_done(f)
    n = 0
    for (C, I, V), (ret, status) in rows.items():
        want_ret = C or not (I and V)
        want_status = "nano::solver_status::converged" if C else ("nano::solver_status::failed" if not (I and V) else None)
        n += 1
        R.check(ret == want_ret and status == want_status, "R-C01-3", "done row converged=%d iter_ok=%d valid=%d" % (C, I, V), f.loc(),
                "returns %s and sets status %s" % (want_ret, want_status), "returns %s and sets status %s; expected %s / %s" % (ret, status, want_ret, want_status))
    R.floor("R-C01-3", n, 8, "rows of the done() decision table")
    uc = [c for c in f.calls(lambda x: callee(x) == "nano::solver_state_t::update_calls")]
    R.check(len(uc) == 1 and f.cfg.where_enclosing(uc[0])[0] in [b for b in f.cfg.blocks if f.cfg.blocks[b].pred == [f.cfg.entry] or b == f.cfg.entry] or
            (len(uc) == 1 and all(f.cfg.dominates(f.cfg.where_enclosing(uc[0]), f.cfg.where_enclosing(r)) for r in f.nodes() if r["k"] == "return")),
            "R-C02-5", "done updates counters", f.loc(), "done() copies the evaluation counters into the state on every path", "done() no longer refreshes the reported counters")
    # status writers
    for g in fns:
        for x in g.nodes():
            a = assignment(x)
            if a:
                l = skip(a[0])
                if l["k"] == "mem" and l.get("fd") and l["n"] == "m_status" and strip_targs(l.get("cls", "")) == "nano::solver_state_t":
                    R.check(g.qn == "nano::solver_state_t::status", "R-C01-3", "m_status write@%s" % g.loc(x), g.loc(x), "status written by the setter only",
                            "solver status written directly in " + g.qn)
        for c in g.calls(lambda x: callee(x) == "nano::solver_state_t::status" and len(args(x)) == 1):
            R.check(g.qn == "nano::solver_t::done", "R-C01-3", "status() setter call@%s" % g.loc(c), g.loc(c), "status set by solver_t::done only",
                    "solver status set outside solver_t::done, in " + g.qn)
    # initial status: every constructor leaves max_iters
    en = F.enums.get("nano::solver_status")
    if not en:
        raise AnalysisBroken("enum nano::solver_status not found")
    zero = [v["n"] for v in en["vals"] if v["v"] == 0]
    ctors = [g for g in F.functions.values() if g.cls == "nano::solver_state_t" and g.raw.get("ctor") == "other"]
    cls = F.one_cls("nano::solver_state_t")
    nctor = 0
    for g in ctors:
        for i in g.inits:
            if i.get("n") == "m_status":
                nctor += 1
                init = skip(i["c"][0]) if i.get("c") else None
                while init is not None and init["k"] in ("definit", "cast", "initlist") and init.get("c"):
                    init = skip(init["c"][0])
                if init is None or init["k"] in ("zeroinit", "initlist", "definit"):
                    val = zero[0] if zero else "?"
                elif init["k"] == "ref":
                    val = init["n"].split("::")[-1]
                else:
                    val = pp(init)
                R.check(val == "max_iters", "R-C01-3", "initial status in %s" % g.key[:60], g.loc(),
                        "a fresh state reports max_iters until done() decides otherwise",
                        "a freshly constructed state already reports `%s`: a run that exhausts its budget without calling done() is reported as %s" % (val, val))
    R.floor("R-C01-3/ctors", nctor, 1, "state constructors")


def enumerate_done(f):
    """decision function of solver_t::done over (converged, iter_ok, state.valid())"""
    import itertools
    cfg = f.cfg
    conv, iok = f.params[2]["d"], f.params[1]["d"]
    locals_ = {}
    for v in f.nodes():
        if v["k"] == "var" and v.get("c"):
            locals_[v["d"]] = v["c"][0]
    rows = {}

    def ev(n, env):
        n = skip(n)
        d = ref_decl(n)
        if d == conv:
            return env["C"]
        if d == iok:
            return env["I"]
        if d in locals_:
            return ev(locals_[d], env)
        if n["k"] == "call" and callee(n) == "nano::solver_state_t::valid":
            return env["V"]
        if n["k"] == "bin" and n["op"] == "&&":
            return ev(n["c"][0], env) and ev(n["c"][1], env)
        if n["k"] == "bin" and n["op"] == "||":
            return ev(n["c"][0], env) or ev(n["c"][1], env)
        if n["k"] == "un" and n["op"] == "!":
            return not ev(n["c"][0], env)
        if n["k"] == "cond":
            return ev(n["c"][1], env) if ev(n["c"][0], env) else ev(n["c"][2], env)
        if n["k"] == "bool":
            return bool(n["v"])
        if n["k"] == "ref" and n.get("dk") == "enum":
            return n["n"]
        raise AnalysisBroken("solver_t::done: condition outside the boolean fragment: " + pp(n))
    for C, I, V in itertools.product([False, True], repeat=3):
        env = {"C": C, "I": I, "V": V}
        cur, steps, ret, status = cfg.entry, 0, None, None
        while cur is not None and steps < 200:
            steps += 1
            b = cfg.blocks[cur]
            for e in b.elems:
                if e.kind != "node":
                    continue
                n = e.node
                if n["k"] == "call" and callee(n) == "nano::solver_state_t::status" and len(args(n)) == 1:
                    status = ev(args(n)[0], env)
                if n["k"] == "return":
                    ret = ev(n["c"][0], env)
            succ = b.succ
            if b.cond is not None and len(succ) == 2:
                cur = succ[0] if ev(b.cond, env) else succ[1]
            else:
                nxt = [s for s in succ if s >= 0]
                cur = nxt[0] if nxt else None
        rows[(C, I, V)] = (ret, status)
    return rows


def rule_returned_state(F, R, fns, floor=12):
    """R-C02-5: every do_minimize returns the state it passed to done()"""
    n = 0
    for f in fns:
        if f.name != "do_minimize" or f.is_lambda or not f.cls:
            continue
        dones = [c for c in f.calls(lambda x: callee(x) == "nano::solver_t::done")]
        lam_dones = [c for _, g in F.lambdas_in(f) for c in g.calls(lambda x: callee(x) == "nano::solver_t::done")]
        if not dones and not lam_dones:
            continue
        n += 1
        sds = {ref_decl(args(c)[0]) for c in dones + lam_dones}
        inst = "%s returns" % f.qn
        rets = [x for x in f.nodes() if x["k"] == "return" and not any(a["k"] == "lambda" for a in f.ancestors(x))]
        ok = len(sds) == 1
        S = next(iter(sds)) if sds else None
        detail = ""
        for r in rets:
            v = skip(r["c"][0]) if r.get("c") else None
            while v is not None and v["k"] == "construct" and len(v.get("c", ())) == 1:
                v = skip(v["c"][0])
            if v is None:
                ok = False
                continue
            if ref_decl(v) == S:
                continue
            if v["k"] == "cond":
                c0 = skip(v["c"][0])
                if is_call(c0, "nano::solver_state_t::valid") and ref_decl(obj(c0)) == S and ref_decl(v["c"][1]) == S:
                    P = ref_decl(v["c"][2])
                    # P must only ever be assigned from S
                    asg = [x for x in f.nodes() if assignment(x) and ref_decl(assignment(x)[0]) == P]
                    if asg and all(ref_decl(assignment(x)[1]) == S for x in asg):
                        continue
            ok = False
            detail = pp(r)
        R.check(ok, "R-C02-5", inst, f.loc(), "returns the state passed to done() (or its last valid copy)",
                "do_minimize passes %d different states to done() or returns another object: %s" % (len(sds), detail))
    R.floor("R-C02-5", n, floor, "do_minimize bodies")


# ------------------------------------------------------------------------------------------------ R-C02-7 adopted steps were tested

class _Opaque(Exception):
    pass


class _StepProvenance:
    """Abstract interpretation of a step-size search that overwrites the solver state unconditionally (`state.update(point)`): tracks the
    scalar step variable symbolically and the set of steps that passed a decrease test `f(point) {<,<=} state.fx() - margin` at the very
    point that was evaluated; loops are handled by the invariant "the current step is a tested one" (checked base + inductive, dropped
    otherwise). Every adopted point has to be a tested one - the only thing that keeps a solver without best-point tracking monotone."""

    def __init__(self, f, R, inst):
        self.f, self.R, self.inst = f, R, inst
        self.sites = 0
        self.opaque = None
        self.fresh = 0

    # ---- scalar expressions
    def ev(self, n, st):
        n = skip(n)
        k = n["k"]
        if k in ("cast", "paren") and n.get("c"):
            return self.ev(n["c"][0], st)
        if k in ("float", "int"):
            return sp.nsimplify(n["v"], rational=True)
        if k == "ref":
            if n.get("d") in st["env"]:
                return st["env"][n["d"]]
            return sp.Symbol("v_" + str(n.get("n")), real=True)
        if k == "mem":
            return sp.Symbol(str(n.get("n")), positive=True)
        if k == "un" and n.get("op") == "-":
            return -self.ev(n["c"][0], st)
        if k == "bin" and n["op"] in ("+", "-", "*", "/"):
            a, b = self.ev(n["c"][0], st), self.ev(n["c"][1], st)
            return {"+": a + b, "-": a - b, "*": a * b, "/": a / b}[n["op"]]
        raise _Opaque(pp(n)[:60])

    def scalar(self, n):
        t = ((skip(n) or {}).get("t") or "").replace("const ", "").replace("&", "").strip()
        return t in ("double", "float", "long", "int", "nano::scalar_t", "scalar_t")

    def point(self, n, st):
        """(base text, direction text, step) of `base - step * dir` (also through `x = ...` and a variable assigned such a point)"""
        n = skip(n)
        a = assignment(n)
        if a:
            p_ = self.point(a[1], st)
            d_ = ref_decl(a[0])
            if d_ is not None and p_ is not None:
                st["points"][d_] = p_
            return p_
        if n["k"] == "ref":
            return st["points"].get(n.get("d"))
        if n["k"] in ("bin", "call") and n.get("op") == "-" and len(n.get("c", ())) == 2:
            base, prod = skip(n["c"][0]), skip(n["c"][1])
            if prod["k"] in ("bin", "call") and prod.get("op") == "*" and len(prod.get("c", ())) == 2:
                u, v = prod["c"]
                for s_, d_ in ((u, v), (v, u)):
                    if self.scalar(s_) and not self.scalar(d_):
                        return (pp(base), pp(d_), self.ev(s_, st))
        return None

    # ---- statements; returns the list of fall-through states
    def copy(self, st):
        return {"env": dict(st["env"]), "tested": list(st["tested"]), "fx": dict(st["fx"]), "points": dict(st["points"])}

    def known(self, st, p_):
        return p_ is not None and any(q[0] == p_[0] and q[1] == p_[1] and sp.simplify(q[2] - p_[2]) == 0 for q in st["tested"])

    def expr(self, n, st):
        n = skip(n)
        if n is None:
            return
        k = n["k"]
        if k == "bin" and n["op"] == ",":
            self.expr(n["c"][0], st)
            self.expr(n["c"][1], st)
            return
        if k == "bin" and n["op"] in ("*=", "/=", "+=", "-=", "=") and skip(n["c"][0])["k"] == "ref" and self.scalar(n["c"][0]):
            d_ = skip(n["c"][0])["d"]
            rhs = skip(n["c"][1])
            if n["op"] == "=" and self.vgrad(rhs):
                self.evaluate(rhs, d_, st)
                return
            v = self.ev(rhs, st)
            old = st["env"].get(d_)
            if n["op"] != "=" and old is None:
                raise _Opaque(pp(n)[:60])
            st["env"][d_] = v if n["op"] == "=" else {"*=": old * v, "/=": old / v, "+=": old + v, "-=": old - v}[n["op"]]
            return
        if k == "call" and callee(n) == "nano::solver_state_t::update" and len(n["c"]) >= 2:
            p_ = self.point(args(n)[0], st)
            self.sites += 1
            where = self.f.loc(n)
            if p_ is None:
                self.R.incomplete("R-C02-7", self.inst + " adopt@%d" % n["l"], where, "the adopted point `%s` is not of the form base - step * direction" % pp(args(n)[0])[:60])
            elif self.known(st, p_):
                self.R.ok("R-C02-7", self.inst + " adopt@%d" % n["l"], where, "the adopted step %s passed the decrease test at the evaluated point" % p_[2])
            elif self.opaque:
                self.R.incomplete("R-C02-7", self.inst + " adopt@%d" % n["l"], where, "cannot interpret `%s`" % self.opaque)
            else:
                self.R.bad("R-C02-7", self.inst + " adopt@%d" % n["l"], where,
                           "state.update() adopts the point %s - (%s) * %s, but the steps that passed the decrease test on this path are %s: the adopted point was never "
                           "evaluated and tested, the state is overwritten unconditionally and the returned value can exceed the starting value" % (
                               p_[0], p_[2], p_[1], [str(q[2]) for q in st["tested"]] or "none"))
            st["tested"] = []
            return
        if self.vgrad(n):
            self.evaluate(n, None, st)
            return
        if k == "un" and n.get("op") in ("++", "--"):
            d_ = ref_decl(n["c"][0])
            if d_ in st["env"]:
                st["env"][d_] = st["env"][d_] + (1 if n["op"] == "++" else -1)
            return
        # anything else: must not write a tracked variable
        for x in walk(n):
            a = assignment(x)
            if a and ref_decl(a[0]) in st["env"]:
                raise _Opaque(pp(x)[:60])

    def vgrad(self, n):
        n = skip(n)
        return n is not None and n["k"] == "call" and callee(n).endswith("function_t::vgrad")

    def evaluate(self, call, target, st):
        p_ = self.point(args(call)[0], st)
        if target is not None:
            st["fx"][target] = p_

    def cond(self, n, st):
        """(state on true, state on false)"""
        n = skip(n)
        while n["k"] in ("paren",) and n.get("c"):
            n = skip(n["c"][0])
        if n["k"] == "un" and n.get("op") == "!":
            t_, f_ = self.cond(n["c"][0], st)
            return f_, t_
        if n["k"] == "bin" and n["op"] == "&&":
            t1, _ = self.cond(n["c"][0], st)
            t2, _ = self.cond(n["c"][1], t1)
            return t2, self.copy(st)
        t_, f_ = self.copy(st), self.copy(st)
        if n["k"] == "bin" and n["op"] in ("<", "<="):
            a, b = skip(n["c"][0]), skip(n["c"][1])
            for fxn, other, on_true in ((a, b, True), (b, a, False)):
                if fxn["k"] == "ref" and fxn.get("d") in st["fx"] and other["k"] == "bin" and other["op"] == "-" and \
                        skip(other["c"][0])["k"] == "call" and callee(skip(other["c"][0])) == "nano::solver_state_t::fx":
                    p_ = st["fx"][fxn["d"]]
                    if p_ is not None:
                        (t_ if on_true else f_)["tested"].append(p_)
                    return t_, f_
        if any(x["k"] == "ref" and x.get("d") in st["fx"] for x in walk(n)):
            self.opaque = self.opaque or pp(n)[:80]
        return t_, f_

    def stmt(self, n, st):
        if n is None:
            return [st]
        k = n["k"]
        if k == "block":
            sts = [st]
            for c in n.get("c", ()):
                nxt = []
                for s_ in sts:
                    nxt += self.stmt(c, s_)
                sts = nxt
            return sts
        if k == "declstmt":
            for v in n.get("c", ()):
                if v["k"] != "var":
                    continue
                init = skip(v["c"][0]) if v.get("c") else None
                if init is not None and self.vgrad(init):
                    self.evaluate(init, v["d"], st)
                elif init is not None and self.scalar(v):
                    try:
                        st["env"][v["d"]] = self.ev(init, st)
                    except _Opaque:
                        pass
            return [st]
        if k == "if":
            r = n["r"]
            if "init" in r:
                i_ = n["c"][r.index("init")]
                if i_ is not None:
                    if i_["k"] == "declstmt":
                        self.stmt(i_, st)
                    else:
                        self.expr(i_, st)
            c_ = n["c"][r.index("cond")]
            if skip(c_)["k"] == "bin" and skip(c_)["op"] == ",":
                self.expr(skip(c_)["c"][0], st)
                c_ = skip(c_)["c"][1]
            t_, f_ = self.cond(c_, st)
            out = self.stmt(n["c"][r.index("then")], t_)
            out += self.stmt(n["c"][r.index("else")], f_) if "else" in r and n["c"][r.index("else")] is not None else [f_]
            return out
        if k in ("for", "while"):
            r = n["r"]
            if "init" in r and n["c"][r.index("init")] is not None:
                self.stmt(n["c"][r.index("init")], st) if n["c"][r.index("init")]["k"] == "declstmt" else self.expr(n["c"][r.index("init")], st)
            body = n["c"][r.index("body")]
            written = {ref_decl(assignment(x)[0]) for x in walk(body) if assignment(x)} & set(st["env"])
            for attempt in ("tested", "nothing"):
                head = self.copy(st)
                was = {d_: head["env"][d_] for d_ in written}
                for d_ in written:
                    self.fresh += 1
                    head["env"][d_] = sp.Symbol("T%d" % self.fresh, positive=True)
                head["tested"] = []
                head["fx"] = {}
                if attempt == "tested":
                    # base: every tested point stays tested with the widened step substituted
                    base_ok = bool(st["tested"]) and len(written) == 1
                    if not base_ok:
                        continue
                    d_ = next(iter(written))
                    keep = [q for q in st["tested"] if sp.simplify(q[2] - was[d_]) == 0]
                    if not keep:
                        continue
                    head["tested"] = [(q[0], q[1], head["env"][d_]) for q in keep]
                probe = _StepProvenance(self.f, _Mute(), self.inst)
                probe.fresh = self.fresh
                ends = probe.stmt(body, probe.copy(head))
                if attempt == "tested":
                    d_ = next(iter(written))
                    if not all(any(q[0] == h[0] and q[1] == h[1] and sp.simplify(q[2] - e["env"][d_]) == 0 for q in e["tested"]) for e in ends for h in head["tested"]):
                        continue        # not inductive: fall back to the weaker invariant
                self.stmt(body, self.copy(head))
                return [head]       # the loop is left at its head: widened step, invariant
            return [st]
        if k == "return":
            return []
        if k in ("break", "continue"):
            raise _Opaque(k)
        self.expr(n, st)
        return [st]


class _Mute:
    def ok(self, *a, **k):
        pass

    def bad(self, *a, **k):
        pass

    def incomplete(self, *a, **k):
        pass


def rule_adopted_steps(F, R):
    """R-C02-7: the gradient-sampling line search (the only solver code that overwrites the state without best-point tracking or the
    registered line-search conditions) adopts only steps that passed its decrease test"""
    fs = [f for f in F.functions.values() if strip_targs(f.qn) == "nano::gsample::lsearch_t::step" and f.body is not None]
    seen = set()
    n = 0
    for f in sorted(fs, key=lambda f: f.key):
        inst = "gsample step@%s" % f.key[-44:]
        sp_ = _StepProvenance(f, R, inst)
        st = {"env": {}, "tested": [], "fx": {}, "points": {}}
        try:
            sp_.stmt(f.body, st)
        except _Opaque as e:
            R.incomplete("R-C02-7", inst, f.loc(), "cannot interpret `%s`" % e)
            continue
        n += sp_.sites
    # who-may-overwrite: the unconditional overloads of solver_state_t::update are called from this search, the line-search / curve-search
    # solvers and the constrained outer loops only (a new caller needs its own argument)
    R.floor("R-C02-7", n, 2, "adoption sites in the gradient-sampling line search")


def rule_rqb_adoption(F, R):
    """R-C02-7 (RQB): the bundle solver overwrites the state unconditionally (`state.update(y, gy, fy)`) only on a step status for which the curve
    search established the decrease (descent_step, cutting_plane_step) - a must-dataflow fact generated on the true edge of
    `status == csearch_status::<one of them>` for the status of the latest search call. Any other status (max_iters when the budget ran out
    mid-search, failed, ...) carries a trial point that passed no test."""
    from ..cfg import must_dataflow
    n = 0
    for f in F.functions.values():
        if f.body is None or f.is_lambda or f.name != "do_minimize" or "rqb" not in (f.cls or ""):
            continue
        cfg = f.cfg
        status_vars = set()
        for v in f.nodes():
            if v["k"] == "var" and v.get("bindings") and v.get("c") and any(y["k"] == "call" and callee(y) == "nano::csearch_t::search" for y in walk(v["c"][0])):
                for b in v["bindings"]:
                    status_vars.add(b["d"])

        def telem(facts, e):
            if e.kind == "node" and e.node["k"] == "call" and callee(e.node) == "nano::csearch_t::search":
                facts.discard("D")

        def tedge(facts, b, k):
            if b.cond is None or len(b.succ) != 2 or k != 0:
                return
            c = skip(b.cond)
            if c["k"] in ("bin", "call") and c.get("op") == "==":
                sides = [skip(x_) for x_ in c["c"][-2:]]
                txt = [pp(x_) for x_ in sides]
                if any(t_.endswith("csearch_status::" + s_) for t_ in txt for s_ in ("descent_step", "cutting_plane_step")) and \
                        any(y["k"] == "ref" and y.get("d") in status_vars for x_ in sides for y in walk(x_)):
                    facts.add("D")
        IN, before = must_dataflow(cfg, set(), telem, tedge)
        for e in cfg.elems():
            if e.kind != "node" or e.node["k"] != "call" or callee(e.node) != "nano::solver_state_t::update" or len(args(e.node)) < 3 or skip(args(e.node)[1])["k"] in ("construct", "defarg"):
                continue
            facts = before(e.block, e.pos)
            if facts is None:
                continue
            n += 1
            R.check("D" in facts, "R-C02-7", "rqb adopt@%d" % e.node["l"], f.loc(e.node), "the state is overwritten only on a descent / cutting-plane step of the latest curve search",
                    "`%s` is reached on a path on which the status of the latest curve search was not compared equal to descent_step / cutting_plane_step: for any other status "
                    "(max_iters when the budget runs out inside the search, failed) the trial point passed no decrease test, and the returned value can exceed the starting value" % pp(e.node)[:50])
    R.floor("R-C02-7/rqb", n, 2, "unconditional state overwrites in RQB")


def run(ctx):
    R = ctx.report
    tus = ctx.all_tus() if ctx.thorough else SOLVER_TUS
    F = ctx.facts(tus)
    fns = [f for f in F.functions.values() if not f.relfile.startswith("/")]
    solver_fns = [f for f in fns if f.relfile.startswith(("src/solver", "include/nano/solver"))]
    rule_triples(F, R, solver_fns)
    rule_state_coupdate(F, R)
    rule_csearch(F, R)
    rule_counters(F, R, fns)
    rule_budget_loops(F, R, fns)
    rule_done_and_status(F, R, fns)
    rule_returned_state(F, R, fns)
    rule_adopted_steps(F, R)
    rule_rqb_adoption(F, R)
    from . import c07
    c07.rule_cgdescent_bracket(F, R, rule="R-C02-7")
