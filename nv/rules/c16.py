"""C16 - tensor indexing, slicing and reshaping address exactly the right elements (DESIGN 3, C16)."""
import os
import re
import subprocess
import sympy as sp

from ..cfg import must_dataflow
from ..facts import AnalysisBroken, walk, strip_targs, REPO, VERIF, compile_flags
from ..pp import pp, skip, canon_text as CT
from ..util import args, assignment, callee, is_call, obj, ref_decl, find_var, root_of, member_path
from ..symexec import Interp, Return, is_arr, truth
from ..kalg import OutOfFragment

META = {
    "level": "other",
    "technique": "symbolic evaluation of the instantiated index/view templates to polynomials compared with the row-major formula; "
                 "must-dataflow (dims and data written together on every path) over storage conversions incl. helper inlining; compile-fail witnesses",
    "explanation": "For every instantiation (ranks 1..5, every prefix length) produced by witness/tensor_inst.cpp the bodies of index, index0, dims0, "
                   "size, offset, offset0, operator(), vector, matrix, tensor, slice and reshape (with the -1 at every position) are evaluated "
                   "symbolically (recursion and if-constexpr already unrolled by the instantiation) and the resulting polynomial in the "
                   "dimensions and indices must equal the row-major definition: offset = sum_k i_k prod_{j>k} d_j, view pointer = data + offset of the "
                   "prefix, view extent = product/list of the remaining dimensions, slice = [begin*prod d_1.., (end-begin) x d_1..], reshape keeps the "
                   "pointer and infers size/prod(others). Storage conversions: every converting constructor/assignment of the owning, mapping and "
                   "const-mapping storages sets the dimensions from other.dims() and the data from other.data() (with other.size() elements) on "
                   "every path, also through private helpers. The summed-area table recurrence yields the naive prefix sums (rank 1 and the rank-N step on symbolic "
                   "instances) and every partial sum is carried in the output scalar type; remove_if compacts the kept rows in order for every keep/drop pattern of a "
                   "3-row instance, indexed() gathers row indices(i) into row i, stack() lays blocks out contiguously. Type-level: writing through a constant map, resizing a map, assigning to a constant map, "
                   "mapping a const owning tensor mutably and using the wrong number of indices do not compile (each with a compiling twin).",
    "not_decided": " Eigen's own Map addressing; exact divisibility in reshape (asserted by the code)",
    "assumptions": ["Eigen::Map(ptr, n) addresses ptr[0..n)", "the -1 inference is evaluated over the rationals (the code asserts divisibility)"],
}

TUS = ["witness/tensor_inst.cpp"]
THIS = ("this",)
PTR = sp.Symbol("ptr")


def psym(name):
    return sp.Symbol(name, integer=True, positive=True)


class ElemRef:
    def __init__(self, lst, j):
        self.lst, self.j = lst, j


def array_len(ty):
    m = re.search(r"std::array<[^,]+,\s*(\d+)", ty or "")
    return int(m.group(1)) if m else None


class TInterp(Interp):
    int_div_floor = False       # reshape asserts that the given dimensions divide the size: the inferred dimension is the exact quotient
    MAXDEPTH = 24

    def sub(self, g, vals):
        if self.depth >= self.MAXDEPTH:
            raise OutOfFragment("call depth")
        s = TInterp(self.F, g, n=self.n, members=self.members, opaque=self.opaque)
        s.depth = self.depth + 1
        for p, v in zip(g.params, vals):
            ty = (p.get("t") or "").rstrip()
            # by-value std::array parameters are copies; tensor maps passed by value are views of the caller's storage
            s.env[p["d"]] = list(v) if is_arr(v) and not ty.endswith("&") and "tensor_t<" not in ty else v
        return s.run()

    def ev(self, n):
        n0 = skip(n)
        if n0 is None:
            raise OutOfFragment("empty expression")
        k = n0["k"]
        if k == "this":
            return THIS
        if k == "ref" and isinstance(self.env.get(n0["d"]), ElemRef):
            r = self.env[n0["d"]]
            return r.lst[r.j]
        if k == "construct" and not n0.get("c") and array_len(n0.get("t") or n0.get("cls") or ""):
            return [sp.Integer(0)] * array_len(n0.get("t"))
        if k == "idx":
            base, i = self.ev(n0["c"][0]), self.ev(n0["c"][1])
            if is_arr(base):
                return base[int(i)]
            return ("deref", sp.expand(base + i))
        if k == "un" and n0["op"] == "*":
            v = self.ev(n0["c"][0])
            if v == THIS:
                return THIS
        return super().ev(n)

    def call(self, n, t):
        ck, q = n.get("ck"), callee(n)
        name = q.split("::")[-1]
        c = n.get("c", ())
        if ck == "mem":
            o = self.ev(c[0])
            a = [self.ev(x) for x in c[1:]]
            if isinstance(o, tuple) and o and o[0] == "range":
                if name == "begin":
                    return o[1]
                if name == "end":
                    return o[2]
                if name == "size":
                    return o[2] - o[1]
            if o == THIS:
                if name == "data":
                    return PTR
                tg = self.F.resolve(n)
                if not tg:
                    raise OutOfFragment("member function %s has no body" % q)
                return self.sub(tg[0], a)
            if is_arr(o) and name == "fill" and len(a) == 1:
                o[:] = [a[0]] * len(o)
                return o
            if is_arr(o) and name in ("tensor", "vector", "array") and len(a) == 1 and o and is_arr(o[0]):
                return o[int(a[0])]          # first-axis sub-tensor of a nested-list tensor (an alias, like the real view)
            if is_arr(o) and name in ("tensor", "vector", "array") and not a:
                return o
            if is_arr(o) and name == "size" and not a and n.get("targs") and str(n["targs"][0]).rstrip("UL") == "0":
                return sp.Integer(len(o))
            if is_arr(o) and name in ("begin", "end", "cbegin", "cend") and not a:
                return ("iter", o, name.lstrip("c"))
            if is_arr(o) and name == "size" and not a and q.startswith("std::array"):
                return sp.Integer(len(o))
            raise OutOfFragment("method %s on a non-this object: %s" % (name, t[:60]))
        if ck == "op" and n.get("op") == "[]" and len(c) == 2:
            base = self.ev(c[0])
            if is_arr(base):
                return base[int(self.ev(c[1]))]
        if ck == "op" and n.get("op") == "()" and len(c) == 2:
            base0 = self.env.get(skip(c[0]).get("d")) if skip(c[0])["k"] == "ref" else None
            if isinstance(base0, tuple) and base0 and base0[0] == "pyfn":
                return base0[1](self.ev(c[1]))
        if ck == "op" and n.get("op") == "()" and len(c) >= 2 and self.ev(c[0]) == THIS:
            tg = self.F.resolve(n)
            if tg:
                return self.sub(tg[0], [self.ev(x) for x in c[1:]])
        if ck == "fn":
            if q == "std::get" and len(c) == 1:
                v = self.ev(c[0])
                if is_arr(v):
                    return v[int(str(n["targs"][0]).rstrip("UL"))]
            if q in ("nano::map_vector", "nano::map_matrix", "nano::map_tensor"):
                vals = [self.ev(x) for x in c]
                ext = list(vals[1]) if len(vals) == 2 and is_arr(vals[1]) else list(vals[1:])
                return ("map", name, sp.expand(vals[0]), ext)
            if q == "nano::make_dims":
                return [self.ev(x) for x in c]
            if q in ("std::min", "std::max") and len(c) == 2:
                v = [sp.sympify(self.ev(x)) for x in c]
                if all(x.is_number for x in v):
                    return min(v) if q == "std::min" else max(v)
            if q == "std::partial_sum" and len(c) == 3:
                v = [self.ev(x) for x in c]
                if all(isinstance(x, tuple) and x and x[0] == "iter" for x in v) and v[0][1] is v[1][1] and (v[0][2], v[1][2], v[2][2]) == ("begin", "end", "begin"):
                    src, dst = v[0][1], v[2][1]
                    acc = sp.Integer(0)
                    for j, x in enumerate(list(src)):
                        acc = acc + x
                        dst[j] = acc
                    return ("iter", dst, "end")
                raise OutOfFragment("partial_sum over unknown ranges")
            tg = self.F.resolve(n)
            if tg and not q.startswith("std::"):
                return self.sub(tg[0], [self.ev(x) for x in c])
        return super().call(n, t)

    def lvalue_set(self, lhs, fn):
        l0 = skip(lhs)
        if l0["k"] == "ref" and isinstance(self.env.get(l0["d"]), ElemRef):
            r = self.env[l0["d"]]
            r.lst[r.j] = fn(r.lst[r.j])
            return r.lst[r.j]
        if l0["k"] == "call" and callee(l0) == "std::get" and len(l0["c"]) == 1:
            base = self.ev(l0["c"][0])
            j = int(str(l0["targs"][0]).rstrip("UL"))
            base[j] = fn(base[j])
            return base[j]
        if l0["k"] == "call" and l0.get("op") == "[]" and len(l0["c"]) == 2:
            base = self.ev(l0["c"][0])
            j = int(self.ev(l0["c"][1]))
            base[j] = fn(base[j])
            return base[j]
        return super().lvalue_set(lhs, fn)

    def ex(self, s):
        s0 = skip(s)
        if s0 is not None and s0["k"] == "rangefor":
            r = s0["r"]
            var, rng, body = (s0["c"][r.index(x)] for x in ("var", "range", "body"))
            lst = self.ev(rng)
            if not is_arr(lst):
                raise OutOfFragment("range-for over a non-array")
            for j in range(len(lst)):
                self.env[var["d"]] = ElemRef(lst, j) if var.get("isref") else lst[j]
                self.ex(body)
            return
        if s0 is not None and s0["k"] == "declstmt":
            super().ex(s)
            for v in s0.get("c", ()):
                if v["k"] == "var" and not v.get("isref") and is_arr(self.env.get(v["d"])):
                    self.env[v["d"]] = list(self.env[v["d"]])
                if v["k"] == "var" and not v.get("c") and array_len(v.get("t")):
                    self.env[v["d"]] = [sp.Integer(0)] * array_len(v.get("t"))
            return
        return super().ex(s)


def lin(d, idx):
    """row-major offset of the index prefix idx (missing indices are zero)"""
    r = len(d)
    return sp.expand(sum(idx[k] * sp.prod(d[k + 1:]) for k in range(len(idx))))


def eq(a, b):
    if is_arr(a) or is_arr(b):
        return is_arr(a) and is_arr(b) and len(a) == len(b) and all(eq(x, y) for x, y in zip(a, b))
    if isinstance(a, tuple) or isinstance(b, tuple):
        return isinstance(a, tuple) and isinstance(b, tuple) and len(a) == len(b) and all(eq(x, y) for x, y in zip(a, b))
    if isinstance(a, str) or isinstance(b, str):
        return a == b
    return sp.simplify(sp.expand(sp.sympify(a) - sp.sympify(b))) == 0


def rank_of(f):
    """rank of the tensor a function instance works on"""
    for p in f.params:
        r = array_len(p.get("t"))
        if r:
            return r
    m = re.search(r"tensor_(?:t<[^,]+, [^,]+, |base_t<[^,]+, )(\d+)", f.key)
    return int(m.group(1)) if m else None


def rule_polynomials(F, R, max_rank):
    counts = {}

    def run(f, d, vals, members=True):
        it = TInterp(F, f, members={"m_dims": list(d)} if members else {})
        for p, v in zip(f.params, vals):
            it.env[p["d"]] = v
        return it.run()

    fns = [f for f in F.functions.values() if f.relfile in ("include/nano/tensor/dims.h", "include/nano/tensor/base.h", "include/nano/tensor/tensor.h")]
    for f in sorted(fns, key=lambda f: (f.qn, f.key)):
        short = f.qn.split("::")[-1]
        r = rank_of(f)
        if r is None or r > max_rank:
            continue
        d = [psym("d%d" % j) for j in range(r)]
        inst = "%s@%s" % (f.key[:110], f.loc())
        S = sp.prod(d)
        try:
            if f.qn in ("nano::index", "nano::index0", "nano::dims0", "nano::size") and f.params and array_len(f.params[0].get("t")):
                k = len(f.params) - 1
                idx = [psym("i%d" % j) for j in range(k)]
                got = run(f, d, [list(d)] + idx, members=False)
                want = {"index": lin(d, idx), "index0": lin(d, idx), "dims0": d[k:], "size": S}[short]
                if short == "index" and k != r:
                    R.bad("R-C16-1", inst, f.loc(), "index() instantiated with %d indices for rank %d" % (k, r))
                    continue
            elif f.cls == "nano::tensor_base_t" and short in ("offset", "offset0", "dims0") or (f.cls == "nano::tensor_base_t" and short == "size" and not f.params and "size<" not in f.key):
                k = len(f.params)
                idx = [psym("i%d" % j) for j in range(k)]
                got = run(f, d, idx)
                want = {"offset": lin(d, idx), "offset0": lin(d, idx), "dims0": d[k:], "size": S}[short]
            elif f.cls == "nano::tensor_t" and short in ("tvector", "tmatrix", "ttensor", "vector", "matrix", "tensor"):
                priv = short.startswith("t") and short != "tensor"
                k = len(f.params) - (1 if priv else 0)
                idx = [psym("i%d" % j) for j in range(k)]
                got = run(f, d, ([PTR] if priv else []) + idx)
                kind = short[1:] if priv else short
                base = sp.expand(PTR + lin(d, idx))
                want = {"vector": ("map", "map_vector", base, [sp.prod(d[k:])]),
                        "matrix": ("map", "map_matrix", base, [d[r - 2], d[r - 1]] if r >= 2 else None),
                        "tensor": ("map", "map_tensor", base, d[k:])}[kind]
                if kind == "matrix" and k != r - 2:
                    R.bad("R-C16-1", inst, f.loc(), "matrix view with %d indices for rank %d" % (k, r))
                    continue
            elif f.cls == "nano::tensor_t" and short in ("tslice", "slice"):
                b, e = psym("b"), psym("e")
                if short == "tslice":
                    vals = [PTR, b, e]
                elif len(f.params) == 1:
                    vals = [("range", b, e)]
                else:
                    vals = [b, e]
                got = run(f, d, vals)
                want = ("map", "map_tensor", sp.expand(PTR + b * sp.prod(d[1:])), [e - b] + d[1:])
            elif f.cls == "nano::tensor_t" and short in ("treshape", "reshape"):
                priv = short == "treshape"
                k = len(f.params) - (1 if priv else 0)
                ok, detail = True, ""
                for pos in range(-1, k):
                    s = [psym("s%d" % j) for j in range(k)]
                    if pos >= 0:
                        s[pos] = sp.Integer(-1)
                    got = run(f, d, ([PTR] if priv else []) + s)
                    w = list(s)
                    if pos >= 0:
                        w[pos] = S / sp.prod([x for j, x in enumerate(s) if j != pos])
                    want = ("map", "map_tensor", PTR, w)
                    if not eq(got, want):
                        ok, detail = False, "with -1 at position %d: got %s, the definition gives %s" % (pos, got, want)
                        break
                # empty tensors: an explicit 0 is a dimension like any other (source shapes with a zero extent, explicit targets with a 0 at each position)
                for zpos in ((0, r - 1) if ok else ()):
                    dz = [sp.Integer(3)] * r
                    dz[zpos] = sp.Integer(0)
                    for pos in range(k):
                        s = [sp.Integer(2)] * k
                        s[pos] = sp.Integer(0)
                        got = run(f, dz, ([PTR] if priv else []) + s)
                        want = ("map", "map_tensor", PTR, s)
                        if not eq(got, want):
                            ok, detail = False, "of an empty tensor (%s) to (%s): got %s, the definition gives %s" % (
                                " x ".join(map(str, dz)), ", ".join(map(str, s)), got, want)
                            break
                    if not ok:
                        break
                counts[short] = counts.get(short, 0) + 1
                R.check(ok, "R-C16-1", inst, f.loc(), "reshape keeps the data pointer, takes explicit dimensions (0 included) as given and infers the -1 dimension as "
                        "size/prod(others) at every position", "reshape " + detail)
                continue
            elif f.cls == "nano::tensor_t" and short == "operator()" and f.params:
                k = len(f.params)
                idx = [psym("i%d" % j) for j in range(k)]
                got = run(f, d, idx)
                if k == 1:
                    want = ("deref", sp.expand(PTR + idx[0]))
                else:
                    want = ("deref", sp.expand(PTR + lin(d, idx)))
                    if k != r:
                        R.bad("R-C16-1", inst, f.loc(), "operator() with %d indices for rank %d" % (k, r))
                        continue
            else:
                continue
        except OutOfFragment as ex:
            R.incomplete("R-C16-1", inst, f.loc(), "cannot evaluate symbolically: %s" % ex)
            continue
        counts[short] = counts.get(short, 0) + 1
        R.check(eq(got, want), "R-C16-1", inst, f.loc(), "evaluates to the row-major definition %s" % (want,), "evaluates to %s, the row-major definition is %s" % (got, want))
    floors = {"index": 5, "index0": 12, "dims0": 12, "size": 8, "offset": 5, "offset0": 12, "tvector": 8, "tmatrix": 3, "ttensor": 8, "tslice": 5,
              "treshape": 8, "operator()": 8, "vector": 8, "matrix": 3, "tensor": 8, "slice": 5, "reshape": 8}
    for k_, m in sorted(floors.items()):
        R.floor("R-C16-1/" + k_, counts.get(k_, 0), m, "instantiations of %s evaluated" % k_)


# ---------------------------------------------------------------------------------------------- storage conversions
STORAGES = ("nano::tensor_vector_storage_t", "nano::tensor_carray_storage_t", "nano::tensor_marray_storage_t")


def is_other_call(n, other_d, name):
    n = skip(n)
    return n is not None and n["k"] == "call" and n.get("ck") == "mem" and callee(n).split("::")[-1] == name and not args(n) and ref_decl(obj(n)) == other_d


def mentions(n, other_d, name):
    return any(is_other_call(x, other_d, name) for x in walk(n))


def conversion_summary(F, f, other_d, depth=0):
    """facts that hold at every return of f: 'dims' (dimensions set from other.dims()), 'data' (elements copied/aliased from other.data())"""
    cfg = f.cfg
    locals_from_other = {}

    def own_size(n):
        return any(x["k"] == "call" and x.get("ck") == "mem" and callee(x).endswith("tensor_base_t::size") and not args(x) and skip(obj(x))["k"] == "this" for x in walk(n))

    def telem(facts, e):
        if e.kind != "node":
            return
        n = e.node
        for v in ([n] if n["k"] == "var" else [x for x in n.get("c", ()) if x["k"] == "var"] if n["k"] == "declstmt" else ()):
            if v.get("c") and mentions(v["c"][0], other_d, "data"):
                # a local copy of the source elements: other.size() of them (or this->size() once the dimensions have been taken over)
                locals_from_other[v["d"]] = bool(mentions(v["c"][0], other_d, "size") or (own_size(v["c"][0]) and "dims" in facts))
        if n["k"] == "call" and callee(n).endswith("tensor_base_t::_resize") and args(n):
            if is_other_call(args(n)[0], other_d, "dims"):
                facts.add("dims")
            else:
                facts.discard("dims")
        a = assignment(n)
        if a and member_path(a[0]) == "m_data" or (a and "m_data" in pp(a[0]) and callee(skip(a[0])).endswith("map_vector")):
            if mentions(a[1], other_d, "data") and (f.cls != STORAGES[0] or mentions(a[1], other_d, "size") or (own_size(a[1]) and "dims" in facts)):
                facts.add("data")
                # an owning storage whose data is assigned from a map of n elements has n elements: the dims must follow separately
        if n["k"] == "call" and callee(n) == "std::swap" and len(args(n)) == 2:
            x, y = args(n)
            for p, q in ((x, y), (y, x)):
                if member_path(p) == "m_data" and ref_decl(q) in locals_from_other and locals_from_other[ref_decl(q)]:
                    facts.add("data")
        if n["k"] == "call" and n.get("ck") == "mem" and skip(obj(n)) is not None and skip(obj(n))["k"] == "this" and depth < 3:
            # private helper taking `other`
            for j, a_ in enumerate(args(n)):
                if ref_decl(a_) == other_d:
                    tg = F.resolve(n)
                    if tg and j < len(tg[0].params):
                        facts |= conversion_summary(F, tg[0], tg[0].params[j]["d"], depth + 1)

    IN, before = must_dataflow(cfg, set(), telem)
    out = None
    rets = [x for x in f.nodes() if x["k"] == "return"]
    points = []
    for r in rets:
        w = cfg.where_enclosing(r)
        if w:
            points.append(before(*w))
    if not rets:
        # void helper: facts at the exit block
        ex = cfg.blocks.get(cfg.exit)
        for p in (ex.pred if ex else ()):
            b = cfg.blocks[p]
            points.append(before(p, len(b.elems) + 1))
    for fs in points:
        if fs is None:
            continue
        out = set(fs) if out is None else (out & fs)
    return out or set()


def rule_storage(F, R):
    n_ctor = n_asg = 0
    for f in sorted(F.functions.values(), key=lambda f: f.key):
        if f.cls not in STORAGES or f.relfile != "include/nano/tensor/storage.h" or len(f.params) != 1:
            continue
        pt = f.params[0].get("t") or ""
        if not any(s.split("::")[-1] in pt for s in STORAGES):
            continue
        other = f.params[0]["d"]
        inst = "%s@%s" % (f.key[:120], f.loc())
        same = strip_targs(pt.replace("const ", "").rstrip(" &")) == f.cls
        if f.raw.get("ctor"):
            if same:
                continue
            n_ctor += 1
            base = [i for i in f.inits if i.get("base")]
            data = [i for i in f.inits if i.get("n") == "m_data"]
            okb = len(base) == 1 and any(is_other_call(x, other, "dims") for x in walk(base[0]))
            own = any(x["k"] == "call" and callee(x).endswith("tensor_base_t::size") and not args(x) and skip(obj(x))["k"] == "this" for x in walk(data[0])) if data else False
            okd = len(data) == 1 and mentions(data[0], other, "data") and (f.cls != STORAGES[0] or mentions(data[0], other, "size") or (own and okb))
            R.check(okb and okd, "R-C16-3", inst, f.loc(), "dimensions from other.dims() and data from other.data() are initialised together",
                    "converting constructor does not take %s from the source storage" % ("the dimensions" if not okb else "the data (and element count)"))
        elif f.name == "operator=":
            n_asg += 1
            facts = conversion_summary(F, f, other)
            need = {"data", "dims"} if f.cls == STORAGES[0] else {"data"}
            missing = sorted(need - facts)
            R.check(not missing, "R-C16-3", inst, f.loc(), "every path sets %s from the source storage" % " and ".join(sorted(need)),
                    "there is a path through this assignment that does not set the %s from the source storage: the tensor keeps stale %s" % (" and ".join(missing), " and ".join(missing)))
            if f.cls == STORAGES[2]:
                # fixed-shape map: element count of the copy is this->size() == other.size()
                tgt = [x for x in F.functions.values() if x.cls == f.cls and x.name == "copy" and x.relfile == f.relfile]
                okc = bool(tgt) and all(any(assignment(y) and "map_vector(m_data, size())" in pp(assignment(y)[0]) and "other.size()" in pp(assignment(y)[1]) for y in x.nodes()) for x in tgt)
                R.check(okc, "R-C16-3", inst + " extent", f.loc(), "copies size() elements into the mapped array from other.size() elements", "mapped copy no longer uses (m_data, size()) <- (other.data(), other.size())")
    R.floor("R-C16-3/ctor", n_ctor, 5, "converting storage constructors")
    R.floor("R-C16-3/assign", n_asg, 4, "converting storage assignments")
    # tensor_t level: conversions delegate to the storage with the very same object
    n = 0
    for f in sorted(F.functions.values(), key=lambda f: f.key):
        if f.cls != "nano::tensor_t" or f.relfile != "include/nano/tensor/tensor.h" or len(f.params) != 1 or "tensor_t<" not in (f.params[0].get("t") or ""):
            continue
        other = f.params[0]["d"]
        inst = "%s@%s" % (f.key[:120], f.loc())
        if f.raw.get("ctor") and not f.raw.get("implicit"):
            base = [i for i in f.inits if i.get("base")]
            if not base or base[0].get("implicit"):
                continue
            n += 1
            a = [x for x in walk(base[0]) if x["k"] == "construct"]
            ok = bool(a) and len(a[0].get("c", ())) == 1 and root_of(a[0]["c"][0]) == ("var", other)
            R.check(ok, "R-C16-3", inst, f.loc(), "delegates to the storage conversion with the source tensor", "tensor conversion does not pass the source tensor to its storage")
        elif f.name == "operator=" and f.body is not None:
            calls = [c for c in f.calls(lambda x: callee(x).endswith("storage_t::operator="))]
            if not calls:
                continue
            n += 1
            ok = len(calls) == 1 and root_of(args(calls[0])[0]) == ("var", other)
            R.check(ok, "R-C16-3", inst, f.loc(), "delegates to the storage assignment with the source tensor", "tensor assignment does not pass the source tensor to its storage")
    R.floor("R-C16-3/tensor", n, 5, "tensor-level conversions")


# ---------------------------------------------------------------------------------------------- compile-fail witnesses
def rule_compile_fail(R):
    src = os.path.join(VERIF, "witness", "compile_fail", "tensor_cf.cpp")
    if not os.path.exists(src):
        raise AnalysisBroken("compile-fail witness file missing")
    lines = open(src).read().split("\n")
    expect = {i + 1: l.split("// EXPECT-ERROR:")[1].strip() for i, l in enumerate(lines) if "// EXPECT-ERROR:" in l}
    cmd = ["clang++", "-fsyntax-only", "-ferror-limit=0"] + compile_flags() + [src]
    r = subprocess.run(cmd, capture_output=True, text=True)
    errs = {}
    group = None
    for line in r.stderr.split("\n"):
        m = re.match(r"^(\S+?):(\d+):\d+: (error|note|warning): (.*)$", line)
        if not m:
            continue
        if m.group(3) == "error":
            group = {"msg": m.group(4), "line": None}
        if group is not None and group["line"] is None and os.path.abspath(m.group(1)) == os.path.abspath(src):
            # the first position inside the witness file mentioned by this diagnostic group (the error itself or its
            # "in instantiation of ... requested here" note)
            group["line"] = int(m.group(2))
            errs.setdefault(group["line"], group["msg"])
    other = [l for l in errs if l not in expect]
    if other:
        raise AnalysisBroken("witness file has errors outside the marked lines (twins must compile): line %d: %s" % (other[0], errs[other[0]]))
    if "fatal error" in r.stderr:
        raise AnalysisBroken("witness file does not parse: " + r.stderr[-300:])
    for ln, what in sorted(expect.items()):
        R.check(ln in errs, "R-C16-2", what, "witness/compile_fail/tensor_cf.cpp:%d" % ln, "rejected by the compiler (%s)" % errs.get(ln, "")[:80],
                "this misuse now compiles: %s" % what)
    R.floor("R-C16-2", len(expect), 6, "compile-fail witnesses")


SCALAR_RANK = {"bool": (0, 1), "signed char": (0, 8), "char": (0, 8), "unsigned char": (0, 8), "short": (0, 16), "unsigned short": (0, 16), "int": (0, 32),
               "unsigned int": (0, 32), "long": (0, 64), "unsigned long": (0, 64), "long long": (0, 64), "unsigned long long": (0, 64),
               "float": (1, 32), "double": (1, 64), "long double": (1, 80)}


def scalar_rank(t):
    t = (t or "").replace("const ", "").replace("&", "").replace("*", "").strip()
    return SCALAR_RANK.get(t)


def rule_integral(F, R):
    """R-C16-4: the summed-area table is the naive prefix sum, accumulated in the output scalar type"""
    gets = [f for f in F.functions.values() if f.qn == "nano::integral_t::get" and f.relfile == "include/nano/tensor/integral.h"]
    R.floor("R-C16-4", len(gets), 5, "integral_t<N>::get instantiations")
    done = set()
    for f in sorted(gets, key=lambda f: f.key):
        m = re.search(r"integral_t<(\d+)>::get<([^,>]+), ([^>]+)>", f.key)
        if not m:
            R.incomplete("R-C16-4", f.key[:80], f.loc(), "cannot read rank / scalar types from the instantiation")
            continue
        rank, ti, to = int(m.group(1)), m.group(2).strip(), m.group(3).strip()
        inst = "integral_t<%d> %s->%s" % (rank, ti, to)
        # (a) recurrence on a small symbolic instance (ranks 1 and 2; higher ranks run the same rank-N body)
        if rank in (1, 2) and rank not in done:
            done.add(rank)
            try:
                if rank == 1:
                    A = [sp.Symbol("a%d" % i) for i in range(3)]
                    O = [sp.Symbol("o%d" % i) for i in range(3)]
                    it = TInterp(F, f)
                    it.env[f.params[0]["d"]], it.env[f.params[1]["d"]] = A, O
                    it.run()
                    want = [A[0], A[0] + A[1], A[0] + A[1] + A[2]]
                    ok = eq(O, want)
                else:
                    A = [[sp.Symbol("a%d%d" % (i, j)) for j in range(3)] for i in range(2)]
                    O = [[sp.Symbol("o%d%d" % (i, j)) for j in range(3)] for i in range(2)]
                    it = TInterp(F, f)
                    it.env[f.params[0]["d"]], it.env[f.params[1]["d"]] = A, O
                    it.run()
                    want = [[sum(A[p][q] for p in range(i + 1) for q in range(j + 1)) for j in range(3)] for i in range(2)]
                    ok = all(eq(O[i], want[i]) for i in range(2))
                R.check(ok, "R-C16-4", "recurrence rank %d" % rank, f.loc(), "the table equals the naive prefix sums on the symbolic %s instance" % ("3" if rank == 1 else "2x3"),
                        "the summed-area table is not the prefix sum: got %s, the definition gives %s" % (O, want))
            except OutOfFragment as e:
                R.incomplete("R-C16-4", "recurrence rank %d" % rank, f.loc(), "cannot evaluate: %s" % e)
        # (b) accumulation type: narrow inputs must be summed in the output type
        ro, ri = scalar_rank(to), scalar_rank(ti)
        if ro is None or ri is None:
            R.incomplete("R-C16-4", inst, f.loc(), "unknown scalar types")
            continue
        bad = []
        for x in f.nodes():
            if x["k"] == "bin" and x["op"] in ("+", "-", "*") and any("itensor" in pp(y) or "otensor" in pp(y) for y in x["c"]):
                rt = scalar_rank(x.get("t"))
                if rt is not None and (rt[0] < ro[0] or (rt[0] == ro[0] and rt[1] < min(ro[1], 32 if ro[0] == 0 else ro[1]))):
                    bad.append("%s computed in %s" % (pp(x)[:50], x.get("t")))
            if x["k"] == "call" and callee(x).startswith("std::") and callee(x).split("::")[-1] in ("partial_sum", "accumulate", "inclusive_scan", "exclusive_scan", "reduce", "transform_reduce", "inner_product"):
                # these algorithms accumulate in the value type of the first (input) iterator / of the initial value
                ta = x.get("targs") or []
                acc = None
                if callee(x).split("::")[-1] in ("accumulate", "reduce", "inner_product", "transform_reduce") and len(args(x)) >= 3:
                    acc = scalar_rank((skip(args(x)[2]) or {}).get("t"))
                elif ta:
                    acc = scalar_rank(str(ta[0]))
                if acc is None or acc[0] < ro[0] or acc[1] < ro[1]:
                    bad.append("%s accumulates in the input element type (%s), the table is %s" % (callee(x), ta[0] if ta else "?", to))
        R.check(not bad, "R-C16-4", inst, f.loc(), "every partial sum is carried in the output scalar type", "partial sums are not carried in the output type %s: %s (narrow inputs wrap / lose precision)" % (to, bad[:2]))


def rule_algorithms(F, R):
    """R-C16-5: gathers, in-place compaction and stacking address exactly the elements their contracts name"""
    import itertools
    # ---- remove_if: all keep/drop patterns on 3 rows, symbolic contents
    rms = [f for f in F.functions.values() if f.qn == "nano::remove_if" and f.relfile == "include/nano/tensor/algorithm.h"]
    R.floor("R-C16-5/remove_if", len(rms), 2, "remove_if instantiations")
    for f in sorted(rms, key=lambda f: f.key):
        ntens = len(f.params) - 1
        inst = "remove_if/%d tensors" % ntens
        ok, why = True, ""
        try:
            for flags in itertools.product((False, True), repeat=3):
                T = []
                for t in range(ntens):
                    rank2 = "double, 2>" in (f.params[1 + t].get("t") or "")
                    T.append([[sp.Symbol("t%d_%d%d" % (t, i, j)) for j in range(2)] for i in range(3)] if rank2 else [sp.Symbol("t%d_%d" % (t, i)) for i in range(3)])
                orig = [[list(r) if is_arr(r) else r for r in t] for t in T]
                it = TInterp(F, f)
                it.env[f.params[0]["d"]] = ("pyfn", lambda i, flags=flags: sp.true if (int(i) >= 3 or flags[int(i)]) else sp.false)
                for t in range(ntens):
                    it.env[f.params[1 + t]["d"]] = T[t]
                ret = it.run()
                keep = [i for i in range(3) if not flags[i]]
                if ret != len(keep):
                    ok, why = False, "flags %s: returns %s, %d rows are kept" % (flags, ret, len(keep))
                    break
                for t in range(ntens):
                    for pos, i in enumerate(keep):
                        if not eq(T[t][pos], orig[t][i]):
                            ok, why = False, "flags %s: row %d of tensor %d is %s, expected the kept row %d (%s)" % (flags, pos, t, T[t][pos], i, orig[t][i])
                            break
                    if not ok:
                        break
                if not ok:
                    break
            R.check(ok, "R-C16-5", inst, f.loc(), "for all 8 keep/drop patterns of 3 rows the kept rows are compacted in order in every tensor and their number is returned",
                    "remove_if does not compact the kept rows: " + why)
        except OutOfFragment as e:
            R.incomplete("R-C16-5", inst, f.loc(), "cannot evaluate: %s" % e)
    # ---- indexed gathers
    idx = [f for f in F.functions.values() if f.name == "indexed" and f.cls == "nano::tensor_t" and len(f.params) == 2 and f.relfile == "include/nano/tensor/tensor.h"]
    n = 0
    for f in sorted(idx, key=lambda f: f.key):
        own = "tensor_vector_storage_t" in (f.params[1].get("t") or "")
        inst = "indexed %s@%s" % ("resize" if own else "gather", f.key[40:75])
        n += 1
        if own:
            dimv = [v for v in f.nodes() if v["k"] == "var" and v["n"] == "dimensions" and v.get("c")]
            asg = [x for x in f.nodes() if assignment(x) and pp(assignment(x)[0]) == "dimensions[0]"]
            rs = [c for c in f.calls(lambda c: callee(c).split("::")[-1] == "resize")]
            fw = [c for c in f.calls(lambda c: callee(c).split("::")[-1] == "indexed")]
            ok = len(dimv) == 1 and pp(dimv[0]["c"][0]) == "dims()" and len(asg) == 1 and pp(assignment(asg[0])[1]) == "indices.size()" and \
                len(rs) == 1 and pp(rs[0]) == "subtensor.resize(dimensions)" and len(fw) == 1 and [pp(a) for a in args(fw[0])] == ["indices", "subtensor.tensor()"]
            R.check(ok, "R-C16-5", inst, f.loc(), "result has indices.size() rows of the source's trailing shape and is filled by the gather", "indexed() no longer sizes the result as [indices.size(), trailing dims]")
        else:
            loops = [x for x in f.nodes() if x["k"] == "for"]
            asg = [x for x in f.nodes() if assignment(x)]
            okl = len(loops) == 1 and pp(loops[0]["c"][loops[0]["r"].index("cond")]) == "(i < indices_size)" and "i = 0" in pp(loops[0]["c"][loops[0]["r"].index("init")]) and \
                "indices_size = indices.size()" in pp(loops[0]["c"][loops[0]["r"].index("init")])
            rows = [x for x in asg if pp(assignment(x)[0]) in ("subtensor.vector(i)", "subtensor(i)")]
            okr = len(rows) == 1 and re.sub(r"<[^()]*>", "", pp(assignment(rows[0])[1])) in ("vector(indices(i)).cast()", "cast(this->operator()(indices(i)))", "cast((*this)(indices(i)))", "cast(operator()(indices(i)))")
            if not rows:
                # another representation of the destination rows (not `subtensor.vector(i)` / `subtensor(i)`): undecided, not a violation
                R.incomplete("R-C16-5", inst, f.loc(), "the gather does not assign `subtensor.vector(i)` / `subtensor(i)`: its representation of the result rows is not recognised")
                continue
            R.check(okl and okr, "R-C16-5", inst, f.loc(), "row i of the result is row indices(i) of the source, for every i", "the gather no longer copies row indices(i) into row i for all i: %s" % [pp(x)[:60] for x in rows])
    R.floor("R-C16-5/indexed", n, 6, "indexed overloads")
    # ---- stack: segments / blocks are laid out contiguously
    st = [f for f in F.functions.values() if f.qn == "nano::detail::stack" and f.relfile == "include/nano/tensor/stack.h"]
    m = 0
    for f in sorted(st, key=lambda f: f.key):
        vec = "double, 1> &" in (f.params[0].get("t") or "")
        m += 1
        inst = "stack %s@%s" % ("vector" if vec else "matrix", f.key[-60:])
        if vec:
            asg = [x for x in f.nodes() if assignment(x) and pp(assignment(x)[0]).startswith("vector.segment")]
            ok = len(asg) == 1 and re.sub(r"<[^()]*>", "", pp(assignment(asg[0])[0])) == "vector.segment(row, block.size())"
            nx = [c for c in f.calls(lambda c: callee(c) == "nano::detail::stack")]
            ok = ok and all([pp(a) for a in args(c)[:2]] == ["vector", CT("(row + block.size())")] for c in nx)
            R.check(ok, "R-C16-5", inst, f.loc(), "the block fills [row, row + size) and the next block starts at row + size", "vector stacking no longer lays the segments out contiguously")
        else:
            asg = [x for x in f.nodes() if assignment(x) and pp(assignment(x)[0]).startswith("matrix.block")]
            tgt = re.sub(r"<[^()]*>", "", pp(assignment(asg[0])[0])) if asg else ""
            ok = len(asg) == 1 and tgt in ("matrix.block(row, col, block.rows(), block.cols())", "matrix.block(row, col, block.size(), 1)")
            lam = [g for _, g in F.lambdas_in(f)]
            if lam and [c for c in lam[0].calls(lambda c: callee(c) == "nano::detail::stack")]:
                g = lam[0]
                ifs = [x for x in g.nodes() if x["k"] == "if" and "matrix.cols()" in pp(x["c"][x["r"].index("cond")])]
                okn = len(ifs) == 1 and pp(ifs[0]["c"][ifs[0]["r"].index("cond")]) == CT("((col + block_cols) >= matrix.cols())")
                if okn:
                    th = [pp(a) for c in walk(ifs[0]["c"][ifs[0]["r"].index("then")]) if c["k"] == "call" and callee(c) == "nano::detail::stack" for a in args(c)[:3]]
                    el = [pp(a) for c in walk(ifs[0]["c"][ifs[0]["r"].index("else")]) if c["k"] == "call" and callee(c) == "nano::detail::stack" for a in args(c)[:3]]
                    okn = th == ["matrix", CT("(row + block_rows)"), "0"] and el == ["matrix", "row", CT("(col + block_cols)")]
                ok = ok and okn
                calls = [c for c in f.calls(lambda c: c.get("op") == "()" and pp(c["c"][0]) == "next")]
                ok = ok and len(calls) == 1 and [pp(a) for a in calls[0]["c"][1:]] in (["block.rows()", "block.cols()"], ["block.size()", "1"])
            R.check(ok, "R-C16-5", inst, f.loc(), "the block fills [row, row+rows) x [col, col+cols); the next block continues the row or starts the next block row", "matrix stacking no longer lays the blocks out row-major without gaps")
    R.floor("R-C16-5/stack", m, 4, "stack instantiations")


def _minus_one(n):
    n = skip(n)
    while n is not None and n["k"] == "cast" and n.get("c"):
        n = skip(n["c"][0])
    if n is None:
        return False
    if n["k"] == "int":
        return n["v"] == -1
    return n["k"] == "un" and n.get("op") == "-" and skip(n["c"][0])["k"] == "int" and skip(n["c"][0])["v"] == 1


def rule_inferred_dimension(F, R):
    """R-C16-6: `reshape` infers a -1 dimension as -size() / prod(given dimensions, -1): with a given dimension of 0 this is 0 / 0. The operations
    of the tensor library are stated for every shape including empty ones, so none of them may go through the inference with a given dimension
    that can be 0: inside include/nano/tensor every reshape call with a literal -1 has only positive literals (or operands guarded `0 < e` by a
    dominating test) as its other arguments. The witness file's own reshape(-1) calls prove that the matcher sees such calls."""
    sites, wit = 0, 0
    for f in F.functions.values():
        lib = f.relfile.startswith("include/nano/tensor/")
        witness = "witness" in (f.file or "")
        if not (lib or witness):
            continue
        for c in f.calls(lambda c: callee(c).split("::")[-1].split("<")[0] in ("reshape", "treshape") and "tensor_t" in callee(c)):
            a = args(c)
            if not any(_minus_one(x) for x in a):
                continue
            if witness:
                wit += 1
                continue
            sites += 1
            others = [x for x in a if not _minus_one(x)]
            bad = []
            for x in others:
                y = skip(x)
                while y["k"] == "cast" and y.get("c"):
                    y = skip(y["c"][0])
                if y["k"] == "int" and y["v"] > 0:
                    continue
                txt = pp(y)
                cw = f.cfg.where_enclosing(c) if f.cfg else None
                guarded = False
                for g in f.nodes():
                    if g["k"] == "if" and "cond" in g.get("r", ()):
                        cnd = skip(g["c"][g["r"].index("cond")])
                        then = g["c"][g["r"].index("then")]
                        if cnd["k"] == "bin" and cnd["op"] == "<" and skip(cnd["c"][0])["k"] == "int" and skip(cnd["c"][0])["v"] >= 0 and pp(cnd["c"][1]) == txt and \
                                then is not None and any(z is c for z in walk(then)):
                            guarded = True
                if not guarded:
                    bad.append(txt)
            R.check(not bad, "R-C16-6", "%s reshape@%s" % (f.name, f.loc(c)), f.loc(c), "the given dimensions are positive wherever a -1 dimension is inferred",
                    "`%s` infers its -1 dimension as -size() / (product of the given dimensions): `%s` can be 0 (an empty index list / an empty first axis are valid "
                    "inputs of the tensor operations), which divides 0 by 0" % (pp(c)[:80], ", ".join(bad)))
    R.floor("R-C16-6/witness", wit, 5, "reshape(-1) calls recognised in the witness file (the matcher is alive)")
    R.ok("R-C16-6", "library sites", "include/nano/tensor:1", "%d uses of the -1 inference inside the tensor library's own operations" % sites)


def rule_integral_empty(F, R):
    """R-C16-7: integral_t<1>::get reads element 0 unconditionally and the rank-N step hands every sub-tensor down to it, so get() may only
    be entered with a tensor all of whose extents are positive. Entry points from outside the recursion must establish that: a guard on the
    total size (`size() > 0`: a product of extents is positive only if every extent is) does, a guard on the first extent alone does not - a
    3 x 0 tensor passes it and the recursion reads and writes element 0 of an empty row. Inside get(), an access at a literal index
    (`tensor(0)`, `X(0)`) is covered either by that precondition or by the loop / if that bounds the index."""
    fs = [f for f in F.functions.values() if f.relfile == "include/nano/tensor/integral.h" and f.body is not None]
    gets = [f for f in fs if f.name == "get" and "integral_t" in (f.cls or "")]
    if not gets:
        raise AnalysisBroken("integral_t::get not found")
    n = 0

    def peel(x):
        x = skip(x)
        while x is not None and x["k"] in ("cast", "paren") and x.get("c"):
            x = skip(x["c"][0])
        return x

    def guard_facts(f, site):
        """{decl id: 'all' | 'dim0'} established for tensor variables by the ifs / loops enclosing `site`"""
        facts = {}
        child = site
        for a_ in f.ancestors(site):
            conds = []
            if a_["k"] == "if" and any(z is child for z in walk(a_["c"][a_["r"].index("then")])):
                conds.append(a_["c"][a_["r"].index("cond")])
            if a_["k"] in ("for", "while") and "body" in a_.get("r", ()) and any(z is child for z in walk(a_["c"][a_["r"].index("body")])):
                conds.append(a_["c"][a_["r"].index("cond")])
            for cnd in conds:
                c_ = peel(cnd)
                if c_["k"] == "bin" and c_["op"] in ("<", "!="):
                    lo, hi = peel(c_["c"][0]), peel(c_["c"][1])
                    # 0 < X.size() / index < size0 (= X.size<0>()) with a non-negative index
                    for small, big in ((lo, hi),):
                        b_ = big
                        if b_["k"] == "ref":
                            v, _ = find_var(f, b_.get("d"))
                            b_ = peel(v["c"][0]) if v is not None and v.get("c") else b_
                        if b_["k"] == "call" and b_.get("ck") == "mem" and not args(b_):
                            name = callee(b_).split("::")[-1]
                            d_ = ref_decl(obj(b_))
                            nonneg = small["k"] == "int" and small["v"] >= 0 or small["k"] == "ref"
                            if d_ is not None and nonneg:
                                if name == "size" and not b_.get("targs"):
                                    facts[d_] = "all"
                                elif name.startswith("size") and b_.get("targs") == ["0"]:
                                    facts.setdefault(d_, "dim0")
            child = a_
        return facts
    for f in fs:
        is_get = f in gets
        pre = {p_["d"]: "all" for p_ in f.params} if is_get else {}
        for c in f.calls():
            cq = callee(c)
            # (1) calls into the recursion
            if cq.endswith("::get") and "integral_t" in cq:
                n += 1
                a0 = peel(args(c)[0])
                facts = dict(pre)
                facts.update({k: v for k, v in guard_facts(f, c).items() if v == "all" or k not in facts})
                root = a0
                sub = False
                while root["k"] == "call" and root.get("ck") == "mem" and callee(root).split("::")[-1].split("<")[0] in ("tensor", "vector", "matrix", "reshape", "slice"):
                    sub = True
                    root = peel(obj(root))
                d_ = root.get("d") if root["k"] == "ref" else None
                ok = facts.get(d_) == "all"
                R.check(ok, "R-C16-7", "%s -> get@%d" % (f.name, c["l"]), f.loc(c), "every extent of the tensor handed to integral_t::get is positive",
                        "`%s` is reached with only %s established for `%s`: a tensor with a positive first extent and an empty inner one (3 x 0) enters the recursion, and "
                        "integral_t<1>::get reads and writes element 0 of an empty row - outside the tensor" % (
                            pp(c)[:60], {"dim0": "a positive first extent", None: "nothing"}.get(facts.get(d_), "nothing"), pp(root)[:20]))
            # (2) literal-index accesses inside the recursion
            if is_get and c.get("c") and (c.get("op") == "()" or (c.get("ck") == "mem" and cq.split("::")[-1].split("<")[0] in ("tensor", "vector", "matrix"))):
                idx = [peel(a_) for a_ in (c["c"][1:] if c.get("op") == "()" else args(c))]
                if len(idx) >= 1 and idx[0]["k"] == "int":
                    o_ = peel(c["c"][0])
                    d_ = o_.get("d") if o_["k"] == "ref" else None
                    if d_ is None:
                        continue
                    n += 1
                    facts = dict(pre)
                    facts.update(guard_facts(f, c))
                    R.check(facts.get(d_) in ("all", "dim0") and idx[0]["v"] == 0, "R-C16-7", "%s literal index@%d" % (f.name, c["l"]), f.loc(c),
                            "element %d exists under the function's precondition / enclosing bound" % idx[0]["v"], "`%s` reads a fixed position that may not exist" % pp(c)[:40])
    R.floor("R-C16-7", n, 4, "entries into / fixed-index accesses inside integral_t::get")


def run(ctx):
    R = ctx.report
    F = ctx.facts(TUS)
    rule_polynomials(F, R, 5 if ctx.thorough else 4)
    rule_storage(F, R)
    rule_integral(F, R)
    rule_integral_empty(F, R)
    rule_algorithms(F, R)
    rule_inferred_dimension(F, R)
    rule_compile_fail(R)
