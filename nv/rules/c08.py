"""C08 - dataset views agree with the stored feature values, incl. missing ones (DESIGN 3, C08)."""
import re

from ..facts import AnalysisBroken, walk, strip_targs
from ..pp import pp, skip, canon_text as CT
from ..util import (args, assignment, callee, incdec, is_call, is_literal, obj, ref_decl, strip_not, literal_value,
                    find_var, root_of)

META = {
    "level": "other",
    "technique": "range-guard comparison rule, typed missing-value marker rule over all encoder siblings, switch-table agreement, bit-expression agreement, guard placement",
    "explanation": "Decides: every throwing range guard that bounds an index from below by 0 rejects index == count (>=, never >); every "
                   "public view of dataset_t validates the sample list first; in every encoder (element-wise, pair-wise, dataset "
                   "targets, dropped features) the not-given branch writes the marker of the written storage's scalar type (NaN for "
                   "floating point, -1 for labels) and nothing else; the feature-type -> storage pool table is the same in the const "
                   "and non-const visitors and in the allocation routine (including the 2^8/2^16/2^32 single-label thresholds); the "
                   "mask's set and get address the same byte and bit and the mask is sized (samples+7)/8 at both allocation sites; derived (product) "
                   "features are computed after widening both stored operands to scalar_t.",
    "not_decided": "equality of views for arbitrary data; drop/shuffle history semantics; column bookkeeping arithmetic",
    "assumptions": [],
}

TUS = ["src/dataset.cpp", "src/datasource.cpp", "src/generator.cpp", "src/generator/elemwise_identity.cpp",
       "src/generator/elemwise_gradient.cpp", "src/generator/pairwise_product.cpp", "src/generator/elemwise_base.cpp",
       "src/generator/pairwise_base.cpp", "src/datasource/linear.cpp", "src/datasource/tabular.cpp"]

CARDINALITY = {"samples", "features", "columns", "classes", "size", "rows", "cols"}


# guards that are the gate of the caller-supplied indices (both ends are required there even when the lower-end test has vanished altogether)
BOTH_ENDS = {"nano::dataset_t::check"}


def disjuncts(n):
    n = skip(n)
    if n["k"] == "bin" and n["op"] == "||":
        return disjuncts(n["c"][0]) + disjuncts(n["c"][1])
    return [n]


def is_cardinality(n):
    n = skip(n)
    while n is not None and n["k"] == "cast":
        n = skip(n["c"][0])
    return n is not None and n["k"] == "call" and n.get("ck") == "mem" and callee(n).split("::")[-1] in CARDINALITY and not args(n)


def is_zero(n):
    return literal_value(n) == 0


def rule_range_guards(F, R, fns):
    n = 0

    def peel(x):
        x = skip(x)
        while x is not None and x["k"] in ("cast", "paren") and x.get("c"):
            x = skip(x["c"][0])
        return x

    def unsigned_cast(x):
        x = skip(x)
        while x is not None and x["k"] in ("paren",) and x.get("c"):
            x = skip(x["c"][0])
        return x is not None and x["k"] == "cast" and "unsigned" in (x.get("t") or "")
    for f in fns:
        for c in f.calls(lambda x: callee(x) == "nano::critical"):
            ds = disjuncts(args(c)[0])
            lows = [d for d in ds if d["k"] == "bin" and ((d["op"] == "<" and is_zero(d["c"][1])) or (d["op"] == ">" and is_zero(d["c"][0])))]
            for d in ds:
                if d["k"] != "bin" or d["op"] not in ("<", ">", "<=", ">="):
                    continue
                a, b = d["c"]
                if is_cardinality(b) and not is_cardinality(a):
                    idx, card, op = a, b, d["op"]
                elif is_cardinality(a) and not is_cardinality(b):
                    idx, card, op = b, a, {"<": ">", ">": "<", "<=": ">=", ">=": "<="}[d["op"]]
                else:
                    continue
                if op not in (">", ">="):
                    continue
                pi = peel(idx)
                if pi is None or literal_value(pi) is not None:
                    continue
                if not lows and not (pi["k"] == "ref" or (pi["k"] == "call" and callee(pi).split("::")[-1] in ("max", "maxCoeff"))):
                    continue            # not an index guard (a size comparison)
                n += 1
                inst = "%s guard@%s" % (f.qn, f.loc(d))
                R.check(op == ">=", "R-C08-1", inst, f.loc(d),
                        "an index equal to the count is rejected: %s" % pp(d),
                        "range guard `%s` accepts an index equal to %s (valid indices are 0..count-1): out-of-range element is read" % (pp(d), pp(card)))
                # the lower end: `index < 0` for the same index (`X.min() < 0` next to `X.max() >= n`); a single comparison in an unsigned type covers
                # both ends for one index, but not for the maximum of a list (a negative element hides behind any non-negative one)
                aggregate = pi["k"] == "call" and callee(pi).split("::")[-1] in ("max", "maxCoeff")
                low_ok = False
                for l in lows:
                    li = peel(l["c"][0] if l["op"] == "<" else l["c"][1])
                    if aggregate:
                        low_ok = low_ok or (li["k"] == "call" and callee(li).split("::")[-1] in ("min", "minCoeff") and pp(obj(li)) == pp(obj(pi)))
                    else:
                        low_ok = low_ok or pp(li) == pp(pi)
                if not low_ok and not aggregate and unsigned_cast(idx) and unsigned_cast(card):
                    low_ok = True
                if not lows and f.qn not in BOTH_ENDS:
                    continue        # a capacity test on an internal running counter, not a guard on a caller-supplied index
                R.check(low_ok, "R-C08-1", inst + " lower end", f.loc(d), "negative indices are rejected as well",
                        "the guard `%s` does not reject negative indices%s: storage and mask are then read before their first element" % (
                            pp(args(c)[0])[:90], " (comparing the *maximum* of the list as an unsigned value hides a negative element behind any non-negative one)" if aggregate else ""))
    R.floor("R-C08-1", n, 3, "index range guards")


def rule_guard_first(F, R):
    views = [f for f in F.in_file("src/dataset.cpp") if f.cls == "nano::dataset_t" and f.name in ("select", "flatten", "targets")
             and f.params and "indices" in "".join(p["n"] for p in f.params[:1]) or
             (f.cls == "nano::dataset_t" and f.name in ("select", "flatten", "targets") and f.params and f.params[0]["n"] == "samples" and f.relfile == "src/dataset.cpp")]
    n = 0
    for f in views:
        calls = [x for x in walk(f.body) if x["k"] == "call"]
        sd = f.params[0]["d"]
        inst = "dataset_t::%s@%s" % (f.name, f.loc())
        n += 1
        first = None
        for x in calls:
            if callee(x).startswith("nano::dataset_t::") or callee(x).startswith("nano::datasource_t::") or x.get("ck") == "mem":
                first = x
                break
        ok = first is not None and callee(first) == "nano::dataset_t::check" and ref_decl(args(first)[0]) == sd
        R.check(ok, "R-C08-2", inst, f.loc(), "check(samples) is the first action of the view",
                "view reads storage before / without validating the sample indices (first call: %s)" % (pp(first)[:80] if first else None))
        fp = f.param("feature")
        if fp is not None:
            okf = any(callee(x) in ("nano::dataset_t::byfeature", "nano::dataset_t::check") and ref_decl(args(x)[0]) == fp["d"] for x in calls)
            R.check(okf, "R-C08-2", inst + " feature", f.loc(), "feature index goes through byfeature()/check(feature)",
                    "feature index is used without the range check")
    R.floor("R-C08-2", n, 10, "dataset view entry points")
    bf = F.one("nano::dataset_t::byfeature", "src/dataset.cpp")
    calls = [x for x in walk(bf.body) if x["k"] == "call" and x.get("ck") in ("mem", "op")]
    ok = bool(calls) and callee(calls[0]) == "nano::dataset_t::check"
    R.check(ok, "R-C08-2", "byfeature", bf.loc(), "byfeature validates the feature index before indexing", "byfeature indexes the generator table before validating the index")


def scalar_of(t):
    m = re.search(r"tensor_t<[^,]+, ([^,<>]+), \d+>", t or "")
    return m.group(1).strip() if m else None


def is_nan(n):
    n = skip(n)
    while n is not None and n["k"] == "cast":
        n = skip(n["c"][0])
    if n is None:
        return False
    if n["k"] == "ref" and n.get("cvs") == "nan":
        return True
    if n["k"] == "mem" and n["n"] == "NaN":
        return True
    if n["k"] == "ref" and n["n"].endswith("::NaN"):
        return True
    return n["k"] == "call" and callee(n) == "std::numeric_limits::quiet_NaN"


def storage_root(f, n, depth=0):
    """the variable an access path is rooted in, following locals initialised from other variables"""
    kind, d = root_of(n)
    if kind != "var" or depth > 4:
        return None
    var, _ = find_var(f, d)
    if var is not None and var.get("c") and scalar_of(var.get("t")) is None:
        k2, d2 = root_of(var["c"][0])
        if k2 == "var" and d2 != d:
            r = storage_root(f, var["c"][0], depth + 1)
            if r is not None:
                return r
    return d


def type_of_decl(F, f, d):
    var, _ = find_var(f, d)
    if var is not None:
        return var.get("t")
    for p in f.params:
        if p["d"] == d:
            return p["t"]
    # captured variable of a lambda: look in the enclosing functions
    g = f
    while g is not None and g.parent:
        cand = F.by_key.get(g.parent, []) or [h for h in F.functions.values() if h.key == g.parent]
        if not cand:
            break
        g = cand[0]
        var, _ = find_var(g, d)
        if var is not None:
            return var.get("t")
        for p in g.params:
            if p["d"] == d:
                return p["t"]
    return None


def marker_writes(f, branch):
    """(target expression, value node, site) for constant writes inside a branch"""
    for x in walk(branch):
        a = assignment(x)
        if a and a[2] == "=":
            yield a[0], a[1], x
        elif x["k"] == "call" and x.get("ck") == "mem" and callee(x).split("::")[-1] in ("full", "setConstant", "fill", "constant") and len(args(x)) == 1:
            yield obj(x), args(x)[0], x


def rule_markers(F, R, fns):
    n = 0
    for f in fns:
        branches = []
        for x in walk(f.body):
            if x["k"] != "if" or "else" not in x.get("r", ()):
                continue
            r = x["r"]
            cond = x["c"][r.index("cond")]
            if "init" in r:
                init = x["c"][r.index("init")]
                binds = set()
                for y in walk(init):
                    if y["k"] == "var" and y.get("bindings"):
                        binds |= {b["d"] for b in y["bindings"]}
                refs = [y for y in walk(cond) if y["k"] == "ref"]
                if binds and refs and all(y.get("dk") == "bind" and y["d"] in binds for y in refs) and \
                        all(y["k"] in ("ref", "bin", "cast") and (y["k"] != "bin" or y["op"] == "&&") for y in walk(cond)):
                    branches.append((x["c"][r.index("else")], "not-given branch"))
            inner, neg = strip_not(cond)
            if is_call(inner, "nano::generator_t::should_drop"):
                branches.append((x["c"][r.index("else" if neg else "then")], "dropped-feature branch"))
        if f.name == "flatten_dropped":
            branches.append((f.body, "dropped-feature flatten"))
        for br, what in branches:
            for tgt, val, site in marker_writes(f, br):
                d = storage_root(f, tgt)
                t = type_of_decl(F, f, d) if d is not None else None
                sc = scalar_of(t)
                inst = "%s %s@%s" % (f.qn.split("::")[-1] if not f.is_lambda else "lambda", what, f.loc(site))
                if sc is None:
                    # Eigen segment of the flattened (scalar_t) matrix
                    sc = "double" if t and ("double" in t) else None
                if sc is None:
                    R.incomplete("R-C08-3", inst, f.loc(site), "cannot determine the scalar type of the written storage (%s)" % t)
                    continue
                n += 1
                if sc in ("double", "float"):
                    R.check(is_nan(val), "R-C08-3", inst, f.loc(site), "missing value of a %s view is marked NaN" % sc,
                            "missing value of a %s view is written as `%s` instead of NaN" % (sc, pp(val)))
                else:
                    R.check(literal_value(val) == -1, "R-C08-3", inst, f.loc(site), "missing label of a %s view is marked -1" % sc,
                            "missing label of a %s view is written as `%s` instead of -1" % (sc, pp(val)))
    R.floor("R-C08-3", n, 30, "missing-value marker writes")


def switch_table(f, sw):
    """case label name -> list of nodes of that case"""
    body = sw["c"][1]
    table, cur = {}, None

    def flat(n):
        for ch in n.get("c", ()):
            if ch is None:
                continue
            if ch["k"] in ("case", "default"):
                x = ch
                while x is not None and x["k"] in ("case", "default"):
                    yield ("label", x)
                    x = x["c"][-1]
                if x is not None:
                    yield ("stmt", x)
            else:
                yield ("stmt", ch)

    labels = []
    for kind, x in flat(body):
        if kind == "label":
            name = "default" if x["k"] == "default" else skip(x["c"][0]).get("n", pp(x["c"][0]))
            labels.append(name)
            table.setdefault(name, [])
            cur = labels
        else:
            for l in labels:
                table[l].append(x)
            if x["k"] in ("break", "return"):
                labels = []
    return table


def storage_members(nodes):
    out = []
    for n in nodes:
        for x in walk(n):
            if x["k"] == "mem" and x.get("fd") and x["n"].startswith("m_storage_") and x["n"] not in ("m_storage_mask", "m_storage_range", "m_storage_type"):
                if x["n"] not in out:
                    out.append(x["n"])
    return out


def thresholds(nodes):
    out = []
    for n in nodes:
        for x in walk(n):
            if x["k"] == "bin" and x["op"] == "<=" and "classes()" in pp(x["c"][0]):
                v = skip(x["c"][1])
                val = None
                if v["k"] == "ref" and "cv" in v:
                    val = v["cv"]
                elif v["k"] == "bin" and v["op"] == "<<":
                    a, b = literal_value(v["c"][0]), literal_value(v["c"][1])
                    if a is not None and b is not None:
                        val = a << b
                out.append(val)
    return out


def rule_storage_table(F, R):
    visits = [f for f in F.functions.values() if f.qn == "nano::datasource_t::visit" and f.relfile == "include/nano/datasource.h"]
    resize = [f for f in F.fn("nano::datasource_t::resize", "src/datasource.cpp") if len(f.params) == 3]
    if not visits or not resize:
        raise AnalysisBroken("datasource_t::visit / resize not found")
    rz = resize[0]
    sws = [n for n in rz.nodes() if n["k"] == "switch"]
    if len(sws) != 1:
        raise AnalysisBroken("datasource_t::resize: expected one switch")
    rt = switch_table(rz, sws[0])
    # resize: storage type chosen per feature type
    def enum_refs(nodes):
        return [x["n"] for n in nodes for x in walk(n) if x["k"] == "ref" and x.get("dk") == "enum" and x["n"].startswith("nano::feature_type::")]
    r_sclass = enum_refs(rt.get("nano::feature_type::sclass", []))
    r_mclass = enum_refs(rt.get("nano::feature_type::mclass", []))
    r_thr = thresholds(rt.get("nano::feature_type::sclass", []))
    # pool member per storage type: m_storage_X.resize(size_storage[feature_type::T], samples)
    pool = {}
    for c in rz.calls(lambda x: callee(x).split("::")[-1] == "resize" and x.get("ck") == "mem"):
        o = skip(obj(c))
        if o["k"] == "mem" and o["n"].startswith("m_storage_") and args(c):
            e = enum_refs([args(c)[0]])
            if e:
                pool[e[0]] = o["n"]
    R.floor("R-C08-5/pools", len(pool), 10, "storage pools")
    seen = set()
    for v in visits:
        constness = "const" if v.is_const else "non-const"
        if constness in seen:
            continue
        seen.add(constness)
        sws = [n for n in v.nodes() if n["k"] == "switch"]
        if len(sws) != 1:
            R.incomplete("R-C08-5", "visit " + constness, v.loc(), "expected one switch")
            continue
        vt = switch_table(v, sws[0])
        for label, nodes in sorted(vt.items()):
            if label == "default":
                continue
            inst = "visit(%s) %s" % (constness, label.split("::")[-1])
            mem = storage_members(nodes)
            if label == "nano::feature_type::sclass":
                want = [pool.get(e) for e in r_sclass]
                thr = thresholds(nodes)
                R.check(mem == want and thr == r_thr and None not in thr, "R-C08-5", inst, v.loc(nodes[0]),
                        "single-label pools %s with thresholds %s agree with the allocation routine" % (mem, thr),
                        "single-label features are allocated in %s (thresholds %s) but visited in %s (thresholds %s)" % (want, r_thr, mem, thr))
            elif label == "nano::feature_type::mclass":
                want = [pool.get(e) for e in r_mclass]
                R.check(mem == want, "R-C08-5", inst, v.loc(nodes[0]), "multi-label pool %s agrees with the allocation routine" % mem,
                        "multi-label features are allocated in %s but visited in %s" % (want, mem))
            else:
                want = [pool.get(label)]
                R.check(mem == want, "R-C08-5", inst, v.loc(nodes[0]), "values of this type live in %s" % mem,
                        "feature type %s is allocated in %s but visited in %s" % (label.split("::")[-1], want, mem))
    R.floor("R-C08-5/visits", len(seen), 2, "visit overloads (const and non-const)")


def rule_mask(F, R):
    sb = F.one("nano::setbit", "include/nano/datasource/mask.h")
    gb = F.one("nano::getbit", "include/nano/datasource/mask.h")

    def parts(f):
        idx = bit = None
        for x in walk(f.body):
            if x["k"] == "call" and x.get("ck") == "op" and x.get("op") == "()" and pp(x["c"][0]) == "mask" and idx is None:
                idx = pp(x["c"][1])
            if x["k"] == "bin" and x["op"] == "<<" and bit is None:
                bit = pp(x)
        return idx, bit
    si, sbit = parts(sb)
    gi, gbit = parts(gb)
    R.check(si is not None and si == gi and sbit == gbit and sbit is not None, "R-C08-6", "mask set/get", sb.loc(),
            "setbit and getbit address byte %s, bit %s" % (si, sbit), "setbit addresses (%s, %s) but getbit reads (%s, %s)" % (si, sbit, gi, gbit))
    # the write is an OR (other samples' bits are preserved), the read an AND
    sor = any(assignment(x) and assignment(x)[2] == "|=" for x in walk(sb.body))
    gand = any(x["k"] == "bin" and x["op"] == "&" for x in walk(gb.body))
    R.check(sor and gand, "R-C08-6", "mask set is |=, get is &", sb.loc(), "setbit ORs the bit in, getbit tests it with AND", "setbit/getbit no longer use |= / &")
    sizes = []
    for f in F.functions.values():
        if f.qn == "nano::make_mask" or (f.qn == "nano::datasource_t::resize" and len(f.params) == 3):
            for x in walk(f.body):
                if x["k"] == "bin" and x["op"] == "/" and literal_value(x["c"][1]) == 8:
                    sizes.append((f, x))
    R.floor("R-C08-6/sizes", len(sizes), 1, "mask size expressions")
    for f, x in sizes[:4]:
        a = skip(x["c"][0])
        ok = a["k"] == "bin" and a["op"] == "+" and literal_value(a["c"][1]) == 7 and pp(a["c"][0]) == "samples"
        R.check(ok, "R-C08-6", "mask size@%s" % f.loc(x), f.loc(x), "mask holds (samples + 7) / 8 bytes", "mask sized as %s: the last samples have no bit" % pp(x))


def rule_widen_first(F, R, fns):
    """R-C08-8: derived features are computed in scalar_t: stored values are widened before any arithmetic"""
    n = 0
    for f in fns:
        if not (f.relfile.startswith("include/nano/generator") or f.relfile.startswith("src/generator")):
            continue
        for x in f.nodes():
            if x["k"] != "cast" or x.get("t") not in ("double",) or not x.get("c"):
                continue
            inner = skip(x["c"][0])
            if inner["k"] == "bin" and inner["op"] in ("*", "+", "-", "/"):
                n += 1
                t = inner.get("t", "")
                inst = "%s arithmetic@%s [%s]" % (f.qn.split("::")[-1] if not f.is_lambda else "op", f.loc(x), t)
                R.check(t == "double", "R-C08-8", inst, f.loc(x), "arithmetic on stored values is done in scalar_t",
                        "`%s` is computed in the storage type `%s` and widened afterwards: products of 32/64-bit integers wrap around and float32 "
                        "products lose precision, so the generated feature is not the product of the stored values" % (pp(inner), t))
            elif inner["k"] == "call" and inner.get("ck") == "op" and inner.get("op") in ("*", "+", "-", "/") and inner.get("t") not in ("double",) \
                    and (inner.get("t") or "") in ("float", "int", "unsigned int", "long", "unsigned long", "short", "unsigned short", "signed char", "unsigned char"):
                n += 1
                R.bad("R-C08-8", "op arithmetic@%s" % f.loc(x), f.loc(x), "`%s` is computed in `%s` before widening" % (pp(inner), inner.get("t")))
    # the product op itself must multiply two widened operands
    ops = [g for g in F.functions.values() if g.is_lambda and g.relfile == "include/nano/generator/pairwise_product.h"]
    for g in ops:
        rets = [x for x in g.nodes() if x["k"] == "return"]
        if len(rets) != 1:
            continue
        e = skip(rets[0]["c"][0])
        n += 1
        inst = "pairwise product op [%s]" % ",".join(p["t"][:40] for p in g.params)
        ok = e["k"] == "bin" and e["op"] == "*" and e.get("t") == "double" and all(skip(s_)["k"] == "cast" and skip(s_).get("t") == "double" for s_ in e["c"])
        R.check(ok, "R-C08-8", inst, g.loc(), "product = scalar_t(value1) * scalar_t(value2)", "product op is `%s` of type %s" % (pp(e), e.get("t")))
    R.floor("R-C08-8", n, 4, "arithmetic sites in generator operators")


def rule_pair_rows(F, R):
    """R-C08-9: in make_pairwise a row index is only used with the mapping whose size bounds it"""
    f = F.one("nano::base_pairwise_generator_t::make_pairwise", "src/generator/pairwise_base.cpp")
    sizes = {}
    for v in f.nodes():
        if v["k"] == "var" and v.get("c"):
            t = pp(v["c"][0])
            for m in ("mapping1", "mapping2"):
                if t.startswith(m + ".size<0"):
                    sizes[v["n"]] = m
    # loop variables bounded by those sizes
    owner = {}
    for lp in [x for x in f.nodes() if x["k"] == "for"]:
        init, cond = lp["c"][lp["r"].index("init")], lp["c"][lp["r"].index("cond")]
        if init["k"] == "declstmt" and cond["k"] == "bin" and cond["op"] == "<":
            iv = init["c"][0]
            b = pp(cond["c"][1])
            if b in sizes and ref_decl(cond["c"][0]) == iv["d"]:
                owner[iv["d"]] = sizes[b]
    R.floor("R-C08-9/loops", len(owner), 2, "row loops")
    # the pair stored per unique feature pair: first component -> mapping1 rows, second -> mapping2 rows
    vals = [v for v in f.nodes() if v["k"] == "var" and v["n"] == "value" and v.get("c")]
    uses = {}
    for v in f.nodes():
        if v["k"] == "var" and v.get("bindings") and v.get("c") and "second" in pp(v["c"][0]):
            for bi, bd in enumerate(v["bindings"]):
                uses[bd["d"]] = bi
    n = 0
    for v in vals:
        for c in walk(v["c"][0]):
            if c["k"] == "call" and callee(c) == "std::make_pair":
                a = args(c)
                n += 1
                got = [owner.get(ref_decl(x)) for x in a[:2]]
                R.check(got == ["mapping1", "mapping2"], "R-C08-9", "stored row pair@%s" % f.loc(c), f.loc(c),
                        "the stored pair is (row of mapping1, row of mapping2)",
                        "the pair `%s` stores rows of %s: with two different feature lists a row index of one mapping is later used to index "
                        "the other (wrong source feature, read beyond the mapping)" % (pp(c), got))
    R.floor("R-C08-9", n, 1, "stored row pairs")
    # ... and used that way
    for x in f.nodes():
        if x["k"] == "call" and x.get("ck") == "mem" and callee(x).split("::")[-1] == "array" and pp(obj(x)) in ("mapping1", "mapping2") and args(x):
            d = ref_decl(args(x)[0])
            if d in uses:
                want = "mapping1" if uses[d] == 0 else "mapping2"
                R.check(pp(obj(x)) == want, "R-C08-9", "row use@%s" % f.loc(x), f.loc(x), "component %d of the stored pair indexes %s" % (uses[d], want),
                        "component %d of the stored pair is used to index %s" % (uses[d], pp(obj(x))))
            elif d in owner:
                R.check(pp(obj(x)) == owner[d], "R-C08-9", "row use@%s" % f.loc(x), f.loc(x), "loop index is used with its own mapping", "loop index of %s indexes %s" % (owner[d], pp(obj(x))))


def rule_encodings(F, R):
    """R-C08-4: one-hot / multi-label encodings written by the flatten loops and by dataset_t::targets"""
    n = 0
    seen = set()
    for f in sorted(F.functions.values(), key=lambda f: f.key):
        if f.name != "flatten" or len(f.params) != 5 or f.relfile not in ("include/nano/generator/elemwise.h", "include/nano/generator/pairwise.h"):
            continue
        segs = [v for v in f.nodes() if v["k"] == "var" and v["n"] == "segment" and v.get("c")]
        consts = [c for c in f.calls(lambda c: callee(c).split("::")[-1] == "setConstant")]
        onehot = [c for c in consts if pp(obj(c)) == "segment" and pp(args(c)[0]) in ("(-1)", "-1", "(-1.0)")]
        rescale = [x for x in f.nodes() if assignment(x) and pp(assignment(x)[0]) == "segment.array()"]
        conds = " ".join(pp(x["c"][x["r"].index("cond")]) for x in f.nodes() if x["k"] == "if")
        kind = "sclass" if "generated_sclass_t::generated_type" in conds else "mclass" if "generated_mclass_t::generated_type" in conds else None
        if kind is None:
            continue
        key = (f.relfile, kind)
        if key in seen:
            continue
        seen.add(key)
        n += 1
        inst = "%s %s@%s" % (f.relfile.split("/")[-1], kind, f.loc())
        given_seg = [v for v in segs if re.sub(r"<[^()]*>", "", pp(v["c"][0])) == "storage.vector(index).segment(column, colsize)"]
        if kind == "sclass":
            ci = [v for v in f.nodes() if v["k"] == "var" and v["n"] == "class_index" and v.get("c")]
            guards = [x for x in f.nodes() if x["k"] == "if" and pp(x["c"][x["r"].index("cond")]) == "(class_index < segment.size())"]
            hot = [x for x in f.nodes() if assignment(x) and pp(assignment(x)[0]) == "segment(class_index)"]
            ok = len(given_seg) == 1 and len(onehot) == 1 and len(ci) == 1 and pp(ci[0]["c"][0]).startswith("op(values") and len(guards) == 1 and len(hot) == 1 and \
                pp(assignment(hot[0])[1]) in ("(+1)", "1", "(+1.0)") and any(y is hot[0] for y in walk(guards[0]["c"][guards[0]["r"].index("then")]))
            if ok:
                cfg = f.cfg
                w1, w2 = cfg.where_enclosing(onehot[0]), cfg.where_enclosing(hot[0])
                ok = w1 is not None and w2 is not None and (cfg.dominates(w1, w2) or (w1[0] == w2[0] and w1[1] < w2[1]))
            R.check(ok, "R-C08-4", inst, f.loc(), "one-hot: the feature's colsize columns are filled with -1, then +1 at the class index (guarded by the segment size)",
                    "single-label encoding is no longer `fill -1; +1 at class_index < size` over [column, column+colsize)")
        else:
            ops = [c for c in f.calls(lambda c: c.get("op") == "()" and pp(c["c"][0]) == "op" and pp(c["c"][-1]) == "segment")]
            ok = len(given_seg) == 1 and len(rescale) == 1 and pp(assignment(rescale[0])[1]) == "((2 * segment.array()) - 1)" and len(ops) >= 1
            if ok:
                cfg = f.cfg
                w1, w2 = cfg.where_enclosing(ops[0]), cfg.where_enclosing(rescale[0])
                ok = w1 is not None and w2 is not None and (cfg.dominates(w1, w2) or (w1[0] == w2[0] and w1[1] < w2[1]))
            R.check(ok, "R-C08-4", inst, f.loc(), "multi-label: hits h written to the segment, then 2h - 1", "multi-label encoding is no longer `2*hit - 1` over [column, column+colsize)")
    R.floor("R-C08-4", n, 2, "encoding loops in the generators (single- and multi-label instantiations)")
    # dataset_t::targets
    t = F.one("nano::dataset_t::targets", "src/dataset.cpp")
    m = 0
    for _, g in F.lambdas_in(t):
        if len(g.params) != 1 or g.params[0]["n"] != "it":
            continue
        binds = [b["n"] for v in g.nodes() if v["k"] == "var" for b in v.get("bindings", ())]
        if "label" in binds:
            m += 1
            fills = [c for c in g.calls(lambda c: callee(c).split("::")[-1] == "setConstant" and pp(obj(c)) == "storage.array(index)" and pp(args(c)[0]) in ("(-1)", "-1"))]
            hot = [x for x in g.nodes() if assignment(x) and pp(assignment(x)[0]) == "storage.array(index)(cast<long>(label))"]
            ok = len(fills) == 1 and len(hot) == 1 and pp(assignment(hot[0])[1]) in ("(+1)", "1")
            if ok:
                cfg = g.cfg
                w1, w2 = cfg.where_enclosing(fills[0]), cfg.where_enclosing(hot[0])
                ok = w1 is not None and w2 is not None and (cfg.dominates(w1, w2) or (w1[0] == w2[0] and w1[1] < w2[1]))
            rz = [v for v in g.nodes() if v["k"] == "var" and v["n"] == "storage" and v.get("c")]
            ok = ok and len(rz) == 1 and pp(rz[0]["c"][0]) == "resize_and_map(buffer, samples.size(), feature.classes(), 1, 1)"
            R.check(ok, "R-C08-4", "targets sclass", g.loc(), "one-hot over feature.classes() columns: fill -1, +1 at the label", "single-label targets are no longer `fill -1; +1 at label` over classes() columns")
        elif "hits" in binds:
            m += 1
            asg = [x for x in g.nodes() if assignment(x) and pp(assignment(x)[0]) == "storage.array(index)"]
            ok = len(asg) == 1 and pp(assignment(asg[0])[1]).replace("<double>", "") in ("((hits.array().cast() * 2) - 1)", "((2 * hits.array().cast()) - 1)")
            R.check(ok, "R-C08-4", "targets mclass", g.loc(), "multi-label targets are 2*hit - 1", "multi-label targets are no longer 2*hit - 1: %s" % ([pp(assignment(x)[1]) for x in asg][:1]))
    R.floor("R-C08-4/targets", m, 2, "target encoders")


def rule_columns(F, R):
    """R-C08-7: the two passes of dataset_t::update and the identity encoders agree on the number of columns per feature type"""
    f = F.one("nano::dataset_t::update", "src/dataset.cpp")
    sws = [x for x in f.nodes() if x["k"] == "switch"]
    if len(sws) != 2:
        R.bad("R-C08-7", "update passes", f.loc(), "expected two switches over the feature type, found %d" % len(sws))
        return
    tabs = []
    for sw in sws:
        tab = {}
        for label, nodes in switch_table(f, sw).items():
            exprs = []
            for nd in nodes:
                for x in walk(nd):
                    a = assignment(x)
                    if a and pp(a[0]) in ("total_columns", "columns"):
                        exprs.append(pp(a[1]))
            tab[label] = exprs
        tabs.append(tab)
    want = {"sclass": ["(feature.classes() - 1)"], "mclass": ["feature.classes()"], "default": ["size<3UL>(feature.dims())"]}
    norm = lambda t: {k.split("::")[-1]: [re.sub(r"size<[^>]*>", "size", e) for e in v] for k, v in t.items()}
    ok = norm(tabs[0]) == norm(tabs[1])
    R.check(ok, "R-C08-7", "update passes agree", f.loc(), "both passes count the same number of columns per feature type", "the two passes of dataset_t::update disagree: %s vs %s" % (tabs[0], tabs[1]))
    okw = norm(tabs[0]) == norm(want)
    R.check(okw, "R-C08-7", "column counts", f.loc(), "single-label C-1, multi-label C, otherwise the product of the dims", "column count per feature type changed: %s" % tabs[0])
    ops = [a[2] for x in f.nodes() for a in [assignment(x)] if a and pp(a[0]) == "total_columns"]
    R.check(all(o == "+=" for o in ops) and len(ops) == 3, "R-C08-7", "column total", f.loc(), "the total is the sum over all features", "total_columns is not accumulated with += in every case")
    # the identity encoders report the same colsize
    exp = {"sclass_identity_t": "(mapped_classes(ifeature) - 1)", "mclass_identity_t": "mapped_classes(ifeature)", "scalar_identity_t": "1", "struct_identity_t": "size(mapped_dims(ifeature))"}
    n = 0
    for g in F.functions.values():
        if g.name == "process" and g.cls and g.cls.split("::")[-1] in exp and g.relfile == "include/nano/generator/elemwise_identity.h":
            cs = [v for v in g.nodes() if v["k"] == "var" and v["n"] == "colsize" and v.get("c")]
            got = re.sub(r"size<[^>]*>", "size", pp(cs[0]["c"][0])) if cs else None
            if got is not None:
                got = re.sub(r"^cast<long>\(\{?(\d+)\}?\)$", r"\1", got)
            n += 1
            R.check(got == exp[g.cls.split("::")[-1]], "R-C08-7", g.cls.split("::")[-1] + " colsize", g.loc(), "colsize = %s" % exp[g.cls.split("::")[-1]], "identity encoder reports colsize %s" % got)
    R.floor("R-C08-7/colsize", n, 4, "identity encoders")


def _shuffled_eval(F, R, sh1, sh2):
    """shuffled(feature, samples) evaluated for a concrete permutation P of 4 samples and index lists of every kind the property allows (shorter,
    as long as and longer than the number of samples; reversed; with repetitions): the result is [P[s] for s in samples]"""
    import sympy as sp
    from ..symexec import Interp
    from ..kalg import OutOfFragment
    P = [2, 0, 3, 1]
    lists = [[], [1], [3, 1], [0, 1, 2, 3], [3, 2, 1, 0], [1, 1, 3, 3], [3, 3, 3, 3], [0, 2, 1], [2, 2, 0, 1, 3, 3, 0], [0, 1, 2, 3, 0, 1, 2, 3, 2]]

    class SI(Interp):
        asked = None

        def ev(self, n):
            n2 = skip(n)
            if n2 is not None and n2["k"] == "call" and callee(n2) == sh1.qn and len(args(n2)) == 1:
                self.asked.append(self.ev(args(n2)[0]))
                return list(map(sp.Integer, P))
            if n2 is not None and n2["k"] == "call" and n2.get("ck") == "mem" and callee(n2).split("::")[-1] == "size" and not args(n2):
                o = self.ev(obj(n2))
                if isinstance(o, list):
                    return sp.Integer(len(o))
            if n2 is not None and n2["k"] in ("construct", "initlist") and len(n2.get("c", ())) == 1 and "nano::tensor_t" in ((n2.get("t") or "") + (n2.get("cls") or "")):
                v = self.ev(n2["c"][0])
                if isinstance(v, list):
                    return list(v)
                if sp.sympify(v).is_Integer:
                    return [sp.Symbol("unset")] * int(v)
            if n2 is not None and n2["k"] == "cast" and n2.get("ck") == "ToVoid":
                return sp.Integer(0)
            return super().ev(n)

    bad = None
    nrun = 0
    feat = sp.Symbol("feature", integer=True, nonnegative=True)
    try:
        for smp in lists:
            it = SI(F, sh2, n=1)
            it.asked = []
            it.env[sh2.params[0]["d"]] = feat
            it.env[sh2.params[1]["d"]] = list(map(sp.Integer, smp))
            got = it.run()
            nrun += 1
            want = [sp.Integer(P[s_]) for s_ in smp]
            if not isinstance(got, list) or [sp.sympify(x) for x in got] != want:
                bad = "with the permutation %s of 4 samples, shuffled(feature, %s) evaluates to %s, the views read the samples %s" % (P, smp, got, [P[s_] for s_ in smp])
                break
            if any(a_ != feat for a_ in it.asked):
                bad = "the permutation is asked for feature `%s`, not for the given feature" % it.asked[0]
                break
    except OutOfFragment as e:
        R.incomplete("R-C08-10", "permutation applied", sh2.loc(), "cannot evaluate shuffled(feature, samples): %s" % e)
        return
    R.check(bad is None, "R-C08-10", "permutation applied", sh2.loc(), "result(i) = permutation(samples(i)) for every requested sample (evaluated for %d index lists: shorter, "
            "as long as and longer than the sample count, reversed, with repetitions)" % nrun,
            "shuffled(feature, samples) no longer maps every requested sample through the permutation: %s" % bad)


def rule_empty_reductions(F, R, fns):
    """R-C08-11: an index list handed to the dataset may be empty (a weak learner that splits its samples hands the empty side of a split on; the
    property admits any list). min() / max() of a tensor are Eigen's minCoeff / maxCoeff, undefined on an empty vector (an out-of-bounds read
    of element 0 without assertions). Every min() / max() of an index-list parameter is therefore reached only where the list is known to be
    non-empty: must-analysis over the CFG of "size() > 0" (gained on the success edge of `0 < x.size()`, `x.size() != 0`, `!x.empty()`, also
    inside `&&` / `||`). Arguments of `critical(...)` are evaluated before the call, so a test inside its condition does not protect the
    values printed in its message."""
    from ..cfg import must_dataflow
    n = 0
    for f in fns:
        if f.body is None or f.cfg is None:
            continue
        lists = {p_["d"]: p_.get("n") for p_ in f.params if "tensor_carray_storage_t, long, 1>" in (p_.get("t") or "")}
        if not lists:
            continue
        sites = [c for c in f.calls(lambda x: x.get("ck") == "mem" and callee(x).split("::")[-1] in ("min", "max") and not args(x) and ref_decl(obj(x)) in lists)]
        if not sites:
            continue

        def size_of(x):
            x = skip(x)
            while x is not None and x["k"] in ("cast", "paren") and x.get("c"):
                x = skip(x["c"][0])
            if x is not None and x["k"] == "call" and x.get("ck") == "mem" and callee(x).split("::")[-1] == "size" and not args(x) and ref_decl(obj(x)) in lists:
                return ref_decl(obj(x))
            return None

        def t_edge(facts, b, k):
            if b.cond is None or len(b.succ) != 2:
                return None
            inner, neg = strip_not(b.cond)
            x = skip(inner) if inner is not None else None
            d, pos = None, None           # pos: the condition being true means "non-empty"
            if x is not None and x["k"] == "bin" and x["op"] in ("<", "<=", "!=", "=="):
                a_, b_ = x["c"]
                if x["op"] == "<" and is_zero(a_) and size_of(b_) is not None:
                    d, pos = size_of(b_), True
                elif x["op"] == "<=" and size_of(a_) is not None and is_zero(b_):
                    d, pos = size_of(a_), False
                elif x["op"] in ("!=", "==") and ((size_of(a_) is not None and is_zero(b_)) or (size_of(b_) is not None and is_zero(a_))):
                    d, pos = size_of(a_) if size_of(a_) is not None else size_of(b_), x["op"] == "!="
                elif x["op"] == "<=" and literal_value(a_) == 1 and size_of(b_) is not None:
                    d, pos = size_of(b_), True
            elif x is not None and x["k"] == "call" and x.get("ck") == "mem" and callee(x).split("::")[-1] == "empty" and ref_decl(obj(x)) in lists:
                d, pos = ref_decl(obj(x)), False
            elif x is not None and size_of(x) is not None:
                d, pos = size_of(x), True
            if d is not None and ((k == 0) != bool(neg)) == pos:
                facts.add(d)
            return None

        IN, before = must_dataflow(f.cfg, set(), lambda facts, e: None, t_edge)
        seen = set()
        for c in sites:
            d = ref_decl(obj(c))
            w = f.cfg.where_enclosing(c)
            facts = before(*w) if w is not None else None
            if facts is None:
                continue
            n += 1
            ok = d in facts
            key = (f.relfile, c["l"], callee(c).split("::")[-1])
            if key in seen and ok:
                continue
            seen.add(key)
            R.check(ok, "R-C08-11", "%s %s@%d" % (f.qn.split("::", 1)[-1], pp(c), c["l"]), f.loc(c),
                    "`%s` is evaluated only where the index list is known to be non-empty" % pp(c),
                    "`%s` is evaluated also for an empty index list: minCoeff / maxCoeff of an empty vector read element 0 of no storage (a crash, not an exception). "
                    "Empty lists are ordinary inputs - a decision tree hands the empty side of a split to the next node - and arguments of critical() are "
                    "evaluated before the call, whatever its condition" % pp(c))
    R.floor("R-C08-11", n, 2, "min() / max() of index-list parameters")


def rule_drop_shuffle(F, R):
    """R-C08-10: the drop / shuffle bookkeeping: flag values agree between writers and readers, the permutation is stored and looked up under
    the shuffled feature's own index, applied to the requested samples, and the iterators read through it"""
    g = {}
    for f in F.in_file("src/generator.cpp"):
        if f.cls == "nano::generator_t":
            g.setdefault(f.name, []).append(f)

    def const_written(f):
        out = []
        for x in f.nodes():
            a = assignment(x)
            if a and "m_feature_infos" in pp(a[0]):
                out.append((pp(a[0]), literal_value(a[1]), a[2]))
        return out

    def apply(w, s_):
        """the flag byte after the write w when it held s_ before"""
        v, op = w[1], w[2]
        if v is None:
            return None
        return {"=": v, "|=": s_ | v, "&=": s_ & v, "^=": s_ ^ v, "+=": (s_ + v) & 0xFF, "-=": (s_ - v) & 0xFF}.get(op)

    try:
        drop, undrop, shuffle, unshuffle = g["drop"][0], g["undrop"][0], g["shuffle"][0], g["unshuffle"][0]
        should = g["should_drop"][0]
        sh1 = [f for f in g["shuffled"] if len(f.params) == 1][0]
        sh2 = [f for f in g["shuffled"] if len(f.params) == 2][0]
    except (KeyError, IndexError):
        raise AnalysisBroken("generator_t drop/shuffle API not found")
    wd, ws = const_written(drop), const_written(shuffle)

    def flag_read(n, f):
        n = skip(n)
        while n["k"] == "cast" and n.get("c"):
            n = skip(n["c"][0])
        return n["k"] == "call" and pp(n) == "m_feature_infos(%s)" % f.params[0]["n"]

    def predicate(n, f, s_):
        """value of the reader's test when the feature's flag byte holds s_ (None: not interpretable)"""
        n = skip(n)
        while n["k"] in ("cast", "paren") and n.get("c") and not flag_read(n, f):
            n = skip(n["c"][0])
        if flag_read(n, f):
            return s_
        if n["k"] == "int":
            return n["v"]
        if n["k"] == "bool":
            return bool(n["v"])
        if n["k"] == "un" and n.get("op") in ("!", "~"):
            v = predicate(n["c"][0], f, s_)
            return None if v is None else ((not v) if n["op"] == "!" else (~v) & 0xFF)
        if n["k"] == "bin" and n["op"] in ("==", "!=", "&", "|", "^", "<", "<=", "&&", "||"):
            u, v = predicate(n["c"][0], f, s_), predicate(n["c"][1], f, s_)
            if u is None or v is None:
                return None
            return {"==": u == v, "!=": u != v, "&": int(u) & int(v), "|": int(u) | int(v), "^": int(u) ^ int(v), "<": u < v, "<=": u <= v, "&&": bool(u) and bool(v),
                    "||": bool(u) or bool(v)}[n["op"]]
        return None
    rets = [x for x in should.nodes() if x["k"] == "return" and x.get("c")]
    ifs = [x for x in sh1.nodes() if x["k"] == "if"]
    pd = (lambda s_: predicate(rets[0]["c"][0], should, s_)) if len(rets) == 1 else None
    ps = (lambda s_: predicate(ifs[0]["c"][ifs[0]["r"].index("cond")], sh1, s_)) if len(ifs) == 1 else None
    okw = len(wd) == 1 and len(ws) == 1 and wd[0][0] == "m_feature_infos(%s)" % drop.params[0]["n"] and ws[0][0] == "m_feature_infos(%s)" % shuffle.params[0]["n"]
    if not okw or pd is None or ps is None or any(apply(w[0], s_) is None for w in (wd, ws) for s_ in (0, 1)) or pd(0) is None or ps(0) is None:
        R.check(False, "R-C08-10", "flag values", drop.loc(), "", "drop / shuffle no longer write the given feature's flag with a constant, or the readers do not test that flag: "
                "drop writes %s, shuffle writes %s" % (wd, ws))
    else:
        # the byte holds the feature's state; whatever its earlier history, drop(f) must leave a state should_drop accepts and shuffle(f) one
        # shuffled() accepts: closure of the reachable states under {drop, shuffle}; the undo state 0 is accepted by neither reader
        reach, todo = {0}, [0]
        while todo:
            s_ = todo.pop()
            for w in (wd[0], ws[0]):
                n_ = apply(w, s_)
                if n_ not in reach:
                    reach.add(n_)
                    todo.append(n_)
        bad = None
        for name, w, prd, reader in (("drop", wd[0], pd, "should_drop"), ("shuffle", ws[0], ps, "shuffled")):
            for s_ in sorted(reach):
                if not prd(apply(w, s_)) and bad is None:
                    bad = "after %s(f) on a feature whose flag was %d the flag is %d, which %s() does not accept: the feature is neither missing nor shuffled and both views " \
                          "return the stored values" % (name, s_, apply(w, s_), reader)
        if bad is None and (pd(0) or ps(0)):
            bad = "the cleared flag 0 already counts as dropped / shuffled"
        if bad is None and (pd(apply(ws[0], 0)) or ps(apply(wd[0], 0))):
            bad = "shuffling a feature marks it dropped (or dropping marks it shuffled)"
        R.check(bad is None, "R-C08-10", "flag values", drop.loc(), "for every reachable earlier state %s: drop(f) leaves a state should_drop(f) accepts, shuffle(f) one shuffled(f) accepts; "
                "the cleared state is accepted by neither, each marks only its own condition" % sorted(reach), bad or "")
    okr = all([(w[1], w[2]) for w in const_written(f)] == [(0, "=")] and "m_feature_infos.array()" in const_written(f)[0][0] for f in (undrop, unshuffle))
    okr = okr and any(pp(c) == "m_feature_shuffles.clear()" for c in unshuffle.calls())
    R.check(okr, "R-C08-10", "undo", undrop.loc(), "undrop / unshuffle reset every feature's flag (and forget the permutations)", "undrop/unshuffle do not reset all flags")
    # the permutation: arange over all samples, shuffled as a whole, stored under the feature's index
    fp = shuffle.params[0]["n"]
    perm = [v for v in shuffle.nodes() if v["k"] == "var" and v.get("c") and pp(v["c"][0]) == "arange(0, datasource().samples())"]
    oks = len(perm) == 1
    if oks:
        pn = perm[0]["n"]
        shc = [c for c in shuffle.calls(lambda c: callee(c) == "std::shuffle")]
        st = [x for x in shuffle.nodes() if assignment(x) and pp(assignment(x)[0]) == "m_feature_shuffles[%s]" % fp]
        oks = len(shc) == 1 and [pp(a) for a in args(shc[0])[:2]] == ["begin(%s)" % pn, "end(%s)" % pn] and len(st) == 1 and pp(assignment(st[0])[1]) == pn
        if oks:
            cfg = shuffle.cfg
            w1, w2 = cfg.where_enclosing(shc[0]), cfg.where_enclosing(st[0])
            oks = w1 is not None and w2 is not None and (cfg.dominates(w1, w2) or (w1[0] == w2[0] and w1[1] < w2[1]))
    R.check(bool(oks), "R-C08-10", "permutation stored", shuffle.loc(), "a permutation of all sample indices is stored under the shuffled feature's index",
            "shuffle() no longer stores a shuffled arange(0, samples) under its feature")
    fn = sh1.params[0]["n"]
    fnd = [c for c in sh1.calls(lambda c: callee(c).endswith("::find") and pp(obj(c)) == "m_feature_shuffles")]
    rets = [pp(r["c"][0]) for r in sh1.nodes() if r["k"] == "return" and r.get("c")]
    okl = len(fnd) == 1 and pp(args(fnd[0])[0]) == fn and any(t.replace("->", ".").endswith(".second") or ".second" in t for t in rets) and any("tensor_t()" in t or t.endswith("{}") or "tensor_t" in t for t in rets)
    R.check(okl, "R-C08-10", "permutation lookup", sh1.loc(), "the permutation is looked up under the same feature index (identity when not shuffled)",
            "shuffled(feature) does not look the permutation up under its feature: %s" % rets)
    _shuffled_eval(F, R, sh1, sh2)
    # the sample iterators read through the permutation
    n = 0
    for f in F.functions.values():
        if f.qn == "nano::base_datasource_iterator_t::sample" and f.relfile == "include/nano/datasource/iterator.h":
            n += 1
            rets = sorted(pp(r["c"][0]) for r in f.nodes() if r["k"] == "return" and r.get("c"))
            ifs = [pp(x["c"][x["r"].index("cond")]) for x in f.nodes() if x["k"] == "if"]
            ok = rets == ["m_samples(m_index)", "m_shuffled_all_samples(m_samples(m_index))"] and ifs == [CT("(m_shuffled_all_samples.size() == 0)")]
            R.check(ok, "R-C08-10", "iterator sample", f.loc(), "the stored sample read is permutation(samples(index)) (samples(index) when not shuffled)", "iterator sample() is %s under %s" % (rets, ifs))
            break
    its = [f for f in F.functions.values() if f.name == "iterate" and f.cls == "nano::generator_t" and f.relfile == "include/nano/generator.h"]
    m = 0
    for f in its[:6]:
        for _, gl in F.lambdas_in(f):
            sv = [v for v in gl.nodes() if v["k"] == "var" and v.get("c") and callee(skip(v["c"][0])).endswith("generator_t::shuffled")] if True else []
            for v in sv:
                m += 1
                okp = pp(args(skip(v["c"][0]))[0]) == f.params[1]["n"]
                ls = [c for c in gl.calls(lambda c: callee(c).split("::")[-1] == "loop_samples")]
                okp = okp and len(ls) == 1 and pp(args(ls[0])[-2]) == v["n"] and pp(args(ls[0])[-3]) == f.params[0]["n"]
                R.check(okp, "R-C08-10", "iterate@%s" % gl.loc(), gl.loc(), "the generated feature's own permutation and the requested samples are handed to the sample loop",
                        "iterate() does not pass (samples, shuffled(ifeature)) to the sample loop")
    R.floor("R-C08-10/iterate", m, 2, "iterate helpers")
    R.floor("R-C08-10/iterator", n, 1, "sample iterators")


def run(ctx):
    R = ctx.report
    tus = ctx.all_tus() if ctx.thorough else TUS
    F = ctx.facts(tus)
    fns = [f for f in F.functions.values() if not f.relfile.startswith("/") and (ctx.thorough or True)]
    anchored = [f for f in fns if f.relfile.startswith(("src/dataset", "src/datasource", "src/generator", "include/nano/dataset",
                                                        "include/nano/datasource", "include/nano/generator"))]
    rule_range_guards(F, R, anchored)
    rule_guard_first(F, R)
    rule_markers(F, R, anchored)
    rule_storage_table(F, R)
    rule_mask(F, R)
    rule_widen_first(F, R, anchored)
    rule_pair_rows(F, R)
    rule_encodings(F, R)
    rule_columns(F, R)
    rule_drop_shuffle(F, R)
    rule_empty_reductions(F, R, anchored)
