"""C17 - thread pool runs every task exactly once, completes, shuts down cleanly (DESIGN 3, C17)."""
from ..cfg import must_dataflow
from ..facts import AnalysisBroken, walk
from ..pp import pp, skip
from ..util import args, assignment, callee, incdec, is_call, is_literal, obj, ref_decl, strip_not, literal_value
from .. import kalg

META = {
    "level": "other",
    "technique": "lock-scope typestate (must-dataflow over CFGs with implicit destructors), post-dominance, who-may-write, bounded evaluation of the index arithmetic",
    "explanation": "Decides the locking/signalling discipline that makes the pool's behaviour schedule-independent: every access "
                   "to the queue's task list and stop flag happens while the queue mutex is held (or in a wait predicate, or in "
                   "a requires-lock function all of whose call sites hold it); every publish (task pushed, stop set) happens under the lock and is followed "
                   "on all paths by a notify; waits use the predicate form over exactly the published fields; tasks "
                   "are popped under the lock and run / joined / waited outside it; map() stores every future it creates and "
                   "blocks on all of them on every exit (also via the section destructor); the operator invocations of map, "
                   "evaluated from its loop nest over a grid of workers x elements x chunk size, tile [0, elements) exactly once in ranges of at most "
                   "chunksize, and tasks capture their indices by value; worker ids are 0..n-1, "
                   "fixed at construction. This is the standard sufficient discipline for exactly-once / completion / clean "
                   "shutdown; interleavings themselves are not enumerated.",
    "not_decided": "exhaustive interleavings; behaviour of exceptions thrown by the operator beyond the wait-on-all-futures rule",
    "assumptions": ["std::mutex, std::condition_variable, std::packaged_task and std::shared_future behave as specified"],
}

TUS = ["src/core/parallel.cpp", "witness/pool_inst.cpp"]
QUEUE = "nano::parallel::queue_t"
GUARDED = {"m_tasks", "m_stop"}
LOCK_CLASSES = {"std::scoped_lock", "std::unique_lock", "std::lock_guard"}
REQUIRES_LOCK = {"nano::parallel::queue_t::enqueue_no_lock"}
FILES = ("include/nano/core/parallel.h", "src/core/parallel.cpp")


def lock_analysis(f):
    """returns before(block,pos) -> set of ('held', decl, mutex text)"""
    cfg = f.cfg

    def telem(facts, e):
        if e.kind == "dtor":
            for x in [x for x in facts if x[1] == e.info["dtor"]]:
                facts.discard(x)
            return
        if e.kind != "node":
            return
        n = e.node
        for vn in ([n] if n["k"] == "var" else n.get("c", ()) if n["k"] == "declstmt" else ()):
            if vn["k"] != "var" or not vn.get("c"):
                continue
            init = vn["c"][0]
            while init is not None and init["k"] in ("defarg",):
                init = init["c"][0]
            if init is not None and init["k"] == "construct" and init.get("cls") in LOCK_CLASSES and init.get("c"):
                m = pp(init["c"][0])
                if m.endswith("m_mutex"):
                    facts.add(("held", vn["d"], m))
        if n["k"] == "call" and n.get("ck") == "mem" and callee(n).split("::")[-1] in ("unlock", "release") and \
                callee(n).startswith("std::unique_lock"):
            d = ref_decl(obj(n))
            for x in [x for x in facts if x[1] == d]:
                facts.discard(x)

    IN, before = must_dataflow(cfg, set(), telem)
    return before


def held_at(f, before, node):
    w = f.cfg.where_enclosing(node)
    if w is None:
        return None
    return before(*w)


def guarded_accesses(f):
    for n in f.nodes():
        if n["k"] == "mem" and n.get("fd") and n["n"] in GUARDED and n.get("cls") == QUEUE:
            yield n


def only_when_raise_or_guard(f, c, praise):
    """the call is guarded by a condition that has `raise` as a conjunct"""
    child = c
    for a_ in f.ancestors(c):
        if a_["k"] == "if" and any(z is child for z in walk(a_["c"][a_["r"].index("then")])):
            cnd = a_["c"][a_["r"].index("cond")]
            if any(y["k"] == "ref" and y.get("d") == praise["d"] for y in walk(cnd)):
                return True
        child = a_
    return False


def _follows(f, start, targets, barriers):
    """some node of `targets` is executed after `start` before any node of `barriers` (walk over the CFG elements)"""
    cfg = f.cfg
    tids = {id(t) for t in targets}
    bids = {id(b) for b in barriers}
    w = cfg.where_enclosing(start)
    if w is None:
        return False
    tw = {cfg.where_enclosing(t) for t in targets}
    bw = {cfg.where_enclosing(b) for b in barriers}
    seen, st = set(), [(w[0], w[1] + 1)]
    while st:
        bid, pos = st.pop()
        if bid < 0 or bid not in cfg.blocks:
            continue
        blocked = False
        for e in cfg.blocks[bid].elems:
            if e.pos < pos:
                continue
            if (bid, e.pos) in tw:
                return True
            if (bid, e.pos) in bw:
                blocked = True
                break
        if blocked:
            continue
        for s_ in cfg.blocks[bid].succ:
            if s_ not in seen:
                seen.add(s_)
                st.append((s_, 0))
    return False


class _TileUnknown(Exception):
    pass


_TILE_IGNORED = ("::reserve", "::emplace_back", "::push_back", "::notify_all", "::notify_one", "section_t::block")


def _tile_eval(F, f, values, threads):
    """Evaluate the integer loop nest of one `pool_t::map` instantiation for concrete parameter values: returns the operator invocations as
    (argument values..., worker id) tuples, the worker id being "TNUM" when it is the id the pool hands to the task and a number otherwise.
    Tasks passed to enqueue / enqueue_no_lock are run when the function blocks (by-value captures are snapshot at the enqueue).
    Anything that is not integer arithmetic, a loop, a branch, a call of the operator or one of the pool's own calls raises _TileUnknown."""
    env = dict(values)
    opd = next(p_["d"] for p_ in f.params if p_.get("n") == "op")
    calls, tasks = [], []
    budget = [400000]

    def ev(n, env):
        budget[0] -= 1
        if budget[0] < 0:
            raise _TileUnknown("evaluation does not terminate")
        k = n["k"]
        if k in ("paren", "cast"):
            if k == "cast" and n.get("ck") == "ToVoid":
                return None
            return ev(n["c"][0], env)
        if k in ("int", "bool"):
            return int(n["v"])
        if k == "ref":
            if n.get("d") in env:
                return env[n["d"]]
            raise _TileUnknown("variable `%s`" % n.get("n"))
        if k == "cond":
            return ev(n["c"][1], env) if ev(n["c"][0], env) else ev(n["c"][2], env)
        if k == "un":
            op = n.get("op")
            if op in ("++", "--"):
                t = skip(n["c"][0])
                if t["k"] != "ref" or t.get("d") not in env:
                    raise _TileUnknown(pp(n))
                old = env[t["d"]]
                env[t["d"]] = old + (1 if op == "++" else -1)
                return old if n.get("post") else env[t["d"]]
            v = ev(n["c"][0], env)
            if op == "!":
                return int(not v)
            if op == "-":
                return -v
            if op == "+":
                return v
            raise _TileUnknown(pp(n))
        if k == "bin":
            op = n["op"]
            if op == "&&":
                return int(bool(ev(n["c"][0], env)) and bool(ev(n["c"][1], env)))
            if op == "||":
                return int(bool(ev(n["c"][0], env)) or bool(ev(n["c"][1], env)))
            if op == ",":
                ev(n["c"][0], env)
                return ev(n["c"][1], env)
            if op.endswith("=") and op not in ("==", "!=", "<=", ">="):
                t = skip(n["c"][0])
                if t["k"] != "ref" or t.get("d") not in env:
                    raise _TileUnknown("assignment to " + pp(t))
                b = ev(n["c"][1], env)
                env[t["d"]] = b if op == "=" else arith(op[:-1], env[t["d"]], b, n)
                return env[t["d"]]
            return arith(op, ev(n["c"][0], env), ev(n["c"][1], env), n)
        if k == "call":
            cal = callee(n)
            if n.get("ck") == "op" and n.get("op") == "()" and n.get("c") and ref_decl(n["c"][0]) == opd:
                vals = []
                for a_ in n["c"][1:]:
                    vals.append(ev(a_, env))
                calls.append(tuple(vals))
                return None
            if cal in ("std::min", "std::max") and len(args(n)) == 2:
                a_, b_ = ev(args(n)[0], env), ev(args(n)[1], env)
                return min(a_, b_) if cal == "std::min" else max(a_, b_)
            if cal == "nano::parallel::pool_t::size":
                return threads
            if cal in REQUIRES_LOCK or cal == "nano::parallel::queue_t::enqueue" or cal == "nano::parallel::pool_t::enqueue":
                lams = [x for a_ in args(n) for x in walk(a_) if x["k"] == "lambda"]
                if len(lams) != 1:
                    raise _TileUnknown("task passed to %s is not a lambda" % cal.split("::")[-1])
                lam = lams[0]
                bodies = F.by_lid.get(lam.get("lid"), [])
                if not bodies:
                    raise _TileUnknown("task body not found")
                snap = {}
                for c_ in lam.get("caps", []):
                    if c_.get("n") == "this" or c_.get("d") == opd:
                        continue
                    if c_.get("d") not in env:
                        raise _TileUnknown("task captures `%s`" % c_.get("n"))
                    if not c_.get("ref"):
                        snap[c_["d"]] = env[c_["d"]]
                tasks.append((bodies[0], snap, [c_["d"] for c_ in lam.get("caps", []) if c_.get("ref") and c_.get("d") in env]))
                return None
            if any(cal.endswith(x) for x in _TILE_IGNORED):
                if cal.endswith("section_t::block"):
                    drain(env)
                for a_ in args(n):
                    if any(x["k"] == "call" and (callee(x) in REQUIRES_LOCK or callee(x).endswith("::enqueue")) for x in walk(a_)):
                        ev_enq(a_, env)
                return None
            raise _TileUnknown("call of " + (cal or pp(n)[:40]))
        if k == "construct":
            return None
        raise _TileUnknown(pp(n)[:60])

    def ev_enq(n, env):
        for x in walk(n):
            if x["k"] == "call" and (callee(x) in REQUIRES_LOCK or callee(x).endswith("::enqueue")):
                ev(x, env)
                return

    def arith(op, a_, b_, n):
        if a_ is None or b_ is None or isinstance(a_, str) or isinstance(b_, str):
            raise _TileUnknown(pp(n)[:60])
        if op in ("/", "%"):
            if b_ == 0:
                raise _TileUnknown("division by zero in " + pp(n)[:60])
            q = abs(a_) // abs(b_) * (1 if (a_ >= 0) == (b_ >= 0) else -1)
            return q if op == "/" else a_ - q * b_
        table = {"+": lambda: a_ + b_, "-": lambda: a_ - b_, "*": lambda: a_ * b_, "<": lambda: int(a_ < b_), "<=": lambda: int(a_ <= b_),
                 "==": lambda: int(a_ == b_), "!=": lambda: int(a_ != b_), ">": lambda: int(a_ > b_), ">=": lambda: int(a_ >= b_)}
        if op not in table:
            raise _TileUnknown(pp(n)[:60])
        return table[op]()

    class _Break(Exception):
        pass

    class _Continue(Exception):
        pass

    class _Return(Exception):
        pass

    def ex(s, env):
        if s is None:
            return
        k = s["k"]
        if k == "block":
            for c_ in s.get("c", ()):
                ex(c_, env)
        elif k == "declstmt":
            for v in s.get("c", ()):
                if v is None or v["k"] != "var":
                    continue
                init = v["c"][0] if v.get("c") else None
                if init is None or skip(init)["k"] == "construct":
                    continue                    # a class-typed local (the section, the lock)
                env[v["d"]] = ev(init, env)
        elif k == "if":
            r = s["r"]
            if "init" in r:
                ex(s["c"][r.index("init")], env)
            c_ = ev(s["c"][r.index("cond")], env)
            if c_:
                ex(s["c"][r.index("then")], env)
            elif "else" in r:
                ex(s["c"][r.index("else")], env)
        elif k == "for":
            r = s["r"]
            ex(s["c"][r.index("init")], env) if "init" in r and s["c"][r.index("init")] is not None else None
            while True:
                cnd = s["c"][r.index("cond")] if "cond" in r else None
                if cnd is not None and not ev(cnd, env):
                    break
                try:
                    ex(s["c"][r.index("body")], env)
                except _Break:
                    break
                except _Continue:
                    pass
                inc = s["c"][r.index("inc")] if "inc" in r else None
                if inc is not None:
                    ev(inc, env)
        elif k == "while":
            while ev(s["c"][0], env):
                try:
                    ex(s["c"][1], env)
                except _Break:
                    break
                except _Continue:
                    pass
        elif k == "break":
            raise _Break()
        elif k == "continue":
            raise _Continue()
        elif k == "return":
            raise _Return()
        elif k in ("null", "empty"):
            return
        else:
            ev(s, env)

    def drain(env):
        while tasks:
            body, snap, byref = tasks.pop(0)
            tenv = dict(snap)
            for d_ in byref:
                tenv[d_] = env[d_]
            for d_, v_ in values.items():
                tenv.setdefault(d_, v_)
            if body.params:
                tenv[body.params[0]["d"]] = "TNUM"
            try:
                ex(body.body, tenv)
            except _Return:
                pass

    try:
        ex(f.body, env)
    except _Return:
        pass
    drain(env)
    return calls


def rule_tiling(F, R, maps, rule):
    """the operator invocations of pool_t::map, evaluated from its loop nest for a grid of (threads, elements, chunksize), cover every index
    of [0, elements) exactly once, in ranges of at most `chunksize` elements; the worker id is the pool's (inside a task) or 0 (sequential branch)"""
    small = [(t, e, c) for t in (1, 2, 3, 4, 16) for e in range(0, 71) for c in (1, 2, 3, 4, 7, 10, 64, 100)]
    large = [(t, e, c) for t in (2, 3, 16) for e in (127, 128, 129, 200, 1000, 5001) for c in (1, 3, 100)]
    seen = set()
    for f in maps:
        if f.line in seen:
            continue
        seen.add(f.line)
        tag = "map@%d" % f.line
        pe = f.param("elements")
        pc = f.param("chunksize")
        if pe is None or not any(p_.get("n") == "op" for p_ in f.params):
            R.incomplete(rule, tag + " tiling", f.loc(), "expected the parameters (elements[, chunksize], op)")
            continue
        grid = small + large if pc is not None else sorted({(t, e, 1) for t, e, _ in small + large})
        bad = unknown = None
        n = 0
        for t, e, c in grid:
            vals = {pe["d"]: e}
            if pc is not None:
                vals[pc["d"]] = c
            for p_ in f.params:
                if p_.get("n") == "raise":
                    vals[p_["d"]] = 1
            try:
                got = _tile_eval(F, f, vals, t)
            except _TileUnknown as ex_:
                unknown = str(ex_)
                break
            n += 1
            where = "%d worker(s), %d elements%s" % (t, e, ", chunks of %d" % c if pc is not None else "")
            ids = {g[-1] for g in got}
            if not ids <= {"TNUM", 0}:
                bad = "%s: the operator is given the worker id %s" % (where, sorted(map(str, ids - {"TNUM", 0}))[:2])
                break
            if pc is None:
                idx = sorted(g[0] for g in got)
                if any(len(g) != 2 for g in got) or idx != list(range(e)):
                    miss = sorted(set(range(e)) - set(idx))
                    dup = sorted({i for i in idx if idx.count(i) > 1})
                    bad = "%s: %s" % (where, ("indices %s are never handed to the operator" % miss[:4]) if miss else
                                      ("indices %s are handed to the operator more than once" % dup[:4]) if dup else "indices outside [0, elements) are handed to the operator")
                    break
            else:
                if any(len(g) != 3 for g in got):
                    bad = "%s: the operator is not called as op(begin, end, tnum)" % where
                    break
                rs = sorted((g[0], g[1]) for g in got)
                pos = 0
                for b_, e_ in rs:
                    if b_ != pos or e_ <= b_ or e_ - b_ > c:
                        bad = "%s: ranges %s: %s" % (where, rs[:3] + (["..."] if len(rs) > 6 else []) + rs[-3:] if len(rs) > 3 else rs,
                                                    "[%d, %d) is handed out twice" % (b_, min(pos, e_)) if b_ < pos else
                                                    "[%d, %d) is never handed to the operator" % (pos, b_) if b_ > pos else
                                                    "an empty range" if e_ <= b_ else "a range of %d > chunksize elements" % (e_ - b_))
                        break
                    pos = e_
                if bad is None and pos != e:
                    bad = "%s: [%d, %d) is never handed to the operator (ranges end with %s)" % (where, pos, e, rs[-2:])
                if bad:
                    break
        if unknown and not bad:
            R.incomplete(rule, tag + " tiling", f.loc(), "cannot evaluate the loop nest of map: %s" % unknown)
        else:
            R.check(bad is None, rule, tag + " tiling", f.loc(),
                    "the operator invocations tile [0, elements) exactly once%s, with the pool's worker id in tasks and 0 on the calling thread (%d configurations of "
                    "workers x elements%s evaluated from the loop nest)" % (" in ranges of at most chunksize" if pc is not None else "", n, " x chunksize" if pc is not None else ""),
                    bad or "")


def run(ctx):
    R = ctx.report
    tus = list(TUS)
    if ctx.thorough:
        tus = sorted(set(tus) | set(ctx.all_tus()))
    F = ctx.facts(tus)
    fns = [f for f in F.functions.values() if f.relfile in FILES]
    if not fns:
        raise AnalysisBroken("no functions found in the thread-pool sources")
    by_key = {f.key: f for f in fns}
    befores = {}

    def B(f):
        if f.key not in befores:
            befores[f.key] = lock_analysis(f)
        return befores[f.key]

    # ---- wait predicates: lambdas passed to condition_variable::wait(lock, pred) in a held region
    predicate_lambdas = {}
    wait_classes = []
    nwaits = 0
    for f in fns:
        for c in f.calls(lambda n: callee(n) in ("std::condition_variable::wait", "std::condition_variable_any::wait")):
            nwaits += 1
            a = args(c)
            inst = "wait@%s" % f.loc(c)
            if len(a) != 2 or skip(a[1])["k"] != "lambda":
                R.bad("R-C17-3", inst, f.loc(c), "condition wait without a predicate (lost or spurious wake-ups are not re-checked)")
                continue
            held = held_at(f, B(f), c) or set()
            lockd = ref_decl(a[0])
            R.check(any(h[1] == lockd for h in held), "R-C17-3", inst, f.loc(c),
                    "wait(lock, predicate) called with the lock it holds on the queue mutex",
                    "wait called with a lock that is not held on the queue mutex here")
            lam = skip(a[1])
            predicate_lambdas[lam["key"]] = (f, c)
            bodies = F.by_lid.get(lam.get("lid"), [])
            if not bodies:
                R.incomplete("R-C17-3", inst, f.loc(c), "predicate body not found")
                continue
            reads = {n["n"] for n in guarded_accesses(bodies[0])}
            rets_ = [x for x in bodies[0].nodes() if x["k"] == "return" and x.get("c")]
            wait_classes.append((f, c, reads, pp(rets_[0]["c"][0]) if len(rets_) == 1 else pp(bodies[0].body)))
            if f.qn == "nano::parallel::worker_t::operator()":
                # the worker sleeps until there is work or the pool stops: both published fields
                R.check(reads == GUARDED, "R-C17-3", inst + " predicate-fields", f.loc(c),
                        "predicate reads exactly the published fields {m_stop, m_tasks}",
                        "predicate reads %s, publishers write %s" % (sorted(reads), sorted(GUARDED)))
            else:
                R.check(bool(reads) and reads <= GUARDED, "R-C17-3", inst + " predicate-fields", f.loc(c),
                        "predicate reads only fields published under the queue lock",
                        "predicate reads %s, the fields published under the lock are %s" % (sorted(reads), sorted(GUARDED)))
    R.floor("R-C17-3", nwaits, 1, "condition waits")
    # waiters of different kinds on one condition variable: notify_one may wake a waiter whose predicate is still false - it goes back to sleep and
    # the waiter the signal was meant for is never woken (lost wake-up; a destructor waiting for "queue empty" next to workers waiting for "work
    # or stop" hangs). With more than one predicate every notify on that variable must be notify_all, and whatever makes a further predicate
    # true (the queue draining) must be followed by a notify at all.
    kinds = sorted({w[3] for w in wait_classes})
    if len(kinds) > 1:
        seen_n1 = set()
        for f in fns:
            for c in f.calls(lambda n: callee(n) == "std::condition_variable::notify_one"):
                if f.loc(c) in seen_n1:
                    continue
                seen_n1.add(f.loc(c))
                R.bad("R-C17-3", "%s notify_one@%s" % (f.qn, f.loc(c)), f.loc(c),
                      "`%s` while threads wait on the condition variable with different predicates (%s): the one woken may be a waiter whose predicate is still false; "
                      "it sleeps again and the intended waiter is never signalled - with tasks queued and an idle worker the pool's destructor / the workers hang" % (
                          pp(c)[:50], "; ".join("`%s`" % k_[:50] for k_ in kinds)))
        for f, c, reads, txt in wait_classes:
            if f.qn == "nano::parallel::worker_t::operator()" or "m_tasks" not in reads:
                continue
            # the queue shrinks at pop_front / clear: a notify must follow it in the same function
            shr = [(g, x) for g in fns for x in g.calls(lambda n: callee(n) in ("std::deque::pop_front", "std::deque::clear", "std::deque::pop_back", "std::deque::erase"))
                   if pp(obj(x)).endswith("m_tasks")]
            for g, x in shr:
                nts = [y for y in g.calls(lambda n: callee(n) in ("std::condition_variable::notify_all", "std::condition_variable::notify_one"))]
                wts = [y for y in g.calls(lambda n: callee(n) in ("std::condition_variable::wait", "std::condition_variable_any::wait"))]
                okn = _follows(g, x, nts, wts)
                R.check(okn, "R-C17-3", "%s drain-notify@%s" % (g.qn, g.loc(x)), g.loc(x),
                        "the queue shrinking is followed by a notify (a thread waits for `%s`)" % txt[:40],
                        "`%s` is never followed by a notify, but the wait at %s sleeps until `%s`" % (pp(x)[:40], f.loc(c), txt[:40]))

    # ---- R-C17-1 guarded-by
    nacc = 0
    nsites = 0
    scope = list(F.functions.values()) if ctx.thorough else fns
    for f in scope:
        accs = list(guarded_accesses(f))
        if not accs:
            continue
        if f.key in predicate_lambdas:
            for n in accs:
                nacc += 1
                R.ok("R-C17-1", "%s %s@%s" % (f.qn, n["n"], f.loc(n)), f.loc(n), "access inside a wait predicate (runs with the lock held)")
            continue
        if f.relfile not in FILES:
            for n in accs:
                R.bad("R-C17-1", "%s %s@%s" % (f.qn, n["n"], f.loc(n)), f.loc(n),
                      "queue state accessed outside the thread-pool sources, in " + f.qn)
            continue
        if f.qn in REQUIRES_LOCK:
            for n in accs:
                nacc += 1
                R.ok("R-C17-1", "%s %s@%s" % (f.qn, n["n"], f.loc(n)), f.loc(n), "requires-lock function (call sites checked)")
            continue
        if f.raw.get("ctor") and f.cls == QUEUE:
            continue
        for n in accs:
            nacc += 1
            held = held_at(f, B(f), n)
            base = pp(n["c"][0]) if n.get("c") else ""
            want = (base + ".m_mutex") if base and base != "this" else "m_mutex"
            ok = held is not None and any(h[2] == want for h in held)
            R.check(ok, "R-C17-1", "%s %s@%s" % (f.qn, n["n"], f.loc(n)), f.loc(n),
                    "access to %s with %s held" % (n["n"], want),
                    "access to queue_t::%s without holding %s (held here: %s)" % (n["n"], want, sorted(h[2] for h in (held or []))))
    for f in scope:
        for c in f.calls(lambda n: callee(n) in REQUIRES_LOCK):
            nsites += 1
            held = held_at(f, B(f), c) if f.key in by_key or f.cfg.blocks else None
            o = obj(c)
            base = pp(o)
            want = (base + ".m_mutex") if base != "this" else "m_mutex"
            ok = held is not None and any(h[2] == want for h in held)
            R.check(ok, "R-C17-1", "%s call enqueue_no_lock@%s" % (f.qn, f.loc(c)), f.loc(c),
                    "requires-lock function called with %s held" % want,
                    "enqueue_no_lock called without holding %s" % want)
    R.floor("R-C17-1/accesses", nacc, 9, "accesses to queue state")
    R.floor("R-C17-1/no-lock-call-sites", nsites, 2, "enqueue_no_lock call sites")

    # ---- R-C17-2 publish -> unlock -> notify
    npub = 0
    for f in fns:
        cfg = f.cfg
        pubs = []
        for n in f.nodes():
            if n["k"] == "call" and n.get("ck") == "mem" and callee(n).split("::")[-1] in ("emplace_back", "push_back", "push_front", "emplace_front"):
                o = skip(obj(n))
                if o["k"] == "mem" and o["n"] == "m_tasks" and o.get("cls") == QUEUE:
                    pubs.append((n, "task pushed"))
            a = assignment(n)
            if a:
                l = skip(a[0])
                if l["k"] == "mem" and l["n"] == "m_stop" and l.get("cls") == QUEUE:
                    pubs.append((n, "stop set"))
            if n["k"] == "call" and callee(n) in REQUIRES_LOCK:
                pubs.append((n, "task pushed via enqueue_no_lock"))
        if f.qn in REQUIRES_LOCK:
            for n, what in pubs:
                npub += 1
                R.ok("R-C17-2", "%s publish@%s" % (f.qn, f.loc(n)), f.loc(n), "publish inside requires-lock function: notify obligation is on the call sites")
            continue
        notifies = [c for c in f.calls(lambda n: callee(n) in ("std::condition_variable::notify_all", "std::condition_variable::notify_one"))]
        for n, what in pubs:
            npub += 1
            p = cfg.where_enclosing(n)
            held = B(f)(*p) if p else None
            ok = False
            detail = "no notify_one/notify_all post-dominates the publish"
            for nt in notifies:
                q = cfg.where_enclosing(nt)
                if not (p and q and cfg.postdominates(q, p)):
                    continue
                ok = True
            R.check(ok and bool(held), "R-C17-2", "%s publish@%s" % (f.qn, f.loc(n)), f.loc(n),
                    "%s under the lock, then notify on every path" % what,
                    ("%s: " % what) + (detail if held else "publish is not under the queue lock"))
    R.floor("R-C17-2", npub, 6, "publish sites")

    # ---- R-C17-4 pop under lock in one region, run / join / wait outside
    worker = F.one("nano::parallel::worker_t::operator()", "src/core/parallel.cpp")
    bw = B(worker)
    front = [c for c in worker.calls(lambda n: callee(n) == "std::deque::front")]
    popf = [c for c in worker.calls(lambda n: callee(n) == "std::deque::pop_front")]
    if len(front) != 1 or len(popf) != 1:
        R.incomplete("R-C17-4", "worker pop", worker.loc(), "expected one front() and one pop_front()")
    else:
        h1, h2 = held_at(worker, bw, front[0]), held_at(worker, bw, popf[0])
        same = bool(h1) and h1 == h2 and worker.cfg.where_enclosing(front[0])[0] == worker.cfg.where_enclosing(popf[0])[0]
        R.check(same, "R-C17-4", "worker pop", worker.loc(front[0]), "front() and pop_front() in one held region",
                "front() and pop_front() are not in one locked region (a second worker can take the same task)")
    nblock = 0
    for f in fns:
        for c in f.calls():
            q = callee(c)
            blocking = (q == "std::packaged_task::operator()" or q in ("std::thread::join", "std::shared_future::get", "std::shared_future::wait",
                        "std::__basic_future::wait", "nano::parallel::section_t::block"))
            if not blocking:
                continue
            nblock += 1
            held = held_at(f, B(f), c)
            R.check(not held, "R-C17-4", "%s blocking %s@%s" % (f.qn, q.split("::")[-1], f.loc(c)), f.loc(c),
                    "task execution / join / future wait happens with no queue lock held",
                    "blocking call %s while holding %s" % (pp(c), sorted(h[2] for h in (held or []))))
    R.floor("R-C17-4", nblock, 6, "blocking call sites")
    # the task is run with the worker's own id
    runs = [c for c in worker.calls(lambda n: callee(n) == "std::packaged_task::operator()")]
    R.check(len(runs) == 1 and pp(args(runs[0])[0]) == "m_tnum" if runs else False, "R-C17-7", "worker passes m_tnum", worker.loc(),
            "task invoked with the worker's own id", "task not invoked with m_tnum")

    # ---- R-C17-5 completeness of map
    maps = [f for f in fns if f.qn == "nano::parallel::pool_t::map"]
    R.floor("R-C17-5", len(maps), 2, "map instantiations")
    seen_defs = set()
    for f in maps:
        tag = "map@%d" % f.line
        first = (f.line not in seen_defs)
        seen_defs.add(f.line)
        cfg = f.cfg
        sect = [n for n in f.nodes() if n["k"] == "var" and n.get("t") == "nano::parallel::section_t"]
        enq = [c for c in f.calls(lambda n: callee(n) in REQUIRES_LOCK or callee(n) == "nano::parallel::queue_t::enqueue")]
        if len(sect) != 1 or not enq:
            R.incomplete("R-C17-5", tag, f.loc(), "expected one local section_t and enqueue calls")
            continue
        sd = sect[0]["d"]
        for c in enq:
            par = f.parent_of(c)
            while par is not None and par["k"] in ("construct", "cast"):
                par = f.parent_of(par)
            stored = par is not None and par["k"] == "call" and callee(par).split("::")[-1] in ("emplace_back", "push_back") and ref_decl(obj(par)) == sd
            R.check(stored, "R-C17-5", "%s future-stored@%s" % (tag, f.loc(c)), f.loc(c),
                    "future returned by enqueue is stored in the local section", "future of an enqueued task is dropped: " + pp(par or c),
                    ) if first or not stored else None
            blocks = [b for b in f.calls(lambda n: callee(n) == "nano::parallel::section_t::block" and ref_decl(obj(n)) == sd)]
            p = cfg.where_enclosing(c)
            okb = any(cfg.postdominates(cfg.where_enclosing(b), p) for b in blocks)
            if first or not okb:
                R.check(okb, "R-C17-5", "%s block-postdominates@%s" % (tag, f.loc(c)), f.loc(c),
                        "section.block(raise) post-dominates the enqueue loop", "map can return without waiting for the enqueued tasks")
            for b in blocks:
                a = args(b)
                pr = f.param("raise")
                if first:
                    R.check(bool(a) and pr is not None and ref_decl(a[0]) == pr["d"], "R-C17-5", "%s raise-forwarded@%s" % (tag, f.loc(b)), f.loc(b),
                            "block() receives the caller's raise flag", "block() not given the caller's raise flag: " + pp(b))
        # lambda captures by value, body forwards to op with its own indices
        for lam, body in F.lambdas_in(f):
            caps = {c["n"]: c["ref"] for c in lam.get("caps", [])}
            byref = [k for k, v in caps.items() if v and k != "this"]
            if first or byref:
                R.check(not byref, "R-C17-6", "%s task-captures@%s" % (tag, f.loc(lam)), f.loc(lam),
                        "task lambda captures the operator and its indices by value", "task lambda captures %s by reference (loop variable outlives?)" % byref)
    # ---- R-C17-9 the shared queue only grows at its tail and shrinks at its head: the operations ever applied to queue_t::m_tasks are
    # emplace_back / push_back (publish), front + pop_front (the worker takes the oldest task) and the read-only empty / size. Anything that
    # replaces or removes other entries (swap, clear, erase, assignment, resize, pop_back, ...) drops tasks other callers have queued: those are
    # never invoked and their futures break.
    ALLOWED_Q = {"emplace_back", "push_back", "front", "pop_front", "empty", "size"}
    nq = 0
    for f in fns:
        for x in f.nodes():
            if x["k"] == "mem" and x.get("n") == "m_tasks":
                par = f.parent_of(x)
                while par is not None and par["k"] in ("cast", "paren"):
                    par = f.parent_of(par)
                how = None
                if par is not None and par["k"] == "call" and par.get("ck") == "mem" and par.get("c") and any(z is x for z in walk(par["c"][0])):
                    how = callee(par).split("::")[-1]
                elif par is not None and assignment(par) and any(z is x for z in walk(assignment(par)[0])):
                    how = "operator" + assignment(par)[2]
                elif par is not None and par["k"] == "call":
                    j = [i_ for i_, a_ in enumerate(args(par)) if any(z is x for z in walk(a_))]
                    if j and par.get("pk", "")[j[0]:j[0] + 1] in ("r", "p"):
                        how = "passed by reference to " + callee(par).split("::")[-1]
                if how is None:
                    continue
                nq += 1
                if how in ALLOWED_Q:
                    continue
                if how == "clear" and any(a_["k"] == "if" and skip(a_["c"][a_["r"].index("cond")])["k"] == "mem" and skip(a_["c"][a_["r"].index("cond")]).get("n") == "m_stop" and
                                          any(z is x for z in walk(a_["c"][a_["r"].index("then")])) for a_ in f.ancestors(x)):
                    continue        # shutdown: the pool is being destroyed, what is still queued is dropped on purpose
                R.bad("R-C17-9", "%s m_tasks.%s@%d" % (f.name, how, x["l"]), f.loc(x),
                      "`%s` on the shared task queue: it replaces / removes entries other callers may have queued - their operator invocations never happen (a caller "
                      "waiting on them sees broken promises or returns with indices missing)" % (pp(par)[:60]))
    R.floor("R-C17-9", nq, 4, "operations on queue_t::m_tasks")
    R.ok("R-C17-9", "queue operations", "include/nano/core/parallel.h:1", "the shared queue is only appended to, popped at the head and tested for emptiness (%d operations)" % nq)
    # ---- R-C17-7 (caller side): worker ids 0..n-1 belong to the workers. The calling thread may invoke the operator itself (with id 0) only on
    # the branch that enqueues nothing; where tasks of the same call are (or may be) running, an inline invocation shares its id with a worker
    ninline = 0
    seen_defs = set()
    for f in maps:
        if f.line in seen_defs:
            continue
        seen_defs.add(f.line)
        tag = "map@%d" % f.line
        pop = [p_ for p_ in f.params if p_.get("n") == "op"]
        enq = [c for c in f.calls(lambda n: callee(n) in REQUIRES_LOCK or callee(n) == "nano::parallel::queue_t::enqueue")]
        if not pop or not enq:
            continue
        direct = [c for c in f.calls(lambda n: n.get("ck") == "op" and n.get("op") == "()" and n.get("c") and ref_decl(n["c"][0]) == pop[0]["d"])]
        for c in direct:
            ninline += 1
            # the innermost `if` that separates this call from the enqueue calls
            anc = list(f.ancestors(c))
            branch_free = False
            for i_, a_ in enumerate(anc):
                if a_["k"] == "if":
                    child = anc[i_ - 1] if i_ > 0 else c
                    mine = "then" if any(z is child for z in walk(a_["c"][a_["r"].index("then")])) else "else"
                    here = a_["c"][a_["r"].index(mine)]
                    if not any(any(z is e_ for z in walk(here)) for e_ in enq):
                        branch_free = True
                    break
            R.check(branch_free, "R-C17-7", "%s inline op@%d" % (tag, c["l"]), f.loc(c),
                    "the calling thread runs the operator itself only on the branch that enqueues no task",
                    "`%s` runs on the calling thread with a literal worker id on the branch that also enqueues tasks: worker %s may be executing a task of the same call with "
                    "the same id at that moment (per-worker buffers indexed by it are then shared by two threads)" % (pp(c)[:50], pp(c["c"][-1])))
    R.floor("R-C17-7/inline", ninline, 2, "inline invocations of the operator in map (the sequential branches)")
    dtor = F.one("nano::parallel::section_t::~section_t", "src/core/parallel.cpp")
    bl = [c for c in dtor.calls(lambda n: callee(n) == "nano::parallel::section_t::block")]
    R.check(len(bl) == 1 and is_literal(args(bl[0])[0], False) if bl else False, "R-C17-5", "section dtor", dtor.loc(),
            "~section_t waits for all futures (block(false))", "~section_t no longer waits for its futures")
    block = F.one("nano::parallel::section_t::block", "src/core/parallel.cpp")
    rf = [n for n in block.nodes() if n["k"] == "rangefor"]
    praise = block.param("raise")
    if len(rf) != 1 or pp(rf[0]["c"][1]) != "(*this)" or praise is None:
        R.bad("R-C17-5", "section block", block.loc(), "block() no longer visits every stored future in one loop over *this")
    else:
        body = rf[0]["c"][2]
        gets = [c for c in walk(body) if c["k"] == "call" and callee(c) in ("std::shared_future::get", "std::future::get")]
        waits = [c for c in walk(body) if c["k"] == "call" and callee(c).endswith("::wait")]

        def only_when_raise(c):
            """the call is executed only if `raise` is true (arm of `raise ? .. : ..` / then-branch of `if (raise)`)"""
            child = c
            for a_ in block.ancestors(c):
                if a_["k"] == "cond" and ref_decl(a_["c"][0]) == praise["d"]:
                    return any(z is child for z in walk(a_["c"][1]))
                if a_["k"] == "if" and ref_decl(a_["c"][a_["r"].index("cond")]) == praise["d"]:
                    return any(z is child for z in walk(a_["c"][a_["r"].index("then")]))
                child = a_
            return False

        def caught_all(c):
            child = c
            for a_ in block.ancestors(c):
                if a_["k"] == "try" and a_.get("c") and any(z is child for z in walk(a_["c"][0])):
                    return any(h is not None and h.get("k") == "catch" and h.get("all") for h in a_["c"][1:])
                child = a_
            return False
        # every future is waited for: a get() or a wait() on every path through the loop body for a valid future
        def branch_of(c):
            """True / False: executed only when raise is true / false; None: whatever raise is"""
            child = c
            for a_ in block.ancestors(c):
                if a_["k"] == "cond" and ref_decl(a_["c"][0]) == praise["d"]:
                    return any(z is child for z in walk(a_["c"][1]))
                if a_["k"] == "if" and ref_decl(a_["c"][a_["r"].index("cond")]) == praise["d"]:
                    return any(z is child for z in walk(a_["c"][a_["r"].index("then")]))
                child = a_
            return None
        brs = [branch_of(c) for c in gets + waits]
        covered = all(any(b_ is None or b_ == v for b_ in brs) for v in (True, False))
        R.check(covered, "R-C17-5", "section block", block.loc(), "block() waits (get() or wait()) on every stored future", "block() does not wait on every stored future")
        # without `raise` nothing may escape: get() (which re-throws the task's exception) runs only when raise is set, or inside try { } catch (...)
        leak = [c for c in gets if not only_when_raise(c) and not caught_all(c)]
        R.check(not leak, "R-C17-5", "section block quiet", block.loc(leak[0]) if leak else block.loc(),
                "with raise == false no exception of a task leaves block() (the destructor relies on it)",
                "`%s` runs also when `raise` is false and is not inside try { } catch (...): an exception of a type the handlers do not name leaves block(false) - from "
                "~section_t (noexcept) that is std::terminate, and the caller of map(..., raise = true) never receives the task's exception" % (pp(leak[0])[:30] if leak else ""))
        # with `raise` the exception reaches the caller: a get() outside any try, or a rethrow of what was caught
        deliver = any(only_when_raise(c) and not any(a_["k"] == "try" for a_ in block.ancestors(c)) for c in gets) or \
            any(c["k"] == "call" and callee(c) == "std::rethrow_exception" and only_when_raise_or_guard(block, c, praise) for c in block.nodes()) or \
            any(x["k"] == "throw" for x in block.nodes())
        R.check(deliver, "R-C17-5", "section block raise", block.loc(), "with raise == true a task's exception is re-thrown to the caller", "block(true) no longer re-throws a task's exception")

    # ---- R-C17-6 tiling
    rule_tiling(F, R, maps, "R-C17-6")

    # ---- R-C17-7 worker ids
    wctor = [f for f in fns if f.cls == "nano::parallel::worker_t" and f.raw.get("ctor") == "other"]
    if not wctor:
        raise AnalysisBroken("worker_t constructor vanished")
    w = wctor[0]
    binds = {i.get("n"): pp(i["c"][0]) for i in w.inits if i.get("c")}
    R.check(binds.get("m_tnum") == w.params[1]["n"] and binds.get("m_queue") == w.params[0]["n"], "R-C17-7", "worker ctor", w.loc(),
            "worker binds its queue and its id from the constructor arguments", "worker constructor binds %s" % binds)
    nw = 0
    for f in scope:
        for n in f.nodes():
            a = assignment(n) or incdec(n)
            if a:
                l = skip(a[0])
                if l["k"] == "mem" and l["n"] == "m_tnum" and l.get("cls") == "nano::parallel::worker_t":
                    nw += 1
                    R.bad("R-C17-7", "m_tnum write@%s" % f.loc(n), f.loc(n), "worker id modified after construction")
    pctor = [f for f in fns if f.cls == "nano::parallel::pool_t" and f.raw.get("ctor") == "other" and len(f.params) == 1]
    if not pctor:
        raise AnalysisBroken("pool_t(size_t) constructor vanished")
    p = pctor[0]
    loops = [n for n in p.nodes() if n["k"] == "for"]
    okp = False
    if len(loops) == 1:
        lp = loops[0]
        init, cond, inc, body = (lp["c"][lp["r"].index(r)] for r in ("init", "cond", "inc", "body"))
        iv = init["c"][0]
        eb = [c for c in walk(body) if c["k"] == "call" and callee(c).split("::")[-1] == "emplace_back" and pp(obj(c)) == "m_workers"]
        okp = (pp(iv["c"][0]) == "0" and pp(inc) == "(++%s)" % iv["n"] and pp(cond).startswith("(%s < " % iv["n"]) and len(eb) == 1
               and [pp(x) for x in args(eb[0])] == ["m_queue", iv["n"]])
    R.check(okp, "R-C17-7", "pool ctor ids", p.loc(), "workers are created with ids 0..n-1 on the pool's own queue",
            "worker creation loop no longer assigns ids 0..n-1 on m_queue")
    tr = [c for c in p.calls(lambda n: callee(n) == "std::transform")]
    okt = len(tr) == 1 and pp(args(tr[0])[0]) == "m_workers.begin()" and pp(args(tr[0])[1]) == "m_workers.end()" and "m_threads" in pp(args(tr[0])[2])
    R.check(okt, "R-C17-7", "pool ctor threads", p.loc(), "one thread per worker", "threads are not created one per worker")

    # ---- R-C17-8 shutdown
    d = F.one("nano::parallel::pool_t::~pool_t", "src/core/parallel.cpp")
    joins = [c for c in d.calls(lambda n: callee(n) == "std::thread::join")]
    rf = [n for n in d.nodes() if n["k"] == "rangefor"]
    okj = len(joins) == 1 and len(rf) == 1 and pp(rf[0]["c"][1]) == "m_threads" and ref_decl(obj(joins[0])) == rf[0]["c"][0]["d"]
    R.check(okj, "R-C17-8", "dtor joins all", d.loc(), "destructor joins every worker thread", "destructor does not join every thread of m_threads")
    stops = [n for n in d.nodes() if assignment(n) and pp(assignment(n)[0]).endswith("m_stop")]
    oks = len(stops) == 1 and is_literal(assignment(stops[0])[1], True)
    if oks and joins:
        oks = d.cfg.dominates(d.cfg.where_enclosing(stops[0]), d.cfg.where_enclosing(joins[0]))
    R.check(oks, "R-C17-8", "dtor stop-before-join", d.loc(), "stop flag set before joining", "stop flag is not set (to true) before the joins")
    # worker: on m_stop the loop is left inside the held region
    cfg = worker.cfg
    okw = False
    for b in cfg.blocks.values():
        if b.cond is not None and pp(b.cond).endswith("m_stop") and len(b.succ) == 2:
            tb = cfg.blocks[b.succ[0]]
            # the true branch must reach the function exit without re-entering the loop header
            seen, st = set(), [tb.id]
            back = {h for (_, h) in cfg.back_edges()}
            leaves_loop = True
            while st:
                x = st.pop()
                if x in seen:
                    continue
                seen.add(x)
                if x in back:
                    leaves_loop = False
                st.extend(s for s in cfg.blocks[x].succ if s >= 0)
            held = bw(b.id, len(b.elems))
            okw = leaves_loop and bool(held)
    R.check(okw, "R-C17-8", "worker exits on stop", worker.loc(), "worker tests m_stop under the lock and leaves its loop",
            "worker does not terminate on m_stop")
