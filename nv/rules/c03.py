"""C03 - bundle / ellipsoid solvers: reported convergence certifies eps-optimality (DESIGN 3, C03)."""
import sympy as sp

from ..facts import AnalysisBroken, walk, strip_targs
from ..cfg import must_dataflow
from ..pp import pp, skip, canon_text as CT
from ..util import (args, assignment, callee, incdec, is_call, obj, strip_not, literal_value, find_var, parameter_name, writes_in,
                    root_of, unwrap_view)
from ..util import ref_decl_v as ref_decl
from .. import kalg

META = {
    "level": "other",
    "technique": "decision rules on the curve-search status, sibling agreement of the two tolerance expressions, expression algebra for the linearisation-error updates and the two-cut closed form, partial-sort pairing and capacity accounting",
    "explanation": "Decides: the curve search assigns `converged` only under econverged(eps) && sconverged(eps), both evaluated after "
                   "bundle.solve() of the same iteration with no bundle change in between, and `failed` only for a non-finite value; both "
                   "tests use one tolerance eps*sqrt(n) on the smeared error / smeared sub-gradient norm; RQB and FPBA derive their "
                   "converged / iter_ok flags from the status just returned; on a serious step every stored linearisation error is "
                   "shifted by fy - fx - s_i.(y - x) with the OLD centre, the new cut gets error 0, on a null step the new cut gets "
                   "fx - fy - gy.(x - y), and the centre (x, gx, fx) moves together afterwards; the two-cut closed form is the stationary "
                   "point of the very objective 0.5 a'Qa + c'a handed to the QP solver, restricted to a = (t, 1-t), with the better "
                   "endpoint when outside [0,1]; after std::nth_element only the partition position is read (this found the heap overflow "
                   "for bundle::max_size 2 and 3); the number of cuts removed covers the slots consumed before the next capacity check; "
                   "the ellipsoid method reports converged iff sqrt(g'Hg) < eps for the g'Hg used by that iteration's update.",
    "not_decided": "the eps-optimality bounds themselves (numerical); that the ellipsoid method always converges within 20000 evaluations",
    "assumptions": ["1x1 / 2x2 instances of matrix identities are necessary conditions only"],
}

TUS = ["src/solver/bundle.cpp", "src/solver/csearch.cpp", "src/solver/rqb.cpp", "src/solver/fpba.cpp", "src/solver/ellipsoid.cpp",
       "src/solver/proximity.cpp", "witness/stats_inst.cpp"]


def local_init(f, d):
    var, _ = find_var(f, d)
    return var["c"][0] if var is not None and var.get("c") else None


def rule_csearch_status(F, R):
    f = F.one("nano::csearch_t::search", "src/solver/csearch.cpp")
    # assignments of the status inside the loop, with the condition of the enclosing branch
    alias = {v["d"] for v in f.nodes() if v["k"] == "var" and v.get("isref") and v.get("c") and pp(v["c"][0]) == "m_point.m_status"}
    n = 0
    eps = f.param("epsilon")
    for x in f.nodes():
        a = assignment(x)
        if not a:
            continue
        tgt = a[0]
        if not (ref_decl(tgt) in alias or pp(tgt) == "m_point.m_status"):
            continue
        val = skip(a[1])
        name = val.get("n", "").split("::")[-1] if val["k"] == "ref" else pp(val)
        if name not in ("converged", "failed"):
            continue
        n += 1
        inst = "csearch status=%s@%s" % (name, f.loc(x))
        # innermost enclosing if whose then-branch contains the assignment
        cond = None
        for anc in f.ancestors(x):
            if anc["k"] == "if" and any(y is x for y in walk(anc["c"][anc["r"].index("then")])):
                cond = anc
                break
        if cond is None:
            R.bad("R-C03-1", inst, f.loc(x), "status %s is assigned unconditionally" % name)
            continue
        c = cond["c"][cond["r"].index("cond")]
        d = ref_decl(c)
        expr = local_init(f, d) if d is not None else c
        if expr is None and "condvar" in cond["r"]:
            expr = c
        # condition variables declared in the if-init
        if d is not None and expr is None:
            for v in walk(cond):
                if v["k"] == "var" and v.get("d") == d and v.get("c"):
                    expr = v["c"][0]
        expr = skip(expr) if expr is not None else None
        if name == "converged":
            ok = False
            detail = pp(expr) if expr is not None else "?"
            if expr is not None and expr["k"] == "bin" and expr["op"] == "&&":
                parts = []
                for side in expr["c"]:
                    sd = ref_decl(side)
                    init = skip(local_init(f, sd)) if sd is not None and local_init(f, sd) is not None else skip(side)
                    parts.append(init)
                names = sorted(callee(p).split("::")[-1] if p["k"] == "call" else pp(p) for p in parts)
                same_eps = all(p["k"] == "call" and eps is not None and ref_decl(args(p)[0]) == eps["d"] and pp(obj(p)) == "bundle" for p in parts)
                ok = names == ["econverged", "sconverged"] and same_eps
                detail = "%s with arguments %s" % (names, [pp(p) for p in parts])
            R.check(ok, "R-C03-1", inst, f.loc(x), "converged is assigned only under bundle.econverged(epsilon) && bundle.sconverged(epsilon)",
                    "the curve search reports converged under `%s` instead of both bundle tests with the caller's epsilon" % detail)
        else:
            ok = expr is not None and pp(expr) in ("(!isfinite(fy))", "(!isfinite(m_point.m_fy))")
            R.check(ok, "R-C03-1", inst, f.loc(x), "failed is assigned only for a non-finite trial value", "failed is assigned under `%s`" % (pp(expr) if expr is not None else "?"))
    R.floor("R-C03-1", n, 2, "converged/failed status assignments")
    # solve() precedes the tests in the loop body, no bundle mutation in between
    loops = [x for x in f.nodes() if x["k"] == "while"]
    if len(loops) != 1:
        R.incomplete("R-C03-1", "csearch loop", f.loc(), "expected one while loop")
        return
    body = loops[0]["c"][loops[0]["r"].index("body")]
    order = []
    for i, s in enumerate(body.get("c", ())):
        for c in walk(s):
            if c["k"] == "call" and c.get("ck") == "mem" and pp(obj(c)) == "bundle":
                order.append((i, callee(c).split("::")[-1], c.get("cconst", False)))
    names = [o[1] for o in order]
    ok = "solve" in names and "econverged" in names and "sconverged" in names and names.index("solve") < names.index("econverged") and \
        names.index("solve") < names.index("sconverged") and all(o[2] or o[1] == "solve" for o in order)
    R.check(ok, "R-C03-1", "solve before tests", f.loc(loops[0]), "bundle.solve() precedes both convergence tests and the bundle is not modified in between",
            "order of bundle operations in the curve-search iteration: %s" % names)
    sv = [c for c in walk(body) if is_call(c, "nano::bundle_t::solve")]
    pr = [c for c in walk(body) if is_call(c, "nano::bundle_t::proximal")]
    dl = [c for c in walk(body) if is_call(c, "nano::bundle_t::delta")]
    same = len(sv) == 1 and len(pr) == 1 and pp(args(sv[0])[0]) == pp(args(pr[0])[0]) and all(pp(args(d)[0]) == pp(args(sv[0])[0]) for d in dl)
    R.check(same, "R-C03-1", "one proximity parameter", f.loc(loops[0]), "solve, proximal and delta use the same proximity parameter " + (pp(args(sv[0])[0]) if sv else "?"),
            "solve/proximal/delta are called with different proximity parameters")


def rule_tolerances(F, R):
    e = F.one("nano::bundle_t::econverged", "src/solver/bundle.cpp")
    s = F.one("nano::bundle_t::sconverged", "src/solver/bundle.cpp")
    def tolvar(f):
        """the local the returned comparison tests against"""
        rets = [x for x in f.nodes() if x["k"] == "return" and x.get("c")]
        for r in rets:
            for y in walk(r):
                if y["k"] == "ref" and y.get("dk") == "var":
                    v, _ = find_var(f, y["d"])
                    if v is not None and v.get("c"):
                        return v, rets
        return None, rets

    def parts(f):
        tv, rets = tolvar(f)
        return (pp(tv["c"][0]).replace(f.params[0]["n"], "EPS") if tv is not None else None), (pp(rets[0]["c"][0]) if rets else None), (tv["n"] if tv is not None else None)
    te, re_, ne = parts(e)
    ts, rs, ns = parts(s)
    R.check(te is not None and te == ts, "R-C03-2", "one tolerance", e.loc(), "both tests use the tolerance " + str(te), "econverged uses %s, sconverged uses %s" % (te, ts))
    tv_e, _ = tolvar(e)
    if tv_e is None:
        raise AnalysisBroken("bundle_t::econverged: the tolerance its test compares against was not found")
    z, det = kalg.compare_expr(e, tv_e["c"][0], "epsilon*sqrt(n)", atoms={"m_x.size()": "n"}, seed=R.seed)
    R.check(bool(z), "R-C03-2", "tolerance formula", e.loc(), "tolerance = epsilon * sqrt(n)", "tolerance is %s: %s" % (te, det))
    R.check(re_ == "(smeared_e() <= %s)" % ne and rs == "(smeared_s().lpNorm<2>() <= %s)" % ns, "R-C03-2", "tested quantities", e.loc(),
            "smeared error and 2-norm of the smeared sub-gradient are compared with <= tol", "tests are %s / %s" % (re_, rs))
    # smeared quantities: e.alpha and S'alpha
    for f in F.functions.values():
        if f.qn in ("nano::bundle_t::smeared_e", "nano::bundle_t::smeared_s"):
            rets = [x for x in f.nodes() if x["k"] == "return"]
            want = "e().dot(alpha())" if f.name == "smeared_e" else "(S().transpose() * alpha())"
            R.check(len(rets) == 1 and pp(rets[0]["c"][0]) == want, "R-C03-2", f.name, f.loc(), f.name + " = " + want, f.name + " is " + (pp(rets[0]["c"][0]) if rets else "?"))


def rule_solver_flags(F, R):
    n = 0
    for f in F.functions.values():
        if f.name != "do_minimize" or not f.cls or not (f.cls.startswith("nano::solver_rqb_t") or f.cls.startswith("nano::base_solver_fpba_t")):
            continue
        n += 1
        inst = f.cls.split("::")[-1]
        vars_ = {v["n"]: v for v in f.nodes() if v["k"] == "var" and v.get("c")}
        sb = None
        for v in f.nodes():
            if v["k"] == "var" and v.get("bindings") and v.get("c") and is_call(skip(v["c"][0]), "nano::csearch_t::search"):
                pt = F.cls("nano::csearch_t::point_t")
                names = [fl["n"] for fl in pt[0]["fields"]] if pt else []
                if "m_status" in names:
                    sb = v["bindings"][names.index("m_status")]["n"]
        okc = sb is not None and "converged" in vars_ and pp(vars_["converged"]["c"][0]) == CT("(%s == nano::csearch_status::converged)" % sb)
        oki = sb is not None and "iter_ok" in vars_ and pp(vars_["iter_ok"]["c"][0]) == CT("(%s != nano::csearch_status::failed)" % sb)
        dn = [c for c in f.calls(lambda x: callee(x) == "nano::solver_t::done")]
        okd = len(dn) == 1 and [pp(x) for x in args(dn[0])[1:3]] == ["iter_ok", "converged"]
        R.check(okc and oki and okd, "R-C03-3", inst, f.loc(), "converged = (status == converged), iter_ok = (status != failed) of the search just performed",
                "solver flags are converged=%s iter_ok=%s" % (pp(vars_["converged"]["c"][0]) if "converged" in vars_ else None, pp(vars_["iter_ok"]["c"][0]) if "iter_ok" in vars_ else None))
    R.floor("R-C03-3", n, 2, "bundle solver bodies")


def rule_errors(F, R):
    f = [g for g in F.fn("nano::bundle_t::append", "src/solver/bundle.cpp") if len(g.params) == 4]
    if not f:
        raise AnalysisBroken("bundle_t::append(y, gy, fy, serious_step) not found")
    f = f[0]
    ifs = [x for x in f.nodes() if x["k"] == "if" and pp(x["c"][x["r"].index("cond")]) == f.params[3]["n"]]
    if len(ifs) != 1 or "else" not in ifs[0]["r"]:
        R.incomplete("R-C03-4", "append branches", f.loc(), "expected if (serious_step) ... else ...")
        return
    then, els = ifs[0]["c"][ifs[0]["r"].index("then")], ifs[0]["c"][ifs[0]["r"].index("else")]
    atoms = {"m_bundleS.vector(i)": "s_i", "m_bundleE(i)": "e_i"}
    # serious step
    inc = [x for x in walk(then) if assignment(x) and assignment(x)[2] == "+=" and kalg.designator(assignment(x)[0]).startswith("m_bundleE")]
    ok = False
    det = ""
    if len(inc) == 1:
        z, det = kalg.compare_expr(f, assignment(inc[0])[1], "fy - m_fx - s_i*(y - m_x)", atoms=atoms, scalar=True, seed=R.seed)
        ok = bool(z)
        # applied to every stored cut: loop i in [0, m_size)
        lp = [a for a in f.ancestors(inc[0]) if a["k"] == "for"]
        if lp:
            init, cond, incr = (lp[0]["c"][lp[0]["r"].index(r)] for r in ("init", "cond", "inc"))
            iv = init["c"][0]
            ok = ok and pp(iv["c"][0]) == "0" and pp(cond) == "(%s < m_size)" % iv["n"] and pp(incr) == "(++%s)" % iv["n"]
        else:
            ok = False
    R.check(ok, "R-C03-4", "serious step shift", f.loc(inc[0]) if inc else f.loc(), "every stored error is shifted by fy - fx - s_i.(y - x) (old centre)",
            "serious-step update of the linearisation errors is not e_i += fy - fx - s_i.(y - x) over all cuts: " + det)
    def new_cut(branch):
        e = s = None
        for x in walk(branch):
            a = assignment(x)
            if a and a[2] == "=":
                d = kalg.designator(a[0])
                if d == "m_bundleE(m_size)":
                    e = a[1]
                elif d == "m_bundleS.tensor(m_size)":
                    s = a[1]
        return e, s
    e1, s1 = new_cut(then)
    e2, s2 = new_cut(els)
    R.check(e1 is not None and literal_value(e1) == 0 and s1 is not None and pp(unwrap_view(s1)) == "gy", "R-C03-4", "serious step new cut", f.loc(then),
            "the cut at the new centre has error 0 and sub-gradient gy", "new cut on a serious step: e=%s s=%s" % (pp(e1) if e1 else None, pp(s1) if s1 else None))
    ok2 = False
    det = ""
    if e2 is not None:
        z, det = kalg.compare_expr(f, e2, "m_fx - fy - gy*(m_x - y)", scalar=True, seed=R.seed)
        ok2 = bool(z) and s2 is not None and pp(unwrap_view(s2)) == "gy"
    R.check(ok2, "R-C03-4", "null step new cut", f.loc(els), "the new cut has error fx - fy - gy.(x - y) and sub-gradient gy", "new cut on a null step is wrong: " + det)
    # ++m_size once after either branch
    incs = [x for x in f.nodes() if incdec(x) and pp(incdec(x)[0]) == "m_size"]
    R.check(len(incs) == 1 and f.cfg.postdominates(f.cfg.where_enclosing(incs[0]), f.cfg.where_enclosing(ifs[0]["c"][0])), "R-C03-4", "size bookkeeping", f.loc(),
            "exactly one cut is added per append", "m_size is not incremented exactly once per append")
    # moveto: append with the old centre, then move the centre together
    m = F.one("nano::bundle_t::moveto", "src/solver/bundle.cpp")
    ap = [c for c in m.calls(lambda x: callee(x) == "nano::bundle_t::append")]
    ws = {kalg.designator(assignment(x)[0]): (x, pp(unwrap_view(assignment(x)[1]))) for x in m.nodes() if assignment(x)}
    p = [q["n"] for q in m.params]
    okm = len(ap) == 1 and {k: v[1] for k, v in ws.items()} == {"m_x": p[0], "m_gx": p[1], "m_fx": p[2]} and \
        all(m.cfg.dominates(m.cfg.where_enclosing(ap[0]), m.cfg.where_enclosing(v[0])) and m.cfg.where_enclosing(ap[0]) != m.cfg.where_enclosing(v[0]) for v in ws.values())
    okm = okm and ap and [pp(unwrap_view(x)) for x in args(ap[0])[:3]] == p[:3]
    sv = ref_decl(args(ap[0])[3]) if ap else None
    init = local_init(m, sv) if sv is not None else (args(ap[0])[3] if ap else None)
    okm = okm and init is not None and literal_value(init) in (1, True)
    R.check(bool(okm), "R-C03-4", "moveto order", m.loc(), "errors are updated against the old centre, then (x, gx, fx) move together to (y, gy, fy)",
            "moveto no longer updates the errors before moving the centre, or moves only part of (x, gx, fx): %s" % {k: v[1] for k, v in ws.items()})


def rule_two_cuts(F, R):
    f = F.one("nano::bundle_t::solve", "src/solver/bundle.cpp")
    vars_ = {v["n"]: v for v in f.nodes() if v["k"] == "var" and v.get("c")}
    atoms = {"Q(0, 0)": "Q00", "Q(0, 1)": "Q01", "Q(1, 0)": "Q10", "Q(1, 1)": "Q11", "c(0)": "c0", "c(1)": "c1"}
    need = ("q", "p", "b", "a")
    if any(k not in vars_ for k in need):
        R.incomplete("R-C03-6", "two-cut closed form", f.loc(), "locals q, p, b, a not found")
        return
    t = sp.Symbol("t", real=True)
    Q00, Q01, Q10, Q11, c0, c1 = (kalg.sym(n) for n in ("Q00", "Q01", "Q10", "Q11", "c0", "c1"))
    obj_ = sp.Rational(1, 2) * (Q00 * t ** 2 + (Q01 + Q10) * t * (1 - t) + Q11 * (1 - t) ** 2) + c0 * t + c1 * (1 - t)
    d = sp.expand(sp.diff(obj_, t))
    want_q, want_p = d.coeff(t, 1), d.coeff(t, 0)
    for name, want in (("q", want_q), ("p", want_p)):
        # the last definition of the name inside the size-2 branch
        cands = [v for v in f.nodes() if v["k"] == "var" and v["n"] == name and v.get("c")]
        z, det = kalg.compare_expr(f, cands[0]["c"][0], want, atoms=atoms, seed=R.seed, inline=False)
        R.check(bool(z), "R-C03-6", "two-cut " + name, f.loc(cands[0]), "d/dt objective(t, 1-t) = q*t + p with %s = %s" % (name, want),
                "closed-form coefficient %s = %s does not match the QP objective restricted to (t, 1-t): %s" % (name, pp(cands[0]["c"][0]), det))
    z, det = kalg.compare_expr(f, vars_["b"]["c"][0], "-p/q", seed=R.seed, inline=False)
    R.check(bool(z), "R-C03-6", "two-cut stationary point", f.loc(vars_["b"]), "t* = -p/q", "stationary point is " + pp(vars_["b"]["c"][0]))
    a = skip(vars_["a"]["c"][0])
    oka = a["k"] == "cond" and all(s_ in pp(a["c"][0]) for s_ in ("isfinite(b)", "(0 <= b)", "(b <= 1)")) and pp(a["c"][1]) == "b"
    if oka:
        inner = skip(a["c"][2])
        oka = inner["k"] == "cond" and literal_value(inner["c"][1]) == 0 and literal_value(inner["c"][2]) == 1
        if oka:
            z, det = kalg.compare_relation(f, inner["c"][0], "q/2 + p > 0", seed=R.seed, inline=False)
            oka = bool(z)
    R.check(oka, "R-C03-6", "two-cut clamp", f.loc(vars_["a"]), "outside [0,1] the better endpoint is taken (t=0 iff objective(1) - objective(0) = q/2 + p > 0)",
            "clamping of the closed-form solution changed: " + pp(vars_["a"]["c"][0]))
    # objective handed to the QP: Q = S S', c = miu * e in both branches
    defs = [(v["n"], pp(v["c"][0])) for v in f.nodes() if v["k"] == "var" and v["n"] in ("Q", "c") and v.get("c")]
    qs = {d_ for n_, d_ in defs if n_ == "Q"}
    cs = {d_ for n_, d_ in defs if n_ == "c"}
    R.check(len(defs) == 4 and len(qs) == 1 and len(cs) == 1 and qs == {"(S() * S().transpose())"} and cs == {"(miu * e())"}, "R-C03-6", "same objective", f.loc(),
            "closed form and QP use Q = S S' and c = miu * e", "the two branches define the objective differently: %s" % defs)
    al = {kalg.designator(assignment(x)[0]): pp(assignment(x)[1]) for x in f.nodes() if assignment(x) and kalg.designator(assignment(x)[0]).startswith("m_alphas(")}
    R.check(al.get("m_alphas(0)") in ("a", "1") and al.get("m_alphas(1)") in ("(1 - a)", "(1.0 - a)"), "R-C03-6", "two-cut multipliers", f.loc(), "alphas = (t, 1 - t)",
            "multipliers stored as %s" % al)


def rule_partial_sort(F, R):
    """R-C03-7: after std::nth_element(b, b+k, e) only position k has a specified value"""
    n = 0
    for f in F.functions.values():
        if f.relfile.startswith("/") and "witness" not in f.file:
            continue
        for c in f.calls(lambda x: callee(x) == "std::nth_element"):
            a = args(c)
            n += 1
            inst = "%s nth_element@%s" % (f.qn.split("::")[-1] if not f.is_lambda else "lambda", f.loc(c))
            first, nth = skip(a[0]), skip(a[1])
            buf = None
            kexpr = None
            # form 1: buffer.begin() + k
            if nth["k"] in ("bin", "call") and (nth.get("op") == "+"):
                for bi in (0, 1):       # operand order of a built-in `+` is canonicalised, not the source's
                    base = skip(nth["c"][bi])
                    if base["k"] == "call" and callee(base).split("::")[-1] == "begin":
                        buf = pp(obj(base))
                        kexpr = nth["c"][1 - bi]
                        break
            if buf is not None:
                # reads of buf(...) after the call in the same function
                cw = f.cfg.where_enclosing(c)
                reads = []
                for x in f.nodes():
                    if x["k"] == "call" and x.get("op") == "()" and pp(x["c"][0]) == buf and len(x["c"]) == 2:
                        w = f.cfg.where_enclosing(x)
                        if w and f.cfg.dominates(cw, w) and w != cw:
                            reads.append(x)
                # nested lambdas capturing an element by value in the same statement group
                for lam, g in F.lambdas_in(f):
                    for cap in lam.get("c", []) or []:
                        pass
                for v in f.nodes():
                    if v["k"] == "lambda":
                        par = f.parent_of(v)
                # init-captures live in the lambda node's children? fall back to a text scan of the enclosing statements
                txt_reads = []
                for x in walk(f.body):
                    if x["k"] == "call" and x.get("op") == "()" and pp(x["c"][0]) == buf and len(x["c"]) == 2 and x not in reads:
                        txt_reads.append(x)
                allreads = reads + [x for x in txt_reads if x["l"] >= c["l"]]
                # bounds known from the repository itself: the literal `count` of the call sites and the registered lower bound of
                # bundle::max_size (the buffer is full: size() == capacity() - 1 == max_size under the enclosing guard)
                env = partial_sort_env(F, f)
                ok = True
                bad = None
                why = ""
                for r_ in allreads:
                    try:
                        k1 = kalg.Conv(f, inline=False).conv(kexpr)
                        k2 = kalg.Conv(f, inline=False).conv(r_["c"][1])
                    except kalg.OutOfFragment as ex:
                        R.incomplete("R-C03-7", inst, f.loc(c), str(ex))
                        ok = None
                        break
                    if sp.simplify(k1 - k2) == 0:
                        continue
                    if env is None:
                        ok, bad, why = False, r_, "cannot bound the index"
                        continue
                    subs0, size_sym, lo = env
                    within = True
                    for sz in range(lo, lo + 64):
                        a_ = k1.subs(subs0).subs(size_sym, sz)
                        b_ = k2.subs(subs0).subs(size_sym, sz)
                        if not (a_.is_number and b_.is_number) or not (0 <= b_ <= a_):
                            within = False
                            why = "for size() = %d the value is read at index %s but the partition point is %s" % (sz, b_, a_)
                            break
                    if not within:
                        ok, bad = False, r_
                if ok is None:
                    continue
                R.check(ok and bool(allreads), "R-C03-7", inst, f.loc(c),
                        "the partially sorted buffer is read at an index in [0, partition point] for every admissible size (value <= the count-th largest)",
                        "std::nth_element partitions %s at `%s` but the threshold is read at `%s`: %s - beyond the partition point the slot is unspecified "
                        "(or outside the copied prefix), fewer cuts than requested are removed and the bundle overflows its capacity" % (
                            buf, pp(kexpr), pp(bad["c"][1]) if bad else "?", why))
            else:
                # iterator form: nth_element(begin, middle, end) followed by *middle
                mid = ref_decl(nth)
                derefs = [x for x in f.nodes() if x["k"] in ("un", "call") and x.get("op") == "*" and len(x.get("c", ())) == 1 and x["l"] >= c["l"]]
                ok = mid is not None and bool(derefs) and all(ref_decl(x["c"][0]) == mid for x in derefs)
                R.check(ok, "R-C03-7", inst, f.loc(c), "the element read after the partial sort is the partition iterator", "an iterator other than the partition point is dereferenced after std::nth_element")
    R.floor("R-C03-7", n, 2, "std::nth_element call sites")


def partial_sort_env(F, f):
    """({count: literal}, size symbol, lower bound of size) for bundle_t::delete_largest"""
    if f.qn != "nano::bundle_t::delete_largest":
        return None
    cnt = f.params[0]
    lits = set()
    for g in F.functions.values():
        for c in g.calls(lambda x: callee(x) == "nano::bundle_t::delete_largest"):
            lits.add(literal_value(args(c)[0]))
    if len(lits) != 1 or None in lits:
        return None
    lo = None
    for g in F.functions.values():
        if g.qn == "nano::bundle_t::config":
            for c in g.calls(lambda x: callee(x) == "nano::parameter_t::make_integer"):
                a = args(c)
                if "bundle::max_size" in pp(a[0]):
                    lo = literal_value(a[1])
                    if pp(a[2]).endswith("LT") and lo is not None:
                        lo += 1
    if lo is None:
        return None
    # under the guard size() + 1 == capacity() the bundle holds max_size cuts
    guard = any(x["k"] == "if" and pp(x["c"][x["r"].index("cond")]) == "((size() + 1) == capacity())" for x in f.nodes())
    if not guard:
        return None
    return {kalg.sym(cnt["n"]): next(iter(lits))}, kalg.sym("size"), int(lo)


def rule_capacity(F, R):
    """R-C03-8: slots consumed between capacity checks are covered by the number of cuts removed"""
    ap = [g for g in F.fn("nano::bundle_t::append", "src/solver/bundle.cpp") if len(g.params) == 4][0]
    dl = F.one("nano::bundle_t::delete_largest", "src/solver/bundle.cpp")
    calls = [c for c in ap.calls(lambda x: callee(x) == "nano::bundle_t::delete_largest")]
    k = literal_value(args(calls[0])[0]) if len(calls) == 1 else None
    # after delete_largest: append_aggregate (+1) and the new cut (+1)
    agg = [c for c in dl.calls(lambda x: callee(x) == "nano::bundle_t::append_aggregate")]
    consumed = len(agg) + 1
    R.check(k is not None and k >= consumed, "R-C03-8", "removal covers consumption", ap.loc(calls[0]) if calls else ap.loc(),
            "delete_largest(%s) frees at least the %d slots consumed (aggregate + new cut) before the next check" % (k, consumed),
            "delete_largest(%s) frees fewer slots than the %d consumed before the next capacity check" % (k, consumed))
    # the check triggers when exactly one slot is left
    ifs = [x for x in dl.nodes() if x["k"] == "if"]
    okc = len(ifs) == 1 and pp(ifs[0]["c"][ifs[0]["r"].index("cond")]) == "((size() + 1) == capacity())"
    R.check(okc, "R-C03-8", "capacity trigger", dl.loc(), "cuts are removed when size() + 1 == capacity()", "capacity trigger is %s" % (pp(ifs[0]["c"][ifs[0]["r"].index("cond")]) if ifs else None))
    # the removal predicate keeps at most size - count cuts: E(i) > t - eps with eps > 0
    lam = [g for _, g in F.lambdas_in(dl)]
    okp = False
    for g in lam:
        rets = [x for x in g.nodes() if x["k"] == "return"]
        if rets and "m_bundleE(" in pp(rets[0]["c"][0]):
            okp = pp(rets[0]["c"][0]) == CT("(m_bundleE(%s) >= thres)" % g.params[0]["n"])
    thres = [cap for l_ in dl.nodes() if l_["k"] == "lambda" for cap in l_.get("caps", [])]
    R.check(okp, "R-C03-8", "removal predicate", dl.loc(), "a cut is removed iff its error is >= the threshold (ties with the threshold are removed too)",
            "the removal predicate is strict (error > threshold - 1e-15): for errors larger than ~10 the absolute epsilon is below one ulp, cuts equal to "
            "the threshold are kept, fewer than `count` cuts may be removed and the bundle overflows")
    # buffers sized max_size + 1 and store_aggregate uses the last slot
    ctor = [g for g in F.in_file("src/solver/bundle.cpp") if g.cls == "nano::bundle_t" and g.raw.get("ctor") == "other"]
    if ctor:
        inits = {i.get("n"): pp(i["c"][0]) for i in ctor[0].inits if i.get("c")}
        ms = ctor[0].params[1]["n"]
        oks = all(("(%s + 1)" % ms) in (inits.get(k_) or "") for k_ in ("m_bundleS", "m_bundleE", "m_alphas"))
        R.check(oks, "R-C03-8", "buffer sizes", ctor[0].loc(), "all three buffers hold max_size + 1 entries", "bundle buffers are sized %s" % {k_: inits.get(k_) for k_ in ("m_bundleS", "m_bundleE", "m_alphas")})
    cap = [g for g in F.functions.values() if g.qn == "nano::bundle_t::capacity"]
    for g in cap[:1]:
        rets = [x for x in g.nodes() if x["k"] == "return"]
        R.check(rets and pp(rets[0]["c"][0]) == "m_alphas.size()", "R-C03-8", "capacity()", g.loc(), "capacity() is the buffer length", "capacity() is " + (pp(rets[0]["c"][0]) if rets else "?"))


def rule_ellipsoid(F, R):
    f = F.one("nano::solver_ellipsoid_t::do_minimize", "src/solver/ellipsoid.cpp")
    vars_ = {}
    for v in f.nodes():
        if v["k"] == "var" and v.get("c"):
            vars_.setdefault(v["n"], []).append(v)
    eps = [v for v in vars_.get("epsilon", []) if parameter_name(v["c"][0]) == "solver::epsilon"]
    conv = [v for v in vars_.get("converged", []) if "sqrt" in pp(v["c"][0])]
    ok = bool(eps) and len(conv) == 1 and pp(conv[0]["c"][0]) == "(sqrt(gHg) < epsilon)"
    g = vars_.get("gHg", [])
    okg = len(g) == 1 and pp(g[0]["c"][0]) == "gv.dot((Hm * gv))"
    # the same gHg is used by the update of that iteration and is not re-assigned
    reass = [x for x in f.nodes() if assignment(x) and pp(assignment(x)[0]) == "gHg"]
    R.check(ok and okg and not reass, "R-C03-5", "ellipsoid certificate", f.loc(conv[0]) if conv else f.loc(),
            "converged = sqrt(g'Hg) < solver::epsilon with the g'Hg of this iteration's update", "ellipsoid convergence flag is %s with gHg = %s" % (
                pp(conv[0]["c"][0]) if conv else None, pp(g[0]["c"][0]) if g else None))
    dn = [c for c in f.calls(lambda x: callee(x) == "nano::solver_t::done")]
    flags = [pp(args(c)[2]) for c in dn]
    R.check(len(dn) == 2 and "converged" in flags, "R-C03-5", "ellipsoid done flags", f.loc(), "done() receives that flag", "done() receives %s" % flags)


def rule_ellipsoid_update(F, R):
    """R-C03-9: the deep-cut ellipsoid update (centre and shape) equals its definition, in floating-point arithmetic"""
    f = F.one("nano::solver_ellipsoid_t::do_minimize", "src/solver/ellipsoid.cpp")
    ups = {}
    for x in f.nodes():
        a = assignment(x)
        if a and a[2] == "=" and pp(a[0]) in ("xv.noalias()", "Hm.noalias()", "xv", "Hm"):
            ups[pp(a[0]).split(".")[0]] = (a[1], x)
    if set(ups) != {"xv", "Hm"}:
        raise AnalysisBroken("ellipsoid: the assignments updating the centre (xv) and the shape (Hm) were not found")
    gHg = [v for v in f.nodes() if v["k"] == "var" and v["n"] == "gHg" and v.get("c")]
    alpha = [v for v in f.nodes() if v["k"] == "var" and v["n"] == "alpha" and v.get("c")]
    if len(gHg) != 1 or len(alpha) != 1:
        raise AnalysisBroken("ellipsoid: locals gHg / alpha not found")
    N_, AL, GHG, H_, G_, X_, FCUR, FBEST = (kalg.sym(n) for n in ("n", "alpha", "gHg", "H", "g", "x", "f", "fbest"))
    atoms = {"function.size()": N_, "state.fx()": FBEST, "Hm": H_, "gv": G_, "xv": X_, "f": FCUR}
    subst = {gHg[0]["d"]: GHG, alpha[0]["d"]: AL}
    try:
        cv = kalg.Conv(f, atoms=atoms, subst=subst, scalar=True)
        newx = cv.conv(ups["xv"][0])
        newH = cv.conv(ups["Hm"][0])
        a_def = kalg.Conv(f, atoms=atoms, subst={gHg[0]["d"]: GHG}, scalar=True).conv(alpha[0]["c"][0])
    except kalg.OutOfFragment as e:
        R.incomplete("R-C03-9", "ellipsoid update", f.loc(ups["xv"][1]), "cannot evaluate: %s" % e)
        return
    tau = (1 + N_ * AL) / (N_ + 1)
    wantx = X_ - tau * (H_ * G_) / sp.sqrt(GHG)
    wantH = N_ ** 2 / (N_ ** 2 - 1) * (1 - AL ** 2) * (H_ - 2 * tau / (1 + AL) * (H_ * G_ * G_ * H_) / GHG)
    z1, w1 = kalg.is_zero(newx - wantx, R.seed)
    z2, w2 = kalg.is_zero(newH - wantH, R.seed)
    z3, w3 = kalg.is_zero(a_def - (FCUR - FBEST) / sp.sqrt(GHG), R.seed)
    R.check(bool(z1), "R-C03-9", "ellipsoid centre", f.loc(ups["xv"][1]), "x+ = x - (1 + n a)/(n + 1) H g / sqrt(g'Hg)", "centre update is %s, the deep-cut definition is %s %s" % (newx, wantx, w1))
    R.check(bool(z2), "R-C03-9", "ellipsoid shape", f.loc(ups["Hm"][1]), "H+ = n^2/(n^2-1) (1 - a^2) (H - 2(1 + n a)/((n+1)(1+a)) H g g' H / g'Hg)",
            "shape update is %s, the deep-cut definition is %s %s: the new ellipsoid need not contain the half of the old one that holds the minimiser, yet sqrt(g'Hg) < eps is still reported as converged" % (newH, wantH, w2))
    R.check(bool(z3), "R-C03-9", "ellipsoid cut depth", f.loc(alpha[0]), "a = (f(x) - f_best) / sqrt(g'Hg)", "cut depth is %s %s" % (a_def, w3))


# ------------------------------------------------------------------------------------------------ R-C03-10 multipliers are fresh when consumed

STEP_STATUSES = ("descent_step", "cutting_plane_step", "null_step")


def bundle_summaries(F):
    """per bundle_t method: (needs, effect) - `needs`: the method reads the multipliers m_alphas before (re)computing them; effect in
    {'keep', 'valid', 'invalid'}: what it leaves behind. Derived from the bodies in source order (branch-insensitive: "on some path"):
    a write in solve() makes them valid (the QP solution), a write anywhere else clobbers them (delete_largest reuses the buffer for the sorted
    errors), `.size()` and the structural compaction in remove_if are neutral."""
    ms = {}
    for f in F.functions.values():
        if f.cls == "nano::bundle_t" and f.body is not None and not f.is_lambda:
            ms.setdefault(f.qn + "/%d" % len(f.params), f)
    memo = {}

    def events(f):
        out = []
        bodies = [f] + [g for _, g in F.lambdas_in(f)]
        lhs_ids = set()
        for h in bodies:
            for x in h.nodes():
                a = assignment(x)
                if a:
                    for y in walk(a[0]):
                        lhs_ids.add(y["i"])
        for h in bodies:
            for x in h.nodes():
                if x["k"] == "mem" and x.get("n") == "m_alphas":
                    anc = list(h.ancestors(x))
                    par = anc[0] if anc else None
                    if par is not None and par["k"] == "call" and callee(par).split("::")[-1] == "size":
                        continue
                    if any(a_["k"] == "call" and callee(a_).split("::")[-1] == "remove_if" for a_ in anc):
                        continue
                    if any(a_["k"] == "call" and callee(a_) == "std::nth_element" for a_ in anc) or x["i"] in lhs_ids:
                        out.append((x["l"], x["i"], "W"))
                    else:
                        out.append((x["l"], x["i"], "R"))
                elif x["k"] == "call" and h is f:
                    cq = callee(x)
                    if cq.startswith("nano::bundle_t::") and not x.get("static"):
                        out.append((x["l"], x["i"], ("C", cq + "/%d" % len(args(x)))))
        # an assignment's right-hand side is evaluated before the store: order reads before writes on the same line
        return sorted(out, key=lambda e: (e[0], 0 if e[2] == "R" else 1, e[1]))

    def summary(key, depth=0):
        if key in memo:
            return memo[key]
        f = ms.get(key)
        if f is None or depth > 8:
            return (False, "keep")
        memo[key] = (False, "keep")
        producer = f.name == "solve"
        needs, st = False, "entry"
        for _, _, ev in events(f):
            if ev == "R":
                needs = needs or st == "entry"
            elif ev == "W":
                st = "valid" if producer else "invalid"
            else:
                n2, e2 = summary(ev[1], depth + 1)
                needs = needs or (n2 and st == "entry")
                if e2 != "keep":
                    st = e2
        memo[key] = (needs and not producer, {"entry": "keep"}.get(st, st))
        return memo[key]
    for k in list(ms):
        summary(k)
    return ms, memo


def rule_bundle_protocol(F, R):
    """R-C03-10: bundle_t::m_alphas holds the QP multipliers only between solve() and the next bundle update (append / moveto drop inactive cuts
    and build the aggregate cut from them, then delete_largest reuses the buffer). Clients must therefore solve between two updates: in the
    curve search every step status is decided after bundle.solve(), and in RQB / FPBA every consumer of the multipliers is reached only on a
    `status == <step status>` edge of a fresh search result (or after solve) with no update in between."""
    ms, summ = bundle_summaries(F)
    want = {"moveto": (True, "invalid"), "append": (True, "invalid"), "solve": (False, "valid"), "smeared_s": (True, "keep"), "smeared_e": (True, "keep")}
    for name, w in sorted(want.items()):
        got = {v for k, v in summ.items() if k.split("/")[0] == "nano::bundle_t::" + name and (name != "append" or k.endswith("/3"))}
        if got != {w}:
            R.incomplete("R-C03-10", "bundle_t::%s summary" % name, "src/solver/bundle.cpp:1", "derived (needs multipliers, leaves them) = %s, the protocol the rule was written for is %s" % (sorted(got), w))
            return
    R.ok("R-C03-10", "bundle_t summaries", "src/solver/bundle.cpp:1", "append/moveto consume the multipliers and clobber them, solve recomputes them (%d methods summarised)" % len(summ))

    def needs(c):
        return summ.get(callee(c) + "/%d" % len(args(c)), (False, "keep"))
    # (1) the curve search decides every step status after solving
    f = F.one("nano::csearch_t::search", "src/solver/csearch.cpp")
    cfg = f.cfg
    solves = [e for e in cfg.elems() if e.kind == "node" and e.node["k"] == "call" and callee(e.node) == "nano::bundle_t::solve"]
    clob = [e for e in cfg.elems() if e.kind == "node" and e.node["k"] == "call" and callee(e.node).startswith("nano::bundle_t::") and needs(e.node)[1] == "invalid"]
    nst = 0
    for x in f.nodes():
        a = assignment(x)
        if a and any(pp(a[1]).endswith("csearch_status::" + s_) for s_ in STEP_STATUSES):
            nst += 1
            w = cfg.where_enclosing(x)
            ok = bool(solves) and not clob and any(cfg.dominates((e.block, e.pos), w) for e in solves)
            R.check(ok, "R-C03-10", "search status@%d" % x["l"], f.loc(x), "the step status %s is decided after bundle.solve() in the same call" % pp(a[1]).split("::")[-1],
                    "csearch_t::search can return the step status %s without having solved the bundle's QP in this call" % pp(a[1]).split("::")[-1])
    R.floor("R-C03-10/search", nst, 3, "step-status assignments in csearch_t::search")
    # (2) clients
    nsite = 0
    def client(g):
        return g.body is not None and g.relfile.startswith("src/solver/") and g.cls not in ("nano::bundle_t", "nano::csearch_t") and \
            not (g.is_lambda and any(k_ in (g.parent or "") for k_ in ("nano::bundle_t::", "nano::csearch_t::")))
    clients = [g for g in F.functions.values() if client(g) and
               any(c["k"] == "call" and callee(c).startswith("nano::bundle_t::") and callee(c).split("::")[-1] in ("moveto", "append", "solve", "smeared_s", "smeared_e") or
                   c["k"] == "call" and callee(c) == "nano::csearch_t::search" for c in g.nodes())]
    lam_of = {}
    for g in F.functions.values():
        if client(g):
            for lam, h in F.lambdas_in(g):
                par = g.parent_of(lam)
                while par is not None and par["k"] not in ("var",):
                    par = g.parent_of(par)
                if par is not None:
                    lam_of[par["d"]] = h
    lam_summ = {}

    def analyse(g, entry_valid, report):
        cfg = g.cfg
        status_vars = set()
        for v in g.nodes():
            if v["k"] == "var" and v.get("bindings") and v.get("c") and any(y["k"] == "call" and callee(y) == "nano::csearch_t::search" for y in walk(v["c"][0])):
                for b in v["bindings"]:
                    status_vars.add(b["d"])

        def telem(facts, e):
            if e.kind != "node" or e.node["k"] != "call":
                return
            c = e.node
            cq = callee(c)
            if cq == "nano::csearch_t::search":
                facts.add("F")
                facts.discard("V")
                return
            if cq.startswith("nano::bundle_t::"):
                eff = needs(c)[1]
                if eff == "valid":
                    facts.add("V")
                elif eff == "invalid":
                    facts.discard("V")
                    facts.discard("F")
                return
            if c.get("op") == "()" and c.get("c") and skip(c["c"][0])["k"] == "ref" and skip(c["c"][0]).get("d") in lam_of:
                h = lam_of[skip(c["c"][0])["d"]]
                s_ = lam_summ.get(id(h))
                if s_ and not s_[1]:
                    facts.discard("V")
                    facts.discard("F")

        def tedge(facts, b, k):
            if b.cond is None or len(b.succ) != 2 or k != 0:
                return
            c = skip(b.cond)
            if c["k"] in ("bin", "call") and c.get("op") == "==" and "F" in facts:
                sides = [skip(x_) for x_ in c["c"][-2:]]
                txt = [pp(x_) for x_ in sides]
                if any(t_.endswith("csearch_status::" + s_) for t_ in txt for s_ in STEP_STATUSES) and any(y["k"] == "ref" and y.get("d") in status_vars for x_ in sides for y in walk(x_)):
                    facts.add("V")
        IN, before = must_dataflow(cfg, {"V"} if entry_valid else set(), telem, tedge)
        count = 0
        for e in cfg.elems():
            if e.kind != "node" or e.node["k"] != "call":
                continue
            c = e.node
            need = False
            what = None
            if callee(c).startswith("nano::bundle_t::"):
                need, what = needs(c)[0], callee(c).split("::")[-1]
            elif c.get("op") == "()" and c.get("c") and skip(c["c"][0])["k"] == "ref" and skip(c["c"][0]).get("d") in lam_of:
                s_ = lam_summ.get(id(lam_of[skip(c["c"][0])["d"]]))
                need, what = bool(s_ and s_[0]), "%s (a lambda that updates the bundle)" % skip(c["c"][0])["n"]
            if not need:
                continue
            facts = before(e.block, e.pos)
            if facts is None:
                continue
            count += 1
            if report:
                R.check("V" in facts, "R-C03-10", "%s %s@%d" % (("lambda in " + (g.parent or "?").split("(")[0].split("::")[-2].split("<")[0]) if g.is_lambda else g.qn.split("::")[-2] if "::" in g.qn else g.qn, what.split(" ")[0], c["l"]), g.loc(c),
                        "the multipliers consumed here are those of a QP solved since the last bundle update",
                        "`%s` consumes the bundle's multipliers (inactive cuts are dropped and the aggregate cut is built from m_alphas), but on some path the bundle was updated since "
                        "the last solve(): delete_largest left the sorted linearisation errors in that buffer, the aggregate is no longer a lower bound of f and the search can report "
                        "`converged` at a non-optimal point" % pp(c)[:60])
        # exit facts: intersection over the blocks that leave the function
        exits = [IN[b] for b in cfg.blocks if IN[b] is not None and not [s_ for s_ in cfg.blocks[b].succ if s_ >= 0]]
        outs = []
        for b in cfg.blocks:
            if IN[b] is None or [s_ for s_ in cfg.blocks[b].succ if s_ >= 0]:
                continue
            cur = before(b, 10 ** 9)
            outs.append("V" in cur)
        return count, (all(outs) if outs else True)
    # lambdas first (entry assumed valid; whether they need it = they contain a consumer reached without a solve of their own)
    for d_, h in lam_of.items():
        if not any(c["k"] == "call" and callee(c).startswith("nano::bundle_t::") for c in h.nodes()):
            continue
        lam_summ[id(h)] = (False, True)
        cnt, exit_valid = analyse(h, True, True)        # checked under the assumption that its callers establish validity (required at each call)
        nsite += cnt
        lam_summ[id(h)] = (True, exit_valid)
    for g in clients:
        if g.is_lambda:
            continue
        cnt, _ = analyse(g, False, True)
        nsite += cnt
    R.floor("R-C03-10/clients", nsite, 6, "consumers of the multipliers in RQB / FPBA")


def rule_decided_exits(F, R):
    """R-C03-11: the main loop of the ellipsoid / RQB / FPBA solvers is left early only with a decided status: `break` is either the `then` of
    `if (solver_t::done(...))` (done returned true: converged or failed was recorded), or it directly follows a done() call whose converged argument
    is the constant true (or whose iter_ok is the constant false). Leaving the loop unconditionally after a done() that may have decided nothing
    returns `max_iters` although the budget is not exhausted - for the ellipsoid's degenerate exit that is an epsilon-optimal point not reported
    as converged."""
    n = 0
    for f in F.functions.values():
        if f.body is None or f.is_lambda or f.name != "do_minimize" or not f.relfile.startswith("src/solver/") or \
                not any(k_ in (f.cls or "") for k_ in ("ellipsoid", "rqb", "fpba")):
            continue
        loops = [x for x in f.nodes() if x["k"] == "while" and "max_evals" in pp(x["c"][x["r"].index("cond")])]
        if len(loops) != 1:
            R.incomplete("R-C03-11", (f.cls or "?").split("::")[-1], f.loc(), "expected one budget loop")
            continue
        loop = loops[0]

        def const_value(n_, depth=0):
            n_ = skip(n_)
            while n_["k"] == "cast" and n_.get("c"):
                n_ = skip(n_["c"][0])
            if n_["k"] == "bool":
                return bool(n_["v"])
            if n_["k"] == "ref" and depth < 3:
                v, _ = find_var(f, n_.get("d"))
                if v is not None and v.get("c") and (v.get("t") or "").startswith("const "):
                    return const_value(v["c"][0], depth + 1)
            return None
        for br in walk(loop):
            if br["k"] != "break":
                continue
            anc = list(f.ancestors(br))
            if any(a_["k"] in ("for", "while", "do", "switch", "rangefor") and a_ is not loop for a_ in anc[:anc.index(loop)]):
                continue
            n += 1
            inst = "%s break@%d" % ((f.cls or "?").split("::")[-1].split("<")[0], br["l"])
            ok, why = False, "no solver_t::done call decides the status before this exit"
            ifs = [a_ for a_ in anc[:anc.index(loop)] if a_["k"] == "if"]
            if ifs:
                cnd = skip(ifs[0]["c"][ifs[0]["r"].index("cond")])
                in_then = any(z is br for z in walk(ifs[0]["c"][ifs[0]["r"].index("then")]))
                if cnd["k"] == "call" and callee(cnd) == "nano::solver_t::done" and in_then:
                    ok = True
            if not ok:
                blk = f.parent_of(br)
                sibs = blk.get("c", ()) if blk is not None and blk["k"] == "block" else ()
                prev = [s_ for s_ in sibs if s_ is not None and s_["l"] <= br["l"] and s_ is not br]
                dn = [c for s_ in prev for c in walk(s_) if c["k"] == "call" and callee(c) == "nano::solver_t::done"]
                if dn:
                    a_ = args(dn[-1])
                    okv, cv = const_value(a_[1]), const_value(a_[2])
                    if cv is True or okv is False:
                        ok = True
                    else:
                        why = "`%s; break;` leaves the loop whatever done() returned: when `%s` is false (and the iteration is fine) no status was recorded and the solver returns " \
                              "max_iters although the budget is not exhausted" % (pp(dn[-1])[:60], pp(a_[2])[:40])
            R.check(ok, "R-C03-11", inst, f.loc(br), "an early exit of the main loop records converged or failed", why)
    R.floor("R-C03-11", n, 4, "early exits of the ellipsoid / RQB / FPBA main loops")


def rule_aggregate_fresh(F, R):
    """R-C03-12: the aggregate cut that `append_aggregate()` re-inserts has to be the one computed (`store_aggregate()`: the convex combination of
    the current cuts with the current multipliers) since the multipliers last changed. Per bundle_t method a must-dataflow over its CFG gives
    (needs the stored aggregate at entry, guarantees it at exit, may invalidate it), with callee summaries: store_aggregate generates the fact,
    new multipliers (writes to m_alphas inside solve) kill it, append_aggregate needs it. The update API (moveto / append) may need it at entry
    only if solve() guarantees it on *every* path - an early return of solve() that skips the store leaves the aggregate of an earlier solve,
    expressed relative to an earlier centre: no longer a lower bound of f."""
    from ..cfg import must_dataflow
    ms = {}
    for f in F.functions.values():
        if f.cls == "nano::bundle_t" and f.body is not None and not f.is_lambda and not f.raw.get("ctor"):
            ms[f.qn + "/%d" % len(f.params)] = f
    memo = {}

    def summary(key, depth=0):
        if key in memo:
            return memo[key]
        f = ms.get(key)
        if f is None or depth > 8:
            return (False, False, False)
        if f.name == "store_aggregate":
            memo[key] = (False, True, False)
            return memo[key]
        if f.name == "append_aggregate":
            memo[key] = (True, False, False)
            return memo[key]
        memo[key] = (False, False, False)
        producer = f.name == "solve"
        res = {}
        for entry in (True, False):
            needs = [False]
            killed = [False]

            def telem(facts, e, needs=needs, killed=killed):
                if e.kind != "node" or e.node is None:
                    return
                n_ = e.node
                a_ = assignment(n_)
                if producer and a_ and any(y["k"] == "mem" and y.get("n") == "m_alphas" for y in walk(a_[0])):
                    facts.discard("A")
                    killed[0] = True
                    return
                if n_["k"] == "call":
                    cq = callee(n_)
                    if cq.startswith("nano::bundle_t::") and not n_.get("static"):
                        nd, gen, kill = summary(cq + "/%d" % len(args(n_)), depth + 1)
                        if nd and "A" not in facts:
                            needs[0] = True
                        if kill:
                            facts.discard("A")
                            killed[0] = True
                        if gen:
                            facts.add("A")
            IN, before = must_dataflow(f.cfg, {"A"} if entry else set(), telem)
            outs = []
            for b in f.cfg.blocks:
                if IN[b] is None or [s_ for s_ in f.cfg.blocks[b].succ if s_ >= 0]:
                    continue
                cur = before(b, 10 ** 9)
                outs.append("A" in cur)
            res[entry] = (needs[0], all(outs) if outs else entry, killed[0])
        # needs: judged with an empty entry; gen: A at every exit even from an empty entry; kill: some path invalidates
        memo[key] = (res[False][0], res[False][1], res[True][2] and not res[True][1])
        return memo[key]
    for k in list(ms):
        summary(k)
    if not any(k.split("/")[0].endswith("::append_aggregate") for k in ms) or not any(k.split("/")[0].endswith("::store_aggregate") for k in ms):
        R.incomplete("R-C03-12", "aggregate", "src/solver/bundle.cpp:1", "store_aggregate / append_aggregate not found")
        return
    solve = [v for k, v in memo.items() if k.split("/")[0] == "nano::bundle_t::solve"]
    n = 0
    for k, (nd, gen, kill) in sorted(memo.items()):
        name = k.split("/")[0].split("::")[-1]
        if name not in ("moveto", "append") or k.endswith("/4"):
            continue
        n += 1
        ok = (not nd) or (solve and all(s_[1] for s_ in solve))
        R.check(ok, "R-C03-12", "bundle_t::%s" % name, ms[k].loc(), "the aggregate re-inserted by append_aggregate() was stored since the multipliers last changed",
                "%s() reaches append_aggregate() without a store_aggregate() of its own, and solve() does not store the aggregate on every path (some exit follows new "
                "multipliers without it): the cut re-inserted when the bundle is full can be the aggregate of an earlier solve, relative to an earlier centre - not a lower "
                "bound of f any more, the search then reports converged away from the optimum" % name)
    R.floor("R-C03-12", n, 2, "bundle update entry points")


def run(ctx):
    R = ctx.report
    F = ctx.facts(TUS)
    rule_csearch_status(F, R)
    rule_tolerances(F, R)
    rule_solver_flags(F, R)
    rule_errors(F, R)
    rule_two_cuts(F, R)
    rule_partial_sort(F, R)
    rule_capacity(F, R)
    rule_ellipsoid(F, R)
    rule_ellipsoid_update(F, R)
    rule_bundle_protocol(F, R)
    rule_decided_exits(F, R)
    rule_aggregate_fresh(F, R)
    from . import c19
    c19.rule_read_kind(F, R, rule="R-C03-14", floor=1)
    from . import c01
    nn = c01.rule_noalias(F, R, rule="R-C03-13")
    R.floor("R-C03-13", nn, 2, "noalias assignments of the ellipsoid update")
